#!/bin/sh
# Offline setup: install hypothesis (and atheris) from the local wheelhouse.
HERE="$(cd "$(dirname "$0")" && pwd)"
cd "$HERE" || exit 2
PY="${VERIF_PYTHON:-/venv/bin/python}"
W=/opt/veriftools/wheels
export PIP_NO_INDEX=1
if ! "$PY" -c "import hypothesis" 2>/dev/null; then
  "$PY" -m pip install -q --no-index --find-links "$W" hypothesis 2>/dev/null \
   || "$PY" -m pip install -q --no-index --find-links "$W" --target "$HERE/.deps" hypothesis
fi
if ! PYTHONPATH="$HERE/.deps" "$PY" -c "import atheris" 2>/dev/null; then
  "$PY" -m pip install -q --no-index --find-links "$W" --target "$HERE/.deps" atheris || echo "atheris unavailable (fuzz tier will be skipped)"
fi
mkdir -p "$HERE/out" "$HERE/evidence"
PYTHONPATH="$HERE:$HERE/.deps" "$PY" -c "import hypothesis, dns, sys; print('setup ok: hypothesis', hypothesis.__version__, 'dns', dns.__file__)" || exit 1
