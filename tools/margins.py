"""usage: tools/margins.py <seed> [ID ...] -- runs the quick checks and lists the require minima that are
within 2.5x of the measured class counts (audit of generator margins; not part of any check)"""
import sys, subprocess, importlib, os, re
sys.path.insert(0, "/verif"); sys.path.insert(0, "/repo")
seed = sys.argv[1]
ids = sys.argv[2:] or ["C%02d" % i for i in range(1, 21)]
for pid in ids:
    mod = importlib.import_module("vlib.props." + pid.lower())
    req = {}
    for part in mod.parts("quick"):
        r = part.require or {}
        if "quick" in r and isinstance(r["quick"], dict):
            r = r["quick"]
        for k, v in r.items():
            if k in ("quick", "thorough"):
                continue
            req[(part.name, k)] = v
    env = dict(os.environ, VERIF_SEED=seed, VERIF_NO_EVIDENCE="1", VERIF_VERBOSE="1")
    proc = subprocess.run(["/verif/check", pid, "quick"], env=env, capture_output=True, text=True, cwd="/verif")
    out = proc.stdout
    counts = {}
    for line in out.splitlines():
        m = re.match(r"^\s+([^:]+):(.*): (\d+)$", line)
        if m:
            counts[(m.group(1), m.group(2))] = int(m.group(3))
    worst = []
    for (pn, k), v in req.items():
        if k == "__nontrivial__" or v <= 0:
            continue
        got = counts.get((pn, k), 0)
        if got < 2.5 * v:
            worst.append((round(got / v, 2), pn, k, got, v))
    print(pid, "seed", seed, "exit", proc.returncode, "tight:", sorted(worst)[:12], flush=True)
