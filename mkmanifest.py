#!/venv/bin/python
"""Regenerate MANIFEST.json from the property modules that exist (vlib/props/cNN.py).
Every property without a module is listed under not_applicable with the reason."""
import importlib
import json
import os
import sys

HERE = os.path.dirname(os.path.abspath(__file__))
sys.path.insert(0, HERE)

NOT_BUILT = "check not built yet in this session (planned in DESIGN.md; not a limit of the technique)"
NA_REASONS = {}
# only checks that have been run quiet at 5 seeds and against their mutants are registered
READY = {"C01", "C02", "C03", "C04", "C05", "C06", "C07", "C08", "C09", "C10", "C11", "C12", "C13", "C14", "C15", "C16", "C17", "C18", "C19", "C20"}

props = [json.loads(l) for l in open(os.path.join(HERE, "properties.jsonl"))]
checks = []
na = []
served = []
for p in props:
    pid = p["id"]
    path = os.path.join(HERE, "vlib", "props", pid.lower() + ".py")
    if not os.path.exists(path) or pid in NA_REASONS or pid not in READY:
        na.append({"property_id": pid, "reason": NA_REASONS.get(pid, NOT_BUILT)})
        continue
    src = open(path).read()
    # read metadata without importing dns: the modules keep metadata as plain literals
    ns = {}
    meta = {}
    import ast

    tree = ast.parse(src)
    for node in tree.body:
        if isinstance(node, ast.Assign) and len(node.targets) == 1 and isinstance(node.targets[0], ast.Name):
            nm = node.targets[0].id
            if nm in ("ID", "LEVEL", "RULE", "ASSUMPTIONS", "LEVEL_TEXT", "LEVEL_NOTE", "TECHNIQUE"):
                meta[nm] = ast.literal_eval(node.value)
    served.append(pid)
    checks.append(
        {
            "property_id": pid,
            "quick_cmd": f"./check {pid} quick",
            "thorough_cmd": f"./check {pid} thorough",
            "evidence_file": f"evidence/{pid}.json",
            "replay_cmd_template": f"./check {pid} quick --replay {{path}}",
            "engine": "vlib",
            "level_claimed": {
                "category": meta["LEVEL"],
                "text": meta.get("LEVEL_TEXT", meta["RULE"]),
                "design_ref": f"§{pid}",
            },
            "level_note": meta.get("LEVEL_NOTE", "; ".join(meta.get("ASSUMPTIONS", []))),
            "technique": meta.get(
                "TECHNIQUE", "property-based testing (Hypothesis-generated cases against an independent reference oracle)"
            ),
        }
    )

manifest = {
    "version": 1,
    "setup_cmd": "./setup.sh",
    "hooks": {
        "guard": "DNSPYTHON_VERIF",
        "enable": "no source hooks are needed: checks import dns from /repo's working tree (VERIF_REPO overrides) and rebind module attributes (time, threading, _wait_for) inside the harness process; ./check exports DNSPYTHON_VERIF=1 for uniformity",
        "baseline_off_cmd": "cd /repo && /venv/bin/python -m pytest -ra -q -p no:cacheprovider --timeout=900 --continue-on-collection-errors",
        "source_commits": [],
        "add_only": True,
    },
    "engines": [
        {
            "name": "vlib",
            "path": "vlib/runner.py",
            "serves_properties": served,
            "kind_free_text": "Hypothesis-driven generated-input search (case descriptors, sharded over 16 processes, seeded from VERIF_SEED), exhaustive enumeration of finite sub-domains, independent reference oracles under vlib/ref, replay files under out/replays and replays/",
        }
    ],
    "checks": checks,
    "notes": "All checks: exit 0 held / exit 1 + VIOLATION line / exit 2 harness error. known_findings.json lists genuine defects recorded or fixed. See DESIGN.md.",
    "not_applicable": na,
}
with open(os.path.join(HERE, "MANIFEST.json"), "w") as f:
    json.dump(manifest, f, indent=1)
print(f"{len(checks)} checks, {len(na)} not_applicable")
