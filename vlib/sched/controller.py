"""Cooperative schedule controller (DESIGN.md section 2.3).

Real ``threading.Thread`` objects execute the real code under test, but only the thread
that holds the *baton* runs; everybody else is parked on a private real lock.  The name
``threading`` inside the module under test is rebound (``Controller.bind``) to a shim whose
``Lock``/``RLock``/``Event`` are implemented on the controller:

* every shim ``acquire``/``release``/``wait``/``set`` is a *yield point*;
* optionally every *line* of the functions whose code objects were passed as
  ``trace_codes`` is a yield point too (``sys.settrace`` installed per controlled thread);
* at a yield point the next thread is ``runnable[schedule[i] % len(runnable)]`` (threads in
  creation order); a schedule integer is consumed only when there is a real choice
  (>= 2 runnable threads); when the list is exhausted the choice is round-robin, which
  makes the remainder of every run fair;
* a thread blocked on a shim lock/event is not runnable; "no runnable thread while some
  thread is unfinished" is reported as ``outcome == "deadlock"`` with the wait-for table;
* more than ``max_steps`` yield points is reported as ``outcome == "steps"``.

The execution is a function of (programs, schedule) only: no clock, no randomness, no
dependence on the OS scheduler (parked threads cannot run).  After ``run()`` returns, every
thread has been joined; parked threads of a deadlocked/aborted run are woken one at a time
with ``Abort`` (a BaseException) raised inside the shim call so that they unwind and exit.
The trace function is per thread and dies with it; ``bind`` restores the module attribute in
a ``finally``.

Timeouts passed to shim ``acquire``/``wait`` are ignored (treated as "wait forever"): the
code under test (dns.versioned, dns.resolver caches) never passes one, and a timed wait
would make the execution depend on the clock.
"""

import _thread
import contextlib
import sys
import threading as _real_threading


class Abort(BaseException):
    """Raised inside a parked thread to unwind it when a run is torn down."""


class ControllerError(Exception):
    """Misuse of the controller by harness code."""


_MAIN = "<uncontrolled>"  # owner marker for a shim lock taken outside the controller


class _T:
    __slots__ = (
        "idx", "name", "fn", "go", "waiting", "finished", "exc", "thread", "held",
        "dying", "state",
    )

    def __init__(self, idx, name, fn):
        self.idx = idx
        self.name = name
        self.fn = fn
        self.go = _thread.allocate_lock()
        self.go.acquire()
        self.waiting = None  # shim Lock or Event this thread is blocked on
        self.finished = False
        self.exc = None
        self.thread = None
        self.held = 0  # shim locks currently held
        self.dying = False
        self.state = {}  # free for the property module (phase tracking)


class Result:
    def __init__(self):
        self.outcome = None  # "done" | "deadlock" | "steps"
        self.waitfor = None  # deadlock/steps: {thread name: what it waits for}
        self.steps = 0
        self.switches = 0
        self.line_switches = {}  # co_name -> context switches taken at a line of it
        self.schedule_used = 0
        self.exceptions = []  # (thread idx, exception) escaped from thread programs


class ShimLock:
    """threading.Lock on the controller."""

    _reentrant = False

    def __init__(self, ctrl):
        self._c = ctrl
        self._owner = None  # _T, or _MAIN for uncontrolled use
        self._count = 0
        ctrl._nlocks += 1
        self.label = f"L{ctrl._nlocks - 1}"

    # a thread blocked on this lock can run again when ...
    def _ready(self, t):
        return self._owner is None

    def _take(self, who):
        self._owner = who
        self._count = 1

    def acquire(self, blocking=True, timeout=-1):
        c = self._c
        me = c._me()
        if me is None:
            if self._owner is None:
                self._take(_MAIN)
                return True
            if self._reentrant and self._owner is _MAIN:
                self._count += 1
                return True
            if not blocking:
                return False
            raise ControllerError(f"uncontrolled thread would block on {self.label}")
        if c._aborting:
            c._die(me)
            return True
        c._yield(me, "acq")
        if self._reentrant and self._owner is me:
            self._count += 1
            return True
        if self._owner is not None:
            if not blocking:
                c._emit("acq-fail", me, self)
                return False
            me.waiting = self
            c._emit("block", me, self)
            c._block(me)
            me.waiting = None
        self._take(me)
        me.held += 1
        c._emit("acq", me, self)
        return True

    def release(self):
        c = self._c
        me = c._me()
        if me is None:
            if self._owner is None:
                raise RuntimeError("release unlocked lock")
            self._count -= 1
            if self._count == 0:
                self._owner = None
            return
        if c._aborting:
            self._owner = None
            return
        if self._owner is None:
            raise RuntimeError("release unlocked lock")
        if self._reentrant and self._owner is not me:
            raise RuntimeError("cannot release un-acquired lock")
        self._count -= 1
        if self._count > 0:
            return
        if self._owner is not _MAIN:
            self._owner.held -= 1
        self._owner = None
        c._emit("rel", me, self)
        c._yield(me, "rel")

    def locked(self):
        return self._owner is not None

    def __enter__(self):
        self.acquire()
        return True

    def __exit__(self, *a):
        self.release()

    def __repr__(self):
        return f"<ShimLock {self.label}>"


class ShimRLock(ShimLock):
    _reentrant = True

    def _ready(self, t):
        return self._owner is None or self._owner is t


class ShimEvent:
    """threading.Event on the controller."""

    def __init__(self, ctrl):
        self._c = ctrl
        self._flag = False
        ctrl._nevents += 1
        self.label = f"E{ctrl._nevents - 1}"

    def _ready(self, t):
        return self._flag

    def is_set(self):
        return self._flag

    isSet = is_set

    def set(self):
        c = self._c
        self._flag = True
        me = c._me()
        if me is None:
            return
        if c._aborting:
            c._die(me)
            return
        c._emit("set", me, self)
        c._yield(me, "set")

    def clear(self):
        self._flag = False

    def wait(self, timeout=None):
        c = self._c
        me = c._me()
        if me is None:
            if self._flag:
                return True
            raise ControllerError(f"uncontrolled thread would block on {self.label}")
        if c._aborting:
            c._die(me)
            return True
        c._emit("ev-wait", me, self)
        c._yield(me, "wait")
        if not self._flag:
            me.waiting = self
            c._emit("block", me, self)
            c._block(me)
            me.waiting = None
        c._emit("ev-woke", me, self)
        return True

    def __repr__(self):
        return f"<ShimEvent {self.label}>"


class _ShimModule:
    """Stands in for the ``threading`` module inside the module under test."""

    def __init__(self, ctrl):
        self._ctrl = ctrl

    def Lock(self):
        return ShimLock(self._ctrl)

    def RLock(self):
        return ShimRLock(self._ctrl)

    def Event(self):
        return ShimEvent(self._ctrl)

    def __getattr__(self, name):
        return getattr(_real_threading, name)


class Controller:
    def __init__(self, schedule=(), trace_codes=(), max_steps=100000, observer=None):
        self.schedule = list(schedule)
        self._pos = 0
        self._codes = frozenset(trace_codes)
        self.max_steps = max_steps
        self.observer = observer  # observer(kind, thread_idx, obj) at every logged event
        self.shim = _ShimModule(self)
        self.log = []  # (kind, thread idx, label)
        self._threads = []
        self._by_ident = {}
        self._main_go = _thread.allocate_lock()
        self._main_go.acquire()
        self._aborting = False
        self._running = False
        self._last_idx = -1
        self._nlocks = 0
        self._nevents = 0
        self.result = Result()

    # ------------------------------------------------------------------ setup

    @contextlib.contextmanager
    def bind(self, *modules):
        """Rebind ``<module>.threading`` to the shim for the duration of the block."""
        saved = [(m, m.__dict__["threading"]) for m in modules]
        try:
            for m in modules:
                m.threading = self.shim
            yield self
        finally:
            for m, orig in saved:
                m.threading = orig

    def spawn(self, fn, name=None):
        """Register a thread program (started by run()).  Returns the thread index."""
        if self._running:
            raise ControllerError("spawn after run")
        t = _T(len(self._threads), name or f"T{len(self._threads)}", fn)
        self._threads.append(t)
        return t.idx

    def thread_state(self, idx=None):
        """Scratch dict of a controlled thread (current thread by default)."""
        if idx is None:
            me = self._me()
            if me is None:
                raise ControllerError("not a controlled thread")
            return me.state
        return self._threads[idx].state

    def current(self):
        me = self._me()
        return None if me is None else me.idx

    def held(self, idx):
        """Number of shim locks thread ``idx`` holds right now."""
        return self._threads[idx].held

    def note(self, kind, obj=None):
        """Append a harness event to the log (no yield point).  Returns its position."""
        me = self._me()
        self.log.append((kind, -1 if me is None else me.idx, obj))
        return len(self.log) - 1

    def pause(self):
        """An explicit yield point for harness code running in a controlled thread."""
        me = self._me()
        if me is not None and not self._aborting:
            self._yield(me, "pause")

    # ------------------------------------------------------------------ internals

    def _me(self):
        return self._by_ident.get(_thread.get_ident())

    def _emit(self, kind, me, obj):
        self.log.append((kind, me.idx, obj.label))
        if self.observer is not None:
            self.observer(kind, me.idx, obj)

    def _die(self, me):
        if not me.dying:
            me.dying = True
            raise Abort()

    def _runnable(self):
        out = []
        for t in self._threads:
            if t.finished:
                continue
            w = t.waiting
            if w is None or w._ready(t):
                out.append(t)
        return out

    def _pick(self):
        r = self._runnable()
        if not r:
            return None
        if len(r) == 1:
            nxt = r[0]
        elif self._pos < len(self.schedule):
            nxt = r[self.schedule[self._pos] % len(r)]
            self._pos += 1
        else:
            nxt = None
            for t in r:
                if t.idx > self._last_idx:
                    nxt = t
                    break
            if nxt is None:
                nxt = r[0]
        self._last_idx = nxt.idx
        return nxt

    def _stop(self, outcome):
        """Called by the thread holding the baton: hand control back to the main thread."""
        res = self.result
        if res.outcome is None:
            res.outcome = outcome
            if outcome != "done":
                res.waitfor = {
                    t.name: (None if t.waiting is None else t.waiting.label)
                    for t in self._threads
                    if not t.finished
                }
        self._main_go.release()

    def _park(self, me):
        me.go.acquire()
        if self._aborting:
            self._die(me)

    def _yield(self, me, kind, frame=None):
        """A yield point at which ``me`` stays runnable."""
        res = self.result
        res.steps += 1
        if res.steps > self.max_steps:
            self._stop("steps")
            self._park(me)
            return
        nxt = self._pick()
        if nxt is me:
            return
        res.switches += 1
        if frame is not None:
            nm = frame.f_code.co_name
            res.line_switches[nm] = res.line_switches.get(nm, 0) + 1
        nxt.go.release()
        self._park(me)

    def _block(self, me):
        """``me`` is not runnable (me.waiting is set): run somebody else until it is."""
        nxt = self._pick()
        if nxt is None:
            self._stop("deadlock")
            self._park(me)
            return
        if nxt is me:  # condition became true already (cannot happen, kept for safety)
            return
        self.result.switches += 1
        nxt.go.release()
        self._park(me)

    def _global_trace(self, frame, event, arg):
        if self._aborting:
            me = self._me()
            if me is not None:
                self._die(me)
            return None
        if frame.f_code in self._codes:
            return self._local_trace
        return None

    def _local_trace(self, frame, event, arg):
        if event == "line":
            me = self._me()
            if me is not None:
                if self._aborting:
                    self._die(me)
                else:
                    self._yield(me, "line", frame)
        return self._local_trace

    def _bootstrap(self, t):
        t.go.acquire()  # parked until first scheduled (or aborted)
        self._by_ident[_thread.get_ident()] = t
        try:
            if self._aborting:
                return
            try:
                if self._codes:
                    sys.settrace(self._global_trace)
                try:
                    t.fn()
                finally:
                    sys.settrace(None)
            except Abort:
                pass
            except BaseException as e:  # noqa: BLE001 - reported to the main thread
                if not self._aborting:
                    t.exc = e
        finally:
            t.finished = True
            t.waiting = None
            if not self._aborting:
                nxt = self._pick()
                if nxt is not None:
                    nxt.go.release()
                elif all(x.finished for x in self._threads):
                    self._stop("done")
                else:
                    self._stop("deadlock")

    def run(self):
        """Start the registered threads, run the schedule to the end, join everything."""
        if self._running:
            raise ControllerError("run() called twice")
        self._running = True
        res = self.result
        if not self._threads:
            res.outcome = "done"
            return res
        for t in self._threads:
            t.thread = _real_threading.Thread(
                target=self._bootstrap, args=(t,), name=f"sched-{t.name}", daemon=True
            )
        try:
            for t in self._threads:
                t.thread.start()
            first = self._pick()
            first.go.release()
            self._main_go.acquire()
        finally:
            # tear-down: anything not finished is woken (one at a time) with Abort
            self._aborting = True
            for t in self._threads:
                if t.thread.ident is None:
                    continue
                if not t.finished:
                    try:
                        t.go.release()
                    except RuntimeError:
                        pass  # it holds the baton (still running): the tracer kills it
                t.thread.join(10.0)
            leaked = [t.name for t in self._threads if t.thread.ident and t.thread.is_alive()]
            self._by_ident.clear()
            if leaked:
                raise ControllerError(f"threads survived the case: {leaked}")
        res.schedule_used = self._pos
        res.exceptions = [(t.idx, t.exc) for t in self._threads if t.exc is not None]
        return res
