"""C03  Messages survive render-then-parse unchanged; compression is sound."""

from hypothesis import strategies as st

from vlib.gen import messages as MG
from vlib.gen import names as G
from vlib.ref import wire as W
from vlib.runner import Part, Violation

ID = "C03"
LEVEL = "exploration"
TECHNIQUE = (
    "property-based testing: generated messages (all opcodes, UPDATE forms, EDNS, origin-relative) "
    "rendered by the library and checked by re-parsing, byte-exact re-rendering and an independent "
    "wire walker that validates header counts and every compression pointer"
)
LEVEL_TEXT = (
    "Render/parse round trip of generated messages preserves id, flags, opcode, rcode, EDNS state and "
    "every section as a multiset of (name, class, type, covers, deleting, ttl, rdata set); header "
    "counts equal what an independent walker finds; re-rendering is byte-exact; every pointer targets "
    "an earlier label start and the walker recovers the same names as an uncompressed rendering. "
    "Search, not proof."
)
RULE = (
    "cases: message descriptors from vlib/gen/messages.py (queries, responses, NOTIFY, other opcodes, "
    "UPDATE built through UpdateMessage add/delete/replace/present/absent in all forms, EDNS with "
    "extended rcode and all option kinds, optional origin with relative names, 5% 'big' messages "
    "whose offsets pass 0x3FFF). non-trivial = >=1 compression pointer and >=2 non-empty sections, or "
    "an UPDATE with a class ANY/NONE RR, or extended rcode >= 16, or size > 0x4000; distinct by SHA-1"
    " Also: names of exactly 255/254 octets once the origin is appended; UPDATE zones of class IN/CH/HS with the parsed record sets required to carry the zone's class."
)
RULE += (
    " Rounds 8-9 added: twin RRSIG/SIG RRsets at one owner covering different types; staircases of 11-24 owners (pointer chains of >= 11 hops)."
)
ASSUMPTIONS = [
    "TTLs are generated <= 2^31-1 (the reader maps larger values to 0 by design)",
    "compression is case-insensitive (RFC 4343 4.1): 'exactly that name suffix' is read as DNS name "
    "equality; names recovered by the walker are compared case-insensitively with the original and "
    "byte-exactly with the library's own decoding",
    "vlib/ref/wire.py is the trusted independent decoder",
]


def _fold(rdtype, wire, rdclass=1):
    """lower-case the embedded names of compressible/known layouts: a name rendered through a
    compression pointer comes back in the spelling of the earlier occurrence (RFC 4343 4.1)"""
    from vlib.ref import canon as C

    try:
        pos = C.name_positions(rdtype, wire, rdclass)
    except W.WireError:
        return wire
    b = bytearray(wire)
    for s, e in pos:
        b[s:e] = W.lower(bytes(b[s:e]))
    return bytes(b)


def _sec_multiset(m, sec, track_rel=True):
    out = []
    for rr in sec:
        # owners compared as absolute names: with an origin the parser hands back relative
        # names where the original may have used absolute spellings of the same name
        name = rr.name if rr.name.is_absolute() or m.origin is None else rr.name.derelativize(m.origin)
        out.append(
            (
                W.name_key(name.labels),
                # relativity as represented (the UPDATE zone section is built absolute by
                # UpdateMessage and parsed relative: not compared there)
                rr.name.is_absolute() if track_rel else None,
                # the class that goes on the wire: UPDATE RRsets built through
                # present()/absent()/delete() carry it in rdclass, parsed ones in deleting
                int(rr.deleting) if rr.deleting is not None else int(rr.rdclass),
                int(rr.rdtype),
                int(rr.covers),
                int(rr.ttl),
                frozenset(_fold(int(rr.rdtype), rd.to_wire(origin=m.origin), int(rd.rdclass)) for rd in rr),
            )
        )
    return sorted(out, key=repr)


def _uncompressed_rrs(m):
    """the library's own *uncompressed* rendering of every RR, in section order"""
    import io

    out = []
    for si in (1, 2, 3):
        for rr in m.sections[si]:
            f = io.BytesIO()
            n = rr.to_wire(f, None, m.origin, want_shuffle=False)
            out.append((si, f.getvalue(), n))
    return out


def run(case):
    import dns.exception
    import dns.flags
    import dns.message
    import dns.opcode
    import dns.rcode

    m = MG.build(case)
    classes = []
    try:
        w = m.to_wire(max_size=65535, want_shuffle=False)
    except dns.exception.TooBig:
        return {"nontrivial": False, "classes": ["toobig"]}
    origin = m.origin
    try:
        p = dns.message.from_wire(w, origin=origin, one_rr_per_rrset=False)
    except dns.exception.DNSException as e:
        raise Violation("roundtrip", f"library cannot parse its own rendering: {type(e).__name__}: {e}; wire {w.hex()[:200]}", "reject-own:" + type(e).__name__)
    # 1. header and EDNS state
    for what, a, b in (
        ("id", m.id, p.id), ("flags", int(m.flags), int(p.flags)), ("opcode", m.opcode(), p.opcode()),
        ("rcode", m.rcode(), p.rcode()), ("edns", m.edns, p.edns), ("ednsflags", m.ednsflags, p.ednsflags),
        ("payload", m.payload, p.payload),
    ):
        if a != b:
            raise Violation("roundtrip", f"{what} changed: {a!r} -> {b!r}", "header:" + what)
    exp = MG.expected_header(case)
    for who, msg in (("built", m), ("parsed", p)):
        got = {"id": msg.id, "flags": int(msg.flags), "opcode": int(msg.opcode()), "rcode": int(msg.rcode()),
               "edns": msg.edns, "payload": msg.payload, "ednsflags": msg.ednsflags}
        for k in exp:
            if got[k] != exp[k]:
                raise Violation("header", f"{who} message has {k}={got[k]!r}, the generated value was {exp[k]!r}", f"desc:{k}")
    hdr = W.walk_message(w, parse_rdata=False)
    if hdr.id != exp["id"] or hdr.flags != exp["flags"]:
        raise Violation("header", f"wire header id/flags {hdr.id}/{hdr.flags:#x}, generated {exp['id']}/{exp['flags']:#x}", "wire-header")
    for (info, t, c), (nm, et, ec) in zip(hdr.questions, case["question"]):
        if (t, c) != (et, ec):
            raise Violation("header", f"question type/class on the wire {t}/{c}, generated {et}/{ec}", "wire-question")
    padded = bool((case.get("edns") or {}).get("pad"))
    p_opts = list(p.options)
    if padded:
        # the renderer appends exactly one PADDING option (RFC 7830) as the last one
        if not p_opts or int(p_opts[-1].otype) != 12:
            raise Violation("roundtrip", "padding was requested but the last option of the parsed message is not PADDING", "pad-missing")
        if len(w) % case["edns"]["pad"] != 0:
            raise Violation("roundtrip", f"padding to {case['edns']['pad']} requested, rendered length {len(w)}", "pad-length")
        p_opts = p_opts[:-1]
        classes.append("padded")
    mo = [o.to_wire() for o in m.options]
    po = [o.to_wire() for o in p_opts]
    if [int(o.otype) for o in m.options] != [int(o.otype) for o in p_opts] or (mo != po and not (case.get("edns") or {}).get("normalizing")):
        raise Violation("roundtrip", f"EDNS options changed: {mo!r} -> {po!r}", "options")
    if type(p) is not type(m):
        raise Violation("roundtrip", f"parsed message class {type(p).__name__} != {type(m).__name__}", "class")
    for si in range(4):
        tr = not (case.get("update") is not None and si == 0)
        a, b = _sec_multiset(m, m.sections[si], tr), _sec_multiset(p, p.sections[si], tr)
        if a != b:
            raise Violation("roundtrip", f"section {si} differs after render+parse:\n {a!r}\n {b!r}", f"section{si}")
    if case.get("update") is not None:
        # RFC 2136: the class field of a delete/prerequisite form is ANY/NONE (kept in `deleting`); the
        # record set itself belongs to the zone's class, also after parsing
        zc = case["update"]["zone_class"]
        if [int(z.rdclass) for z in p.sections[0]] != [zc]:
            raise Violation("roundtrip", f"parsed zone section class {[int(z.rdclass) for z in p.sections[0]]} != {zc}", "update-zone-class")
        for si in (1, 2):
            for rr in p.sections[si]:
                if int(rr.rdclass) != zc:
                    raise Violation("roundtrip", f"UPDATE section {si}: parsed record set {rr.name} type {int(rr.rdtype)} deleting={rr.deleting} has class {int(rr.rdclass)}, the zone's class is {zc}", "update-class")
        if zc != 1:
            classes.append("update-class-not-IN")
    if origin is None and case.get("update") is None and not (p == m and m == p):
        raise Violation("roundtrip", "parsed message != original (Message.__eq__)", "eq")
    # 2. header counts vs independent walker
    try:
        wm = W.walk_message(w)
    except W.WireError as e:
        raise Violation("walker", f"independent walker cannot decode the rendering: {e}; wire {w.hex()[:300]}", "walker-reject")
    if wm.end != len(w):
        raise Violation("walker", f"{len(w) - wm.end} octets after the last record", "trailing")
    counts = [len(wm.questions)] + [len([r for r in wm.rrs if r.section == s]) for s in (1, 2, 3)]
    if list(wm.counts) != counts:
        raise Violation("counts", f"header counts {wm.counts} but records present {counts}", "counts")
    for si in range(4):
        if m.section_count(si) != counts[si]:
            raise Violation("counts", f"section_count({si}) = {m.section_count(si)} but {counts[si]} records rendered", "section_count")
    # 3. byte-exact re-rendering
    w2 = p.to_wire(max_size=65535, want_shuffle=False)
    if w2 != w:
        raise Violation("rerender", f"re-rendering the parsed message is not byte-identical (first difference at {next((i for i, (x, y) in enumerate(zip(w, w2)) if x != y), min(len(w), len(w2)))})", "rerender")
    # 4. compression soundness
    try:
        npointers = W.check_pointers(w, wm)
    except W.WireError as e:
        raise Violation("compression", f"{e}", "pointer")
    unc = _uncompressed_rrs(m)
    # flatten the library's uncompressed rendering into individual RRs and compare with the
    # walker's decompressed view of the compressed message
    idx = 0
    for si, blob, n in unc:
        pos = 0
        for _ in range(n):
            info = W.read_name(blob, pos)
            if info.pointers:
                raise Violation("compression", "pointer in an uncompressed rendering", "uncompressed-pointer")
            hdr_end = info.end + 10
            rdlen = int.from_bytes(blob[info.end + 8 : hdr_end], "big")
            rtype = int.from_bytes(blob[info.end : info.end + 2], "big")
            rdata = blob[hdr_end : hdr_end + rdlen]
            if idx >= len(wm.rrs):
                raise Violation("compression", "fewer RRs in the message than in its parts", "rr-count")
            rr = wm.rrs[idx]
            if rr.rdtype == W.OPT or rr.section != si:
                raise Violation("compression", f"RR #{idx} out of place (section {rr.section}, expected {si})", "rr-order")
            if W.name_key(rr.owner.labels) != W.name_key(info.labels):
                raise Violation("compression", f"RR #{idx} owner decompresses to {rr.owner.labels!r}, rendered uncompressed as {info.labels!r}", "owner")
            got = W.uncompressed_rdata(rr.pieces) if rr.pieces is not None else b""
            if got.lower() != rdata.lower() or len(got) != len(rdata):
                raise Violation("compression", f"RR #{idx} type {rtype}: RDATA decompresses to {got.hex()}, uncompressed rendering is {rdata.hex()}", f"rdata:{rtype}")
            if rr.pieces is not None and len(rr.pieces) == 1 and rr.pieces[0][0] == "raw" and got != rdata:
                raise Violation("compression", f"RR #{idx} type {rtype}: RDATA differs", f"rdata-opaque:{rtype}")
            pos = hdr_end + rdlen
            idx += 1
    # the library's own decoder and the walker agree byte for byte on every owner
    flat = [rr for si in (1, 2, 3) for rr in p.sections[si] for _ in range(max(1, len(rr)))]
    for rr, wr in zip(flat, [r for r in wm.rrs if r.rdtype != W.OPT]):
        # a relativized owner keeps its own spelling only for the part in front of the origin
        own = len(rr.name.labels) if rr.name.is_absolute() else len(rr.name.labels)
        lab = rr.name.labels if rr.name.is_absolute() else rr.name.labels + origin.labels
        if tuple(wr.owner.labels[:own]) != tuple(lab[:own]) or W.name_key(wr.owner.labels) != W.name_key(lab):
            raise Violation("compression", f"walker owner {wr.owner.labels!r} != library owner {lab!r}", "owner-differential")
    nonempty = sum(1 for c in counts if c)
    ext = int(m.rcode()) >= 16
    upd = case.get("update") is not None and any(rr.deleting is not None for rr in m.sections[2] + m.sections[1])
    if npointers:
        classes.append("pointer")
        hops = max(len(info.pointers) for info in wm.names)
        if hops >= 11:
            classes.append("pointer-hops>=11")
        elif hops >= 4:
            classes.append("pointer-hops>=4")
    if ext:
        classes.append("extended-rcode")
    if upd:
        classes.append("update-any-none")
    if len(w) > 0x4000:
        classes.append("size>0x4000")
    if origin is not None:
        classes.append("origin")
        names = [q[0] for q in case["question"]] + [rs["name"] for sec in case["sections"] for rs in sec]
        if any(sum(len(l) // 2 + 1 for l in nm) == 255 for nm in names):
            classes.append("relative-255")
    if m.edns >= 0:
        classes.append("edns")
    for sec in case["sections"]:
        cov = {}
        for rs in sec:
            if rs["type"] in ("RRSIG", "SIG") and rs["rdatas"]:
                cov.setdefault((tuple(l.lower() for l in G.unhexl(rs["name"])), rs["type"]), set()).add(rs["rdatas"][0][:4])
        for (_, t), c in cov.items():
            if len(c) >= 2:
                classes.append("same-owner-two-covers:" + t)
    classes.append("opcode:%d" % int(m.opcode()))
    nontrivial = (npointers > 0 and nonempty >= 2) or upd or ext or len(w) > 0x4000
    return {"nontrivial": nontrivial, "classes": classes}


def parts(tier):
    return [
        Part("messages", run, strategy=MG.message(), n={"quick": 5000, "thorough": 300000},
             require={"pointer": 1000, "extended-rcode": 100, "update-any-none": 100, "size>0x4000": 20,
                      "origin": 300, "relative-255": 10, "update-class-not-IN": 50, "padded": 300, "edns": 1000, "opcode:5": 200, "opcode:4": 100,
                      "same-owner-two-covers:RRSIG": 40, "same-owner-two-covers:SIG": 40, "pointer-hops>=11": 80},
             shards={"quick": 16, "thorough": 16}),
    ]
