"""C01  Name text and wire codecs are exact inverses within DNS length limits."""

import io

from hypothesis import strategies as st

from vlib.gen import names as G
from vlib.ref import wire as W
from vlib.runner import Part, Violation, exc_key

ID = "C01"
LEVEL = "exploration"
TECHNIQUE = (
    "property-based testing: Hypothesis-generated names/contexts/byte strings; round-trip "
    "oracles, differential against an independent wire walker, exhaustive single-octet "
    "escape table"
)
LEVEL_TEXT = (
    "Generated-input search over names (all 256 octets, boundary lengths), rendering contexts "
    "with shared compression tables and offsets straddling 0x3FFF, name-producing operations, "
    "and arbitrary/pointer-graph byte strings; plus the complete single-octet escape table. "
    "No violation in any explored case; not a proof."
)
RULE = (
    "cases: (text) a name + origin; (ctx) 1-6 names rendered one after another with a shared "
    "compression table after 0-20000 filler octets; (ops) two names + origin fed to every "
    "name-producing operation, plus deliberately invalid shapes; (decode) arbitrary octets and "
    "assembled pointer graphs at an offset; (octets) every octet value in 6 label positions. "
    "non-trivial = text form contains a backslash escape, or >=1 compression pointer was "
    "emitted/followed, or a length limit is within 2 of its bound; distinct by SHA-1 of the case"
)
RULE += (
    " Rounds 8-10 added: names whose label tail spells the origin's wire form (pseudo-suffix), boundary twins (ab.c / a.bc) in one compression table, relativize/choose_relativity values against a label-list reference."
)
ASSUMPTIONS = [
    "compression is case-insensitive by design (RFC 4343 4.1): a name decoded through a "
    "pointer is required to equal the original as a DNS name and to be byte-identical to the "
    "pointer target's spelling; byte-identity to the original is required whenever the table "
    "held no case-variant of the suffix",
    "vlib/ref/wire.py (independent walker) is the trusted decoder",
]


def _mk(labels):
    import dns.name

    return dns.name.Name(labels)


def _nm(hl):
    return _mk(G.unhexl(hl))


# ---------------------------------------------------------------------------
# text round-trip


def _lower(b):
    return bytes(c + 32 if 65 <= c <= 90 else c for c in b)


def _ref_subdomain(labels, origin_labels):
    """label-aligned, ASCII-case-insensitive 'at or below' (RFC 1034 3.1), from the label lists"""
    k = len(origin_labels)
    return len(labels) >= k and [_lower(l) for l in labels[len(labels) - k:]] == [_lower(l) for l in origin_labels]


def _pseudo_suffix(labels, origin_labels):
    """the name's octets end with the origin's octets although it is not at or below the origin"""
    enc = lambda ls: b"".join(bytes([len(l)]) + _lower(l) for l in ls)
    return bool(origin_labels) and not _ref_subdomain(labels, origin_labels) and enc(labels).endswith(enc(origin_labels))


def _check_text(labels, origin_labels, clause="text"):
    import dns.exception
    import dns.name
    import dns.tokenizer

    n = _mk(labels)
    t = n.to_text()
    res = {"nontrivial": "\\" in t, "classes": []}
    if "\\" in t:
        res["classes"].append("escape")
    back = dns.name.from_text(t, origin=None)
    if back.labels != n.labels:
        raise Violation(clause, f"from_text(to_text()) changed labels: {n.labels!r} -> {t!r} -> {back.labels!r}", "from_text")
    # the zone-file path: tokenizer -> as_name
    tok = dns.tokenizer.Tokenizer(t)
    back = tok.get_name(origin=None)
    if back.labels != n.labels:
        raise Violation(clause, f"Tokenizer.get_name changed labels: {n.labels!r} -> {t!r} -> {back.labels!r}", "tokenizer")
    tok.get_eol()
    # bytes input
    back = dns.name.from_text(t.encode("ascii"), origin=None)
    if back.labels != n.labels:
        raise Violation(clause, "from_text(bytes) changed labels", "from_text-bytes")
    if n.is_absolute():
        t2 = n.to_text(omit_final_dot=True)
        back = dns.name.from_text(t2, origin=dns.name.root)
        if back.labels != n.labels:
            raise Violation(clause, f"omit_final_dot form {t2!r} re-parsed under root gives {back.labels!r}", "omit-final-dot")
    if origin_labels is not None:
        o = _mk(origin_labels)
        if not n.is_absolute():
            if W.wire_len(n.labels) + W.wire_len(o.labels) <= 255:
                back = dns.name.from_text(t, origin=o)
                if back.labels != n.labels + o.labels:
                    raise Violation(clause, f"relative text {t!r} under origin gives {back.labels!r}", "origin-append")
                back2 = dns.tokenizer.Tokenizer(t).get_name(origin=o, relativize=True)
                if back2.labels != n.labels and not (len(n.labels) == 0 and back2.labels == ()):
                    raise Violation(clause, f"tokenizer relativize gives {back2.labels!r} for {n.labels!r}", "tok-relativize")
                res["classes"].append("relative-under-origin")
            else:
                try:
                    dns.name.from_text(t, origin=o)
                except dns.name.NameTooLong:
                    res["classes"].append("too-long-raises")
                else:
                    raise Violation("limits", "from_text produced a name over 255 octets", "from_text-too-long")
        else:
            st_rel = dns.name.NameStyle(origin=o, relativize=True)
            tr = n.to_styled_text(st_rel)
            back = dns.name.from_text(tr, origin=o)
            # relativizing drops the origin part, so its spelling comes back as the
            # origin's (names are case-insensitive); the relative part is byte-exact
            want = n.labels
            sub = _ref_subdomain(list(n.labels), list(o.labels))
            if sub:
                want = n.labels[: len(n.labels) - len(o.labels)] + o.labels
            if back.labels != want:
                raise Violation(clause, f"styled relative text {tr!r} under origin gives {back.labels!r} for {n.labels!r}", "styled-relativize")
            back2 = dns.tokenizer.Tokenizer(t).get_name(origin=o, relativize=True)
            want2 = n.labels[: len(n.labels) - len(o.labels)] if sub else n.labels
            if back2.labels != want2:
                raise Violation(clause, f"tokenizer relativize of {t!r} under {o.labels!r} gives {back2.labels!r}", "tok-relativize-abs")
            if _pseudo_suffix(list(n.labels), list(o.labels)):
                res["classes"].append("pseudo-suffix")
            if sub:
                res["classes"].append("relativized-text")
                if tr == "@":
                    res["classes"].append("at-sign")
    total = W.wire_len(n.labels)
    if total >= 253 or any(len(l) >= 62 for l in n.labels):
        res["nontrivial"] = True
        res["classes"].append("near-limit")
    return res


def run_text(case):
    return _check_text(G.unhexl(case["labels"]), None if case["origin"] is None else G.unhexl(case["origin"]))


def _fold_origin(draw, origin):
    """an absolute name that is NOT at or below *origin* but whose octets end with the origin's:
    the first 1..n origin labels, with their length octets, are folded into the tail of one label"""
    real = [l for l in origin if l != b""]
    if not real:
        return [b"x", b""]
    j = draw(st.integers(1, len(real)))
    flip = lambda l: bytes(c ^ 0x20 if (65 <= c <= 90 or 97 <= c <= 122) and draw(st.booleans()) else c for c in l)
    tail = b"".join(bytes([len(l)]) + flip(l) for l in real[:j])
    head = draw(st.binary(min_size=1, max_size=3))
    lab = (head + tail)[-63:]
    if len(lab) < len(head + tail):
        # does not fit one label: fall back to folding the first label only when that fits
        tail = bytes([len(real[0])]) + real[0]
        j = 1
        lab = (head + tail)[-63:]
    pre = [b"www"] if draw(st.booleans()) else []
    labels = pre + [lab] + [flip(l) for l in real[j:]] + [b""]
    if W.wire_len(labels) > 255:
        labels = labels[len(pre):]
    if W.wire_len(labels) > 255:
        return [b"x", b""]
    return labels


@st.composite
def text_cases(draw):
    labels = draw(G.any_name())
    origin = None
    if draw(st.booleans()):
        origin = draw(G.abs_name(max_wire=draw(st.sampled_from([255, 60, 20]))))
        if draw(st.booleans()) and labels and labels[-1] == b"":
            # make the name a subdomain of the origin
            pre = labels[:-1]
            while W.wire_len(pre) + W.wire_len(origin) > 255 and pre:
                pre = pre[1:]
            labels = pre + origin
        elif draw(st.integers(0, 3)) == 0:
            labels = _fold_origin(draw, origin)
    return {"labels": G.hexl(labels), "origin": None if origin is None else G.hexl(origin)}


def octet_cases():
    out = []
    for c in range(256):
        b = bytes([c])
        for pos, labs in enumerate(
            [
                [b],
                [b + b"xy"],
                [b"xy" + b],
                [b"A" + b + b"7"],  # followed by a digit: \DDD must not swallow it
                [b"\x07" + b],  # preceded by a \DDD escape
                [b"@" + b, b"." + b],
            ]
        ):
            out.append({"labels": G.hexl(labs + [b""]), "origin": None})
            out.append({"labels": G.hexl(labs), "origin": G.hexl([b"ex", b""])})
    return out


# ---------------------------------------------------------------------------
# rendering contexts


def run_ctx(case):
    import dns.name

    names = [G.unhexl(h) for h in case["names"]]
    origin = None if case["origin"] is None else _mk(G.unhexl(case["origin"]))
    filler = case["filler"]
    f = io.BytesIO()
    f.write(b"\xaa" * filler)
    compress = {} if case["compress"] else None
    spans = []
    expected = []
    for labs in names:
        n = _mk(labs)
        start = f.tell()
        if not n.is_absolute():
            if origin is None or W.wire_len(n.labels) + W.wire_len(origin.labels) > 255:
                continue
            exp = n.labels + origin.labels
        else:
            exp = n.labels
        n.to_wire(f, compress, origin)
        spans.append((start, f.tell()))
        expected.append(exp)
    buf = f.getvalue()
    npointers = 0
    seen_suffix_spellings = {}
    starts = set()
    for (start, end), exp in zip(spans, expected):
        try:
            info = W.read_name(buf, start)
        except W.WireError as e:
            raise Violation("wire", f"independent walker cannot decode rendered name at {start}: {e}", "walker-reject")
        if info.end != end:
            raise Violation("wire", f"name at {start} occupies {end-start} octets but decodes as {info.end-start}", "length")
        try:
            ln, used = dns.name.from_wire(buf, start)
        except Exception as e:
            raise Violation("wire", f"dns.name.from_wire rejects its own rendering: {e!r}", "self-reject")
        if used != end - start:
            raise Violation("wire", f"from_wire consumed {used}, rendered {end-start}", "consumed")
        if tuple(info.labels) != ln.labels:
            raise Violation("wire", f"walker {info.labels!r} and from_wire {ln.labels!r} disagree", "differential")
        if W.name_key(info.labels) != W.name_key(exp):
            raise Violation("wire", f"decoded name {info.labels!r} is not the rendered name {exp!r}", "wrong-name")
        # byte identity: literal labels must be identical; labels reached through a pointer
        # must be identical to what is stored at the target, which must be an earlier
        # occurrence of (case-insensitively) that suffix
        nlit = len([1 for off, idx in info.label_starts if off >= start and off < end])
        if tuple(info.labels[:nlit]) != tuple(exp[:nlit]):
            raise Violation("wire", f"literally written labels changed: {exp[:nlit]!r} -> {info.labels[:nlit]!r}", "literal")
        for poff, target in info.pointers:
            npointers += 1
            if target > 0x3FFF:
                raise Violation("wire", f"pointer target {target} > 0x3FFF", "ptr-range")
            if target >= poff or target >= start:
                raise Violation("wire", "pointer not strictly backwards", "ptr-forward")
            if target not in starts:
                raise Violation("wire", f"pointer targets {target}, which is not the start of a label of an earlier name", "ptr-target")
        if compress is None and info.pointers:
            raise Violation("wire", "pointer emitted without a compression table", "ptr-uncompressed")
        k = W.name_key(exp)
        if tuple(info.labels) != tuple(exp):
            # allowed only if an earlier name contributed a case-variant suffix
            ok = any(
                W.name_key(exp[i:]) in seen_suffix_spellings
                and tuple(exp[i:]) not in seen_suffix_spellings[W.name_key(exp[i:])]
                for i in range(len(exp))
            )
            if not ok:
                raise Violation("wire", f"labels not byte-identical after round trip: {exp!r} -> {info.labels!r}", "case-changed")
        for off, idx in info.label_starts:
            if start <= off < end:
                starts.add(off)
        for i in range(len(exp)):
            seen_suffix_spellings.setdefault(W.name_key(exp[i:]), set()).add(tuple(info.labels[i:]))
        del k
    classes = []
    if npointers:
        classes.append("pointer")
    if filler + 0 > 0x3F00:
        classes.append("near-0x3fff")
    if compress is not None:
        # entries recorded in the table must be <= 0x3FFF and point at that suffix
        for nm, pos in compress.items():
            if pos > 0x3FFF:
                raise Violation("wire", f"compression table holds offset {pos} > 0x3FFF", "table-range")
            try:
                info = W.read_name(buf, pos)
            except W.WireError as e:
                raise Violation("wire", f"compression table entry {pos} undecodable: {e}", "table-entry")
            if W.name_key(info.labels) != W.name_key(nm.labels):
                raise Violation("wire", f"compression table maps {nm!r} to offset {pos} holding {info.labels!r}", "table-wrong")
    if case["compress"]:
        flat = {}
        for exp in expected:
            flat.setdefault((len(exp), _lower(b"".join(exp))), set()).add(tuple(_lower(l) for l in exp))
        if any(len(v) > 1 for v in flat.values()):
            classes.append("boundary-twins-in-one-table")
    return {"nontrivial": npointers > 0, "classes": classes}


@st.composite
def ctx_cases(draw):
    fam = draw(G.name_family(1, 6, absolute=True))
    names = []
    origin = None
    if draw(st.integers(0, 3)) == 0:
        origin = draw(G.abs_name(max_wire=40))
    for labs in fam:
        if origin is not None and draw(st.booleans()):
            labs = labs[:-1]  # relative: origin gets appended
            while W.wire_len(labs) + W.wire_len(origin) > 255:
                labs = labs[1:]
        names.append(labs)
    if draw(st.integers(0, 4)) == 0:
        names.append(draw(G.abs_name()))
    filler = draw(
        st.one_of(
            st.integers(0, 64),
            st.integers(0x3FFF - 300, 0x3FFF + 10),
            st.sampled_from([0x3FFE, 0x3FFF, 0x4000, 0x3FF0, 20000]),
        )
    )
    return {
        "names": [G.hexl(n) for n in names],
        "origin": None if origin is None else G.hexl(origin),
        "filler": filler,
        "compress": draw(st.integers(0, 5)) != 0,
    }


# ---------------------------------------------------------------------------
# limits on every name-producing operation


def _valid(labels):
    if any(len(l) > 63 for l in labels):
        return "label > 63"
    if W.wire_len(labels) > 255:
        return "wire length > 255"
    if any(l == b"" for l in labels[:-1]):
        return "empty label not last"
    return None


def run_ops(case):
    import dns.exception
    import dns.name

    a_l, b_l, o_l = (G.unhexl(case[k]) for k in ("a", "b", "o"))
    classes = set()
    near = [False]

    def build(labels):
        bad = _valid(labels)
        try:
            n = dns.name.Name(labels)
        except (dns.name.LabelTooLong, dns.name.NameTooLong, dns.name.EmptyLabel):
            if bad is None:
                raise Violation("limits", f"Name({labels!r}) refused a legal name", "ctor-refuse")
            classes.add("invalid-raises")
            return None
        if bad is not None:
            raise Violation("limits", f"Name() accepted {bad}: {labels!r}", "ctor-accept")
        return n

    a, b, o = build(a_l), build(b_l), build(o_l)
    # labels may also be given as str; the limits are about octets (UTF-8 for str labels)
    for mult, ch in ((1, "a"), (2, "\u00e9"), (3, "\u20ac"), (4, "\U0001F600")) if case["depth"] % 4 == 0 else ():
        for n in sorted({case["depth"] % 70 + 1, 63 // mult, 63 // mult + 1, 64}):
            sl = [ch * n, "x", ""]
            bad = _valid([x.encode() for x in sl])
            try:
                nm = dns.name.Name(sl)
            except (dns.name.LabelTooLong, dns.name.NameTooLong, dns.name.EmptyLabel):
                if bad is None:
                    raise Violation("limits", f"Name({sl!r}) refused a legal name", "ctor-str-refuse")
                classes.add("str-label-invalid-raises")
                continue
            if bad is not None:
                raise Violation("limits", f"Name() accepted str labels giving {bad}: {sl!r}", "ctor-str-accept")
            if nm.labels != tuple(x.encode() for x in sl):
                raise Violation("limits", f"Name({sl!r}) holds {nm.labels!r}", "ctor-str-labels")
        wide = [(ch * (63 // mult)) for _ in range(4)] + [""]
        if _valid([x.encode() for x in wide]) is not None:
            try:
                dns.name.Name(wide)
            except dns.name.NameTooLong:
                classes.add("str-name-too-long-raises")
            else:
                raise Violation("limits", f"Name() accepted str labels totalling more than 255 octets", "ctor-str-accept-long")
    if a is None or b is None or o is None:
        return {"nontrivial": True, "classes": sorted(classes)}

    def out(what, fn):
        try:
            r = fn()
        except dns.exception.DNSException:
            classes.add("raised:" + what)
            return None
        except ValueError:
            if what == "split":
                return None
            raise
        for n in r if isinstance(r, tuple) else (r,):
            bad = _valid(n.labels)
            if bad is not None:
                raise Violation("limits", f"{what} produced {bad}: {n.labels!r}", what)
            wl = W.wire_len(n.labels)
            if wl >= 253 or any(len(l) >= 62 for l in n.labels):
                near[0] = True
        return r

    out("concatenate", lambda: a.concatenate(b))
    out("add", lambda: a + b)
    out("concatenate-o", lambda: a.concatenate(o))
    rel = out("relativize", lambda: a.relativize(o))
    sub = out("sub", lambda: a - o)
    al, ol = list(a.labels), list(o.labels)
    # at or below needs equal relativity; origins here are absolute
    is_sub = a.is_absolute() and _ref_subdomain(al, ol)
    want_rel = tuple(al[: len(al) - len(ol)]) if is_sub else a.labels
    for what, r in (("relativize", rel), ("sub", sub)):
        if r is not None and r.labels != want_rel:
            raise Violation("text", f"{what}: {a.labels!r} against {o.labels!r} gives {r.labels!r}, labels say {want_rel!r}", "relativize-value")
    if _pseudo_suffix(al, ol):
        classes.add("pseudo-suffix")
    for flag in (True, False):
        r = out("choose_relativity", lambda: a.choose_relativity(o, flag))
        if r is not None:
            if flag:
                want = want_rel
            else:
                want = a.labels if a.is_absolute() else None
            if want is not None and r.labels != want:
                raise Violation("text", f"choose_relativity({flag}): {a.labels!r} against {o.labels!r} gives {r.labels!r}", "choose_relativity-value")
    out("derelativize", lambda: a.derelativize(o))
    out("choose_relativity-T", lambda: a.choose_relativity(o, True))
    out("choose_relativity-F", lambda: a.choose_relativity(o, False))
    out("canonicalize", lambda: a.canonicalize())
    out("parent", lambda: a.parent())
    out("split", lambda: a.split(case["depth"]))
    for pk in (True, False):
        out("successor", lambda: a.successor(o, pk))
        out("predecessor", lambda: a.predecessor(o, pk))
        # chains: repeated application must stay legal
        def chain(fn):
            n = a
            for _ in range(4):
                n = fn(n)
                if _valid(n.labels) is not None:
                    raise Violation("limits", f"successor/predecessor chain produced {_valid(n.labels)}", "chain")
            return n
        out("successor-chain", lambda: chain(lambda n: n.successor(o, pk)))
        out("predecessor-chain", lambda: chain(lambda n: n.predecessor(o, pk)))
    # text with an origin appended
    try:
        t = a.to_text()
        r = dns.name.from_text(t, origin=o if o.is_absolute() else None)
        bad = _valid(r.labels)
        if bad is not None:
            raise Violation("limits", f"from_text produced {bad}", "from_text")
    except dns.exception.DNSException:
        classes.add("raised:from_text")
    # uncompressed wire with origin appended
    try:
        w = a.to_wire(origin=o)
    except dns.exception.DNSException:
        classes.add("raised:to_wire")
    else:
        if len(w) > 255:
            # a relative name only reaches its full length when the origin is appended: the bytes
            # path must refuse it like the file path does (D55), never hand out an undecodable name
            raise Violation("limits", f"to_wire(origin=) returned a name of {len(w)} octets", "to_wire-long")
        back, used = dns.name.from_wire(w, 0)
        full = a.labels if a.is_absolute() else a.labels + o.labels
        if back.labels != full or used != len(w):
            raise Violation("wire", f"to_wire(origin=) does not decode to the derelativized name: {back.labels!r} vs {full!r}", "to_wire-origin")
    for label, fn in (("to_digestable", lambda: a.to_digestable(o)),
                      ("to_wire-file", lambda: (lambda f: (a.to_wire(f, None, o), f.getvalue())[1])(__import__("io").BytesIO()))):
        try:
            w2 = fn()
        except dns.exception.DNSException:
            classes.add("raised:" + label)
        else:
            if len(w2) > 255:
                raise Violation("limits", f"{label} with an origin produced a name of {len(w2)} octets", label + "-long")
    if near[0]:
        classes.add("near-limit")
    return {"nontrivial": near[0] or any(c.startswith("raised") for c in classes), "classes": sorted(classes)}


@st.composite
def ops_cases(draw):
    def nm():
        k = draw(st.integers(0, 9))
        if k == 0:
            return draw(G.long_rel_labels()) + ([b""] if draw(st.booleans()) else [])
        if k == 1:
            # deliberately invalid shapes
            bad = draw(st.integers(0, 2))
            if bad == 0:
                return [b"x" * draw(st.sampled_from([64, 65, 100]))] + [b""]
            if bad == 1:
                return draw(G.long_rel_labels(target=254)) + [b"ab", b""]
            return [b"a", b"", b"b", b""]
        return draw(G.any_name())

    o = draw(G.abs_name(max_wire=draw(st.sampled_from([255, 30, 8, 1]))))
    a = nm()
    if draw(st.booleans()) and a and a[-1] == b"":
        pre = a[:-1]
        a = pre + o  # make a a subdomain of o (may be over-long on purpose)
        if draw(st.integers(0, 3)) != 0:
            while W.wire_len(a) > 255 and len(a) > len(o):
                a = a[1:]
    elif draw(st.integers(0, 4)) == 0:
        a = _fold_origin(draw, o)
    # boundary final labels for successor/predecessor
    if draw(st.integers(0, 3)) == 0 and a and a[0] != b"":
        c = draw(st.sampled_from(list(b"@AZ[`az{\x00\xff")))
        ln = draw(st.sampled_from([1, 62, 63]))
        body = bytes([draw(st.sampled_from(list(b"m\xff\x00Z")))]) * (ln - 1) + bytes([c])
        a = [body] + a[1:]
    return {"a": G.hexl(a), "b": G.hexl(nm()), "o": G.hexl(o), "depth": draw(st.integers(-1, 6))}


# ---------------------------------------------------------------------------
# decoding arbitrary octets / pointer graphs

_seeks = []
_seek_wrapped = False


def _install_seek_recorder():
    global _seek_wrapped
    if _seek_wrapped:
        return
    import dns.wirebase

    orig = dns.wirebase.Parser.seek

    def seek(self, where):
        _seeks.append(where)
        return orig(self, where)

    dns.wirebase.Parser.seek = seek
    _seek_wrapped = True


def run_decode(case):
    import dns.exception
    import dns.name

    _install_seek_recorder()
    buf = bytes.fromhex(case["buf"])
    off = case["off"]
    if off > len(buf):
        off = len(buf)
    try:
        info = W.read_name(buf, off)
        ref = ("ok", tuple(info.labels), info.end - off)
    except W.WireError as e:
        ref = ("reject", str(e))
    del _seeks[:]
    try:
        n, used = dns.name.from_wire(buf, off)
        got = ("ok", n.labels, used)
    except dns.exception.FormError:
        got = ("reject",)
    except dns.exception.DNSException as e:
        raise Violation("decode", f"from_wire raised {type(e).__name__}, not a FormError", "exc-family:" + type(e).__name__)
    seeks = list(_seeks)
    # seeks[0] is the initial positioning when off != 0
    if off != 0:
        if not seeks or seeks[0] != off:
            raise Violation("decode", f"unexpected first seek {seeks[:1]} for offset {off}", "seek0")
        seeks = seeks[1:]
    if seeks and seeks[-1] == W.inplace_end(buf, off):
        # the final repositioning to the end of the name in place is not a pointer hop (it also
        # happens before an over-long name is refused)
        seeks = seeks[:-1]
    bound = off
    for s in seeks:
        if not s < bound:
            raise Violation("decode", f"decoder followed a pointer to {s}, not strictly before {bound}", "ptr-not-backwards")
        bound = s
    if len(seeks) > off:
        raise Violation("decode", "more pointer hops than octets before the name", "hops")
    if got[0] != ref[0]:
        raise Violation("decode", f"library {got!r} vs independent walker {ref!r}", "accept-differs")
    if got[0] == "ok":
        if got[1] != ref[1] or got[2] != ref[2]:
            raise Violation("decode", f"library {got!r} vs independent walker {ref!r}", "decode-differs")
        bad = _valid(got[1])
        if bad is not None:
            raise Violation("limits", f"from_wire produced {bad}", "from_wire")
    classes = ["accepted" if got[0] == "ok" else "rejected"]
    if seeks:
        classes.append("pointer-followed")
    if len(seeks) >= 2:
        classes.append("pointer-chain")
    if ref[0] == "ok" and any(buf[t] < 64 and t + 1 + buf[t] > po for po, t in info.pointers):
        # the label a pointer leads to contains the pointer's own octets (D50)
        classes.append("ptr-overlap")
    return {"nontrivial": bool(seeks) or (got[0] == "ok" and W.wire_len(got[1]) >= 253), "classes": classes}


@st.composite
def decode_cases(draw):
    mode = draw(st.integers(0, 3))
    if mode == 0:
        buf = draw(st.binary(min_size=0, max_size=80))
        return {"buf": buf.hex(), "off": draw(st.integers(0, max(0, len(buf))))}
    # assembler: a sequence of items; names start at recorded offsets
    out = bytearray()
    starts = []
    nitems = draw(st.integers(1, 8))
    for _ in range(nitems):
        starts.append(len(out))
        nl = draw(st.integers(0, 4))
        for _ in range(nl):
            l = draw(G.label(1, draw(st.sampled_from([3, 8, 63]))))
            out.append(len(l))
            out += l
        term = draw(st.integers(0, 10))
        if term == 10:
            # a label that contains a pointer back to the label's own length octet: the name
            # that starts at the pointer reads octets beyond its in-place end
            s0 = len(out)
            k = draw(st.integers(0, 3))
            after = draw(st.integers(0, 3))
            out.append(k + 2 + after)
            out += draw(st.binary(min_size=k, max_size=k))
            starts.append(len(out))
            out += bytes([0xC0 | ((s0 >> 8) & 0x3F), s0 & 0xFF])
            out += draw(st.binary(min_size=after, max_size=after))
            if draw(st.booleans()):
                out.append(0)
        elif term <= 3:
            out.append(0)
        elif term <= 7:
            # pointer: backward to a start / into the middle / self / forward
            kind = draw(st.integers(0, 5))
            here = len(out)
            if kind <= 2 and starts:
                tgt = draw(st.sampled_from(starts))
            elif kind == 3:
                tgt = here
            elif kind == 4:
                tgt = draw(st.integers(0, max(0, here)))
            else:
                tgt = here + draw(st.integers(1, 10))
            out += bytes([0xC0 | ((tgt >> 8) & 0x3F), tgt & 0xFF])
        elif term == 8:
            out.append(draw(st.sampled_from([0x40, 0x41, 0x80, 0xBF])))
        else:
            pass  # runs into the next item
    if mode == 3:
        # long names through pointers: > 255 octets total
        big = bytearray()
        pos0 = len(out)
        for i in range(5):
            big.append(63)
            big += b"x" * 63
        big.append(0)
        out += big
        starts.append(pos0)
        starts.append(len(out))
        out += bytes([3]) + b"abc" + bytes([0xC0 | (pos0 >> 8), pos0 & 0xFF])
    off = draw(st.one_of(st.sampled_from(starts), st.integers(0, len(out))))
    return {"buf": bytes(out).hex(), "off": off}


# ---------------------------------------------------------------------------


def parts(tier):
    return [
        Part("text", run_text, strategy=text_cases(), n={"quick": 16000, "thorough": 400000},
             require={"escape": 200, "relative-under-origin": 100, "relativized-text": 100, "near-limit": 50, "at-sign": 5, "pseudo-suffix": 300}),
        Part("octets", run_text, cases=octet_cases, shards={"quick": 4, "thorough": 4}),
        Part("ctx", run_ctx, strategy=ctx_cases(), n={"quick": 4000, "thorough": 120000},
             require={"pointer": 300, "near-0x3fff": 100, "boundary-twins-in-one-table": 100}),
        Part("ops", run_ops, strategy=ops_cases(), n={"quick": 8000, "thorough": 200000},
             require={"near-limit": 100, "invalid-raises": 50, "raised:successor": 1, "raised:to_wire": 100, "pseudo-suffix": 150}),
        Part("decode", run_decode, strategy=decode_cases(), n={"quick": 16000, "thorough": 400000}, case_timeout_s=3.0,
             require={"accepted": 500, "rejected": 500, "pointer-followed": 300, "pointer-chain": 30, "ptr-overlap": 20}),
    ]
