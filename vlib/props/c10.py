"""C10  Zone transactions match a reference model and are all-or-nothing.

A case is a history of write transactions.  The same history is run against six zones
(dns.zone.Zone, dns.versioned.Zone, dns.btreezone.Zone x relativize on/off) and against the
independent model of vlib/ref/zone_model.py.  For every transaction of n operations EVERY
k in [0, n] is executed as "exception raised inside the ``with`` block after operation k"
(fault enumeration) before the transaction is run with its own ending; in addition every
mutating operation k is vetoed once from inside by a registered check_put_rdataset /
check_delete_rdataset / check_delete_name hook.  See DESIGN.md C10.

SCOPING (decisions that keep the oracle sound on the unchanged tree)

* SOA stores (add/replace of an SOA, update_serial's *name*) use the effective-origin owner
  spelling (DESIGN section 4.5): ``Transaction._add`` compares the given name with the
  effective origin, so an absolute apex name in a relativized zone (and the relative empty
  name in a non-relativized zone, which includes ``update_serial()`` with its default *name*)
  is rejected with ValueError("non-origin SOA") by design.  The other spelling is generated
  at low frequency and the ValueError is then the expected outcome ("soa-other-spelling").
* changed() is documented as "the content was changed at some time"; the implementation
  answers "a store or an effective delete happened".  The oracle only requires
  model.content_changed => changed() => model.touched.
* "every public method of an ended transaction" = the documented data API (get, get_node,
  add, replace, delete, delete_exact, name_exists, update_serial, changed, commit, rollback,
  iterate_rdatasets, iterate_names, iter()).  The hook registrars check_put_rdataset /
  check_delete_rdataset / check_delete_name / add_unicode neither read nor write zone data
  and do not check the ended flag; they are not counted.
* the argument lists "name, rdataset..." / "name, ttl, rdata..." / "name, rdata..." of the
  docstrings are read as ONE rdataset / rdata (tests/test_transaction.py asserts TypeError for
  extra parameters); a second rdata is generated at low frequency with TypeError expected.
* outcome classes compared: ok / DeleteNotExact / KeyError / ValueError / TypeError /
  ReadOnly / AlreadyEnded.  An absolute serial above 2**32-1 is not generated (undocumented).

KNOWN DEFECT CLASSES, excluded by construction behind flags (each excluded case is counted in
the class histogram; flip the flag after /repo is fixed):

* EXCLUDE_D10: delete/delete_exact (type, rdataset, rdata or rrset form) that removes the LAST
  rdataset of a node raises KeyError in dns.zone.Zone / dns.versioned.Zone when the owner is
  spelled in the zone's non-native relativity: an ABSOLUTE name in a relativized zone, and
  equally a RELATIVE name in a non-relativized zone (WritableVersion.delete_rdataset does
  ``del self.nodes[name]`` with the unvalidated name; the emptied copy-on-write node also
  stays behind in the transaction).  Excluded = the owner of exactly such an operation is
  spelled natively for each zone (relative for relativize=True, absolute otherwise).
* EXCLUDE_D11: Transaction.get_node() lacks the ended check.  Excluded = get_node is left out
  of the ended-transaction method sweep.
* EXCLUDE_EMPTY_DELETE: delete(name, <empty rdataset>) / delete(<empty rrset>) deletes the
  WHOLE node (``if rdataset:`` is false for an empty set) although nothing was listed.
  Excluded = such an operation is skipped.
* EXCLUDE_EMPTY_ADD: add(name, <empty rdataset>) stores the empty rdataset: a node with no
  records exists afterwards (name_exists() is True, iterate_rdatasets yields an empty set).
  Excluded = such an operation is skipped.
* EXCLUDE_REPLACEMENT_NOOP: a writer(replacement=True) transaction without an effective
  write commits nothing, so the prior content is NOT replaced (documented: "the content of the
  transaction completely replaces any prior content").  Excluded = such a transaction is
  rolled back instead of committed.
"""

from hypothesis import strategies as st

from vlib import zoneutil as ZU
from vlib.gen import rdata as R
from vlib.ref import wire as W
from vlib.ref import zone_model as ZM
from vlib.runner import Part, Violation

ID = "C10"
LEVEL = "fault_enumeration"
TECHNIQUE = (
    "property-based testing with fault enumeration: Hypothesis-generated transaction histories "
    "run differentially against six zone flavours and an independent content/transaction model; "
    "every operation index of every transaction is enumerated as an exception-injection point"
)
LEVEL_TEXT = (
    "For every generated history: each operation's outcome class and every read inside the "
    "transaction equal the model on all six zones (3 implementations x relativize on/off, every "
    "owner spelling), committed content with TTLs equals the model, and for EVERY operation index "
    "k of every transaction an exception raised after operation k propagated unchanged and left "
    "content, node names and version ids exactly as before; ended and read-only transactions "
    "refused every data method.  Crash points are enumerated, histories are searched: not a proof."
)
RULE = (
    "case = 1-4 (thorough: 1-6) write transactions (writer() or writer(replacement=True), 0-12 operations out of "
    "add/replace/delete/delete_exact/update_serial/get/get_node/name_exists/iterate_names/"
    "iterate_rdatasets/changed in every documented argument form, owner spelled as relative or "
    "absolute Name or str, with case flips; ending commit/rollback/with-exit/exception; about half "
    "of the operations re-use the owner/type/records of an earlier one) over a pool of 6 owner "
    "names (+1 outside the zone) and CNAME, SOA + 3 further record types with 2-3 generated records "
    "each; all n+1 crash points of every transaction are run (exception after operation k), plus "
    "an exception raised inside every mutating operation k by a registered check_* hook.  "
    "non-trivial = (a node lost its last rdataset and was re-created later, or a CNAME/other-data "
    "replacement happened, or an abort followed >= 1 effective write) and some operation used an "
    "absolute owner in the relativized zones; distinct by SHA-1 of the case"
)
RULE += (
    " Round 10 added: get_node() read back after most writes (write-read-write-read on one name inside a transaction)."
)
ASSUMPTIONS = [
    "reference model vlib/ref/zone_model.py (documented rules only) and the canonical RDATA form "
    "of vlib/ref/canon.py via vlib/zoneutil.py are the trusted base",
    "SOA stores use the effective-origin owner spelling (DESIGN 4.5); the other spelling is "
    "expected to raise ValueError",
    "changed() is only required to lie between 'content differed' and 'a store/effective delete "
    "happened'",
    "known defect classes D10, D11, empty-rdataset delete/add and no-op replacement commit are "
    "excluded by construction behind module flags and counted (excluded:*)",
]

EXCLUDE_D10 = False
EXCLUDE_D11 = False
EXCLUDE_EMPTY_DELETE = False
EXCLUDE_EMPTY_ADD = False
EXCLUDE_REPLACEMENT_NOOP = False

ORIGIN_LABELS = (b"example", b"")
ORIGIN_KEY = W.name_key(ORIGIN_LABELS)

# owner pool: relative label tuples; index 6 lies outside the zone
NAMES = [(), (b"*",), (b"www",), (b"a", b"ent"), (b"ent",), (b"cn",)]
OUTSIDE = (b"www", b"other", b"")
N_OUT = 6

# pseudo types: name -> (grammar name, rdtype, covers)
TYPES = {
    "A": ("A", 1, 0), "TXT": ("TXT", 16, 0), "MX": ("MX", 15, 0), "NS": ("NS", 2, 0),
    "CNAME": ("CNAME", 5, 0), "DNAME": ("DNAME", 39, 0), "NSEC": ("NSEC", 47, 0),
    "KEY": ("KEY", 25, 0), "SOA": ("SOA", 6, 0),
    "RRSIG:A": ("RRSIG", 46, 1), "RRSIG:CNAME": ("RRSIG", 46, 5), "RRSIG:NSEC": ("RRSIG", 46, 47),
    # the obsolete SIG type shares the RRSIG class (it has a covered type too) but is ordinary data
    # for the CNAME rule
    "SIG:CNAME": ("SIG", 24, 5), "SIG:KEY": ("SIG", 24, 25),
}
OTHER_TYPES = ["A", "TXT", "MX", "NS", "DNAME", "NSEC", "KEY", "RRSIG:A", "RRSIG:CNAME", "RRSIG:NSEC", "A", "TXT", "SIG:CNAME", "SIG:KEY"]

MUTATORS = ("add", "replace", "delete", "delete_exact", "update_serial")
PUT_FORMS = ("rrset", "rdataset", "ttl_rdata")
DEL_FORMS = ("rrset", "name", "type", "type_covers", "rdataset", "rdata")

INIT_EXTRA = """www 300 A 192.0.2.1
www 300 TXT "hello"
a.ent 60 TXT "leaf"
cn 120 CNAME www
* 300 TXT "wild"
"""


class _Injected(Exception):
    pass


class _InjectedBase(BaseException):
    pass


def _init_text(case):
    t = (
        "$ORIGIN example.\n$TTL 3600\n"
        f"@ SOA ns1 hostmaster {case['serial0']} 7200 3600 1209600 300\n"
        "@ NS ns1\n@ NS ns2\n"
    )
    if case["init"]:
        t += INIT_EXTRA
    return t


# ---------------------------------------------------------------------------
# extraction: vlib.zoneutil's per-record functions, memoised per object for the duration of a
# case (names and rdatas are immutable; the memo keeps the object alive so ids stay unique)

_memo = {}


def _rk(rd, origin):
    e = _memo.get(id(rd))
    if e is None or e[0] is not rd:
        e = (rd, ZU.rdata_key(rd, origin))
        _memo[id(rd)] = e
    return e[1]


def _ok(name, origin):
    e = _memo.get(id(name))
    if e is None or e[0] is not name:
        e = (name, ZU.owner_key(name, origin))
        _memo[id(name)] = e
    return e[1]


def _x_rdataset(rds, origin):
    return (int(rds.ttl), frozenset(_rk(rd, origin) for rd in rds))


def _x_pairs(pairs, origin, strict=False):
    """[(name, rdataset)] -> the shape of vlib.zoneutil.extract()"""
    out = {}
    for name, rds in pairs:
        node = out.setdefault(_ok(name, origin), {})
        tk = (int(rds.rdtype), int(rds.covers))
        if strict and tk in node:
            raise AssertionError(f"two rdatasets of type {tk} at {name}")
        node[tk] = _x_rdataset(rds, origin)
    return out


# ---------------------------------------------------------------------------
# one zone flavour


class _Z:
    """a zone under test plus everything needed to spell arguments for it"""

    def __init__(self, kind, relativize, case, rdcache):
        import dns.btreezone
        import dns.name
        import dns.versioned
        import dns.zone

        factory = {"plain": dns.zone.Zone, "versioned": dns.versioned.Zone, "btree": dns.btreezone.Zone}[kind]
        self.kind = kind
        self.rel = relativize
        self.label = f"{kind}/{'rel' if relativize else 'abs'}"
        self.zone = dns.zone.from_text(_init_text(case), origin="example.", relativize=relativize, zone_factory=factory)
        self.origin = dns.name.Name(ORIGIN_LABELS)
        self.rdcache = rdcache  # shared between the zones of one relativize setting
        self.pool = case["pool"]

    # -- spelling

    def name(self, idx, spell, upper):
        """spell: bit0 = absolute, bit1 = str"""
        import dns.name

        if idx == N_OUT:
            labels = OUTSIDE
            spell |= 1
        else:
            labels = NAMES[idx]
            if spell & 1:
                labels = labels + ORIGIN_LABELS
        if upper:
            labels = tuple(l.upper() for l in labels)
        n = dns.name.Name(labels)
        if spell & 2:
            return n.to_text()  # "@" for the empty name, trailing dot for absolute names
        return n

    def effective_spell(self, spell, other):
        """owner spelling for SOA stores: the effective origin (or deliberately the other one)"""
        absolute = not self.rel
        if other:
            absolute = not absolute
        return (spell & 2) | (1 if absolute else 0)

    # -- records

    def rdata(self, tname, i, wrongclass=False):
        import dns.rdata

        key = (tname, i, wrongclass)
        rd = self.rdcache.get(key)
        if rd is None:
            _, rdtype, _ = TYPES[tname]
            rdclass = 3 if wrongclass else 1
            w = bytes.fromhex(self.pool[tname][i])
            # relativizing a name drops the spelling (ASCII case) of its origin suffix: pass every
            # record through the relativized form once so that both flavours hold the SAME record
            w = dns.rdata.from_wire(rdclass, rdtype, w, 0, len(w), self.origin).to_wire(origin=self.origin)
            rd = dns.rdata.from_wire(rdclass, rdtype, w, 0, len(w), self.origin if self.rel else None)
            self.rdcache[key] = rd
        return rd

    def rdata_key(self, tname, i):
        return _rk(self.rdata(tname, i), self.origin)

    def rdataset(self, op, ttl):
        import dns.rdataset

        tname = op["type"]
        _, rdtype, covers = TYPES[tname]
        wc = bool(op.get("wrongclass"))
        rds = dns.rdataset.Rdataset(3 if wc else 1, rdtype, covers, ttl)
        for i in op["recs"]:
            rds.add(self.rdata(tname, i, wc))
        return rds

    def rrset(self, op, ttl):
        import dns.rrset

        tname = op["type"]
        _, rdtype, covers = TYPES[tname]
        wc = bool(op.get("wrongclass"))
        n = self.name(op["name"], op["spell"] & 1, op["upper"])
        rrs = dns.rrset.RRset(n, 3 if wc else 1, rdtype, covers)
        rrs.ttl = ttl
        for i in op["recs"]:
            rrs.add(self.rdata(tname, i, wc))
        return rrs

    def rdtype_arg(self, code, textual):
        import dns.rdatatype

        t = dns.rdatatype.RdataType.make(code)
        return dns.rdatatype.to_text(t) if textual else t

    # -- observations

    def ids(self):
        if self.kind == "plain":
            return None
        return [v.id for v in self.zone._versions]

    def node_names(self):
        return set(_ok(n, self.origin) for n in self.zone.keys())

    def check_published(self, want, where):
        """node key relativity, no empty nodes, node names, content (with TTLs)"""
        names = set()
        for n, node in self.zone.items():
            if n.is_absolute() == self.rel:
                raise Violation("content", f"{self.label} {where}: node key {n!r} has the wrong relativity", f"{self.kind}:relativity")
            if len(node) == 0 or any(len(rds) == 0 for rds in node):
                raise Violation("content", f"{self.label} {where}: node {n} without records is present", f"{self.kind}:empty-node")
            k = _ok(n, self.origin)
            if k in names:
                raise Violation("content", f"{self.label} {where}: two nodes for owner {n}", f"{self.kind}:duplicate-node")
            names.add(k)
        try:
            got = _x_pairs(self.zone.iterate_rdatasets(), self.origin, strict=True)
        except AssertionError as e:
            raise Violation("content", f"{self.label} {where}: {e}", f"{self.kind}:duplicate-rdataset")
        if got != want:
            raise Violation(
                "content", f"{self.label} {where}: zone content differs from the model: {ZU.diff(got, want)} (zone vs model)",
                f"{self.kind}:{where.split(' ')[0]}",
            )
        if names != set(want):
            raise Violation("content", f"{self.label} {where}: node names {sorted(names)} != model {sorted(want)}", f"{self.kind}:names")


# ---------------------------------------------------------------------------
# operations: the model side


def _tk(op):
    _, rdtype, covers = TYPES[op["type"]]
    return (rdtype, covers)


def _owner_key(idx):
    if idx == N_OUT:
        return W.name_key(OUTSIDE)
    return W.name_key(NAMES[idx] + ORIGIN_LABELS)


def _listed_keys(op, keyof):
    return [keyof(op["type"], i) for i in op["recs"]]


def _model_op(mt, op, keyof):
    """apply op to the model transaction -> (outcome, value)"""
    name = op["op"]
    try:
        owner = _owner_key(op.get("name", 0))
        if name in ("add", "replace"):
            if op.get("extra"):
                raise ZM.ModelError("TypeError", "extra parameters")
            rdtype, covers = _tk(op)
            eff = not op.get("soa_other")
            ttl_form = op["form"] == "ttl_rdata"
            rdclass = 3 if op.get("wrongclass") else 1
            getattr(mt, name)(owner, rdtype, covers, op["ttl"], _listed_keys(op, keyof), rdclass=rdclass,
                              effective_spelling=eff, ttl_form=ttl_form)
            return ("ok", None)
        if name in ("delete", "delete_exact"):
            exact = name == "delete_exact"
            form = op["form"]
            if op.get("extra"):
                raise ZM.ModelError("TypeError", "extra parameters")
            if form == "name":
                mt.delete_name(owner, exact)
            elif form in ("type", "type_covers"):
                rdtype, covers = _tk(op)
                if form == "type":
                    covers = 0
                mt.delete_rdataset(owner, rdtype, covers, exact)
            else:
                rdtype, covers = _tk(op)
                rdclass = 3 if op.get("wrongclass") else 1
                mt.delete_rdatas(owner, rdtype, covers, _listed_keys(op, keyof), rdclass=rdclass, exact=exact)
            return ("ok", None)
        if name == "update_serial":
            mt.update_serial(op["value"], op["relative"], effective_spelling=True)
            return ("ok", None)
        if name == "get":
            rdtype, covers = _tk(op)
            if op["form"] == "type":
                covers = 0
            return ("ok", mt.get(owner, rdtype, covers))
        if name == "get_node":
            return ("ok", mt.get_node(owner))
        if name == "name_exists":
            return ("ok", mt.name_exists(owner))
        if name == "iterate_names":
            return ("ok", mt.names())
        if name == "iterate_rdatasets":
            return ("ok", mt.rdatasets())
        if name == "changed":
            return ("ok", mt.changed_bounds())
        raise AssertionError(name)
    except ZM.ModelError as e:
        if e.outcome == "unspecified":
            raise AssertionError(f"generator produced an unspecified operation: {op}")
        return (e.outcome, None)


def _would_remove_last(mt, op, keyof):
    """does this delete remove the last rdataset of its node through the rdataset path?"""
    if op["op"] not in ("delete", "delete_exact") or op["form"] == "name":
        return False
    if op.get("extra") or op.get("wrongclass") or op.get("name", 0) == N_OUT:
        return False
    node = mt.content.get(_owner_key(op["name"]))
    if not node or len(node) != 1:
        return False
    rdtype, covers = _tk(op)
    if op["form"] == "type":
        covers = 0
    if (rdtype, covers) not in node:
        return False
    if op["form"] in ("type", "type_covers"):
        return True
    listed = set(_listed_keys(op, keyof))
    have = node[(rdtype, covers)][1]
    if op["op"] == "delete_exact" and not listed <= have:
        return False
    return have <= listed


# ---------------------------------------------------------------------------
# operations: the real side


def _norm_node(node, origin):
    if node is None:
        return None
    return {(int(r.rdtype), int(r.covers)): _x_rdataset(r, origin) for r in node.rdatasets}


def _extra_rdata():
    import dns.rdata

    return dns.rdata.from_text("IN", "A", "192.0.2.77")


def _real_call(Z, txn, op):
    """build the arguments for this zone flavour, call, normalise -> (outcome, value)"""
    import dns.transaction

    name = op["op"]
    post = None
    if name in ("add", "replace"):
        spell = op["spell"]
        if op["type"] == "SOA" and op["name"] == 0:
            spell = Z.effective_spell(spell, op.get("soa_other"))
        form = op["form"]
        if form == "rrset":
            o2 = dict(op, spell=spell)
            args = [Z.rrset(o2, op["ttl"])]
        elif form == "rdataset":
            args = [Z.name(op["name"], spell, op["upper"]), Z.rdataset(op, op["ttl"])]
        else:
            args = [Z.name(op["name"], spell, op["upper"]), op["ttl"], Z.rdata(op["type"], op["recs"][0], bool(op.get("wrongclass")))]
        if op.get("extra"):
            args.append(_extra_rdata())
        fn = getattr(txn, name)
    elif name in ("delete", "delete_exact"):
        form = op["form"]
        if op.get("native"):
            op = dict(op, spell=Z.effective_spell(op["spell"], False))
        n = Z.name(op["name"], op["spell"], op["upper"])
        rdtype, covers = _tk(op)
        if form == "rrset":
            args = [Z.rrset(op, 0)]
        elif form == "name":
            args = [n]
        elif form == "type":
            args = [n, Z.rdtype_arg(rdtype, op["textual"])]
        elif form == "type_covers":
            args = [n, Z.rdtype_arg(rdtype, op["textual"]), Z.rdtype_arg(covers, op["textual"])]
        elif form == "rdataset":
            args = [n, Z.rdataset(op, op["ttl"])]
        else:
            args = [n, Z.rdata(op["type"], op["recs"][0], bool(op.get("wrongclass")))]
        if op.get("extra"):
            args.append(_extra_rdata())
        fn = getattr(txn, name)
    elif name == "update_serial":
        spell = Z.effective_spell(op["spell"], False)
        kw = {}
        if not op["defaults"]:
            kw["name"] = Z.name(0, spell, False)
        args = []
        if not (op["defaults"] and op["value"] == 1 and op["relative"]):
            args = [op["value"], op["relative"]]
        fn = lambda *a: txn.update_serial(*a, **kw)  # noqa: E731
    elif name == "get":
        rdtype, covers = _tk(op)
        n = Z.name(op["name"], op["spell"], op["upper"])
        if op["form"] == "type":
            args = [n, Z.rdtype_arg(rdtype, op["textual"])]
        else:
            args = [n, Z.rdtype_arg(rdtype, op["textual"]), Z.rdtype_arg(covers, op["textual"])]
        fn = txn.get
        post = lambda r: None if r is None else _x_rdataset(r, Z.origin)  # noqa: E731
    elif name == "get_node":
        args = [Z.name(op["name"], op["spell"] & 1, op["upper"])]
        fn = txn.get_node
        post = lambda r: _norm_node(r, Z.origin)  # noqa: E731
    elif name == "name_exists":
        args = [Z.name(op["name"], op["spell"], op["upper"])]
        fn = txn.name_exists
        post = bool
    elif name == "iterate_names":
        args = []
        fn = txn.iterate_names
        post = lambda r: set(_ok(n, Z.origin) for n in r)  # noqa: E731
    elif name == "iterate_rdatasets":
        args = []
        fn = txn.iterate_rdatasets if op["spell"] & 1 else txn.__iter__
        post = lambda r: _norm_iter(r, Z.origin)  # noqa: E731
    elif name == "changed":
        args = []
        fn = txn.changed
        post = bool
    else:
        raise AssertionError(name)
    try:
        r = fn(*args)
    except dns.transaction.DeleteNotExact:
        return ("DeleteNotExact", None, None)
    except dns.transaction.ReadOnly:
        return ("ReadOnly", None, None)
    except dns.transaction.AlreadyEnded:
        return ("AlreadyEnded", None, None)
    except (KeyError, ValueError, TypeError) as e:
        return (type(e).__name__, None, e)
    return ("ok", post(r) if post else None, r)


def _norm_iter(it, origin):
    return _x_pairs(it, origin)


def _compare(Z, where, op, want, got, exc=None):
    wo, wv = want
    go, gv = got
    sig = f"{op['op']}:{op.get('form', '-')}"
    if wo != go:
        raise Violation(
            "conformance",
            f"{Z.label} {where}: {op} ended as {go}{' (' + repr(exc) + ')' if exc is not None else ''}, the documented outcome is {wo}",
            f"{Z.kind}:{sig}:{wo}->{go}",
        )
    if wo != "ok":
        return
    if op["op"] == "changed":
        lo, hi = wv
        if (lo and not gv) or (gv and not hi):
            raise Violation("conformance", f"{Z.label} {where}: changed() is {gv}, model bounds {wv}", f"{Z.kind}:changed")
        return
    if wv != gv:
        raise Violation(
            "read-your-writes",
            f"{Z.label} {where}: {op} returned {gv!r}, the model's uncommitted state says {wv!r}",
            f"{Z.kind}:{sig}",
        )


# ---------------------------------------------------------------------------
# lifecycle sweeps


def _sweep(Z, txn, want_exc, where, skip=(), mutators_only=False, soa_present=True):
    """every data method of txn must raise want_exc"""
    import dns.rdatatype
    import dns.transaction

    import dns.rdata
    import dns.rdataset

    n = Z.name(2, 0 if Z.rel else 1, False)
    rd = dns.rdata.from_text("IN", "A", "192.0.2.99")
    eff = Z.name(0, 0 if Z.rel else 1, False)

    calls = [
        ("add", lambda: txn.add(n, 300, rd)),
        ("replace", lambda: txn.replace(n, dns.rdataset.from_rdata(300, rd))),
        ("delete", lambda: txn.delete(n)),
        ("delete_exact", lambda: txn.delete_exact(n, dns.rdatatype.A)),
    ]
    if soa_present or not mutators_only:
        calls.append(("update_serial", lambda: txn.update_serial(1, True, eff)))
    if not mutators_only:
        calls += [
            ("get", lambda: txn.get(n, "A")),
            ("get_node", lambda: txn.get_node(n)),
            ("name_exists", lambda: txn.name_exists(n)),
            ("changed", lambda: txn.changed()),
            ("iterate_rdatasets", lambda: txn.iterate_rdatasets()),
            ("iterate_names", lambda: txn.iterate_names()),
            ("iter", lambda: iter(txn)),
            ("commit", lambda: txn.commit()),
            ("rollback", lambda: txn.rollback()),
        ]
    done = 0
    for what, fn in calls:
        if what in skip:
            continue
        try:
            fn()
        except want_exc:
            done += 1
            continue
        except (dns.transaction.AlreadyEnded, dns.transaction.ReadOnly, dns.transaction.DeleteNotExact, KeyError, ValueError, TypeError, AssertionError) as e:
            raise Violation(
                "lifecycle", f"{Z.label} {where}: {what}() raised {type(e).__name__} instead of {want_exc.__name__}",
                f"{want_exc.__name__}:{what}:{type(e).__name__}",
            )
        raise Violation(
            "lifecycle", f"{Z.label} {where}: {what}() did not raise {want_exc.__name__}", f"{want_exc.__name__}:{what}:returned"
        )
    return done


# ---------------------------------------------------------------------------
# the oracle


def run(case):
    import dns.transaction

    _memo.clear()
    classes = set()
    flags = {"abs_in_rel": False, "abort_with_writes": False, "recreated": False, "cname_swap": False}
    rdc = {True: {}, False: {}}
    zones = [_Z(k, rel, case, rdc[rel]) for k in ("plain", "versioned", "btree") for rel in (True, False)]
    keyz = zones[0]

    # records that the codec rejects are dropped from the pool (the grammar is looser than some codecs)
    import dns.exception

    pool_ok = {}
    for tname, wires in case["pool"].items():
        ok = []
        for i in range(len(wires)):
            try:
                for Z in (zones[0], zones[1]):
                    Z.rdata(tname, i)
                ok.append(i)
            except dns.exception.FormError:
                pass
        pool_ok[tname] = ok

    kcache = {}

    def keyof(tname, i):
        k = kcache.get((tname, i))
        if k is None:
            k = kcache[(tname, i)] = keyz.rdata_key(tname, i)
        return k

    model = ZM.ZoneModel(ORIGIN_KEY, _x_pairs(zones[0].zone.iterate_rdatasets(), zones[0].origin, strict=True))
    for Z in zones:
        Z.check_published(model.content, "load")

    removed_once = set()  # owners whose node disappeared at some point of the (real-ending) history

    def resolve(op):
        """map descriptor indices onto the usable pool; None = not executable"""
        op = dict(op)
        if "type" in op:
            ok = pool_ok.get(op["type"], [])
            if op["op"] in ("get",) or op.get("form") in ("name", "type", "type_covers"):
                op["recs"] = []
            else:
                if not ok and op["recs"]:
                    return None
                op["recs"] = [ok[i % len(ok)] for i in op["recs"]]
                if op["form"] in ("ttl_rdata", "rdata"):
                    if not op["recs"]:
                        return None
                    op["recs"] = op["recs"][:1]
            if op["type"] in ("SOA", "CNAME", "DNAME", "NSEC") and op["recs"]:
                op["recs"] = op["recs"][-1:]  # an rdataset of a singleton type cannot hold more than one record
        return op

    def model_run(t, ops, count):
        """run ops on a fresh model transaction -> (mt, [(op, want, state_after)])"""
        mt = model.begin(t["replacement"])
        out = []
        for src, op in enumerate(ops):
            op = resolve(op)
            if op is None:
                continue
            op["src"] = src
            name = op["op"]
            if name in ("add", "replace") and not op["recs"]:
                if op["form"] == "rrset":
                    continue  # an empty RRset cannot even be converted to an rdataset
                if EXCLUDE_EMPTY_ADD:
                    if count:
                        classes.add("excluded:empty-add")
                    continue
            if name in ("delete", "delete_exact") and op["form"] in ("rdataset", "rrset") and not op["recs"]:
                if EXCLUDE_EMPTY_DELETE:
                    if count:
                        classes.add("excluded:empty-delete")
                    continue
            if EXCLUDE_D10 and _would_remove_last(mt, op, keyof):
                op["native"] = True
                if count:
                    classes.add("excluded:D10")
            n_ev = len(mt.events)
            want = _model_op(mt, op, keyof)
            if count:
                for ev in mt.events[n_ev:]:
                    if ev == "cname-other-data":
                        flags["cname_swap"] = True
                        classes.add("cname-other-data")
                    elif ev == "singleton-replaced":
                        classes.add("singleton-replaced")
                    elif ev == "ttl-merged":
                        classes.add("ttl-merged")
                if want[0] != "ok":
                    classes.add("outcome:" + want[0])
                if (name in MUTATORS and want[0] == "ok" and (op.get("spell", 0) & 1) and op.get("name") is not None
                        and not op.get("native") and not (name in ("add", "replace") and op["type"] == "SOA")):
                    flags["abs_in_rel"] = True
                if op.get("soa_other"):
                    classes.add("soa-other-spelling")
                if name == "update_serial" and want[0] == "ok":
                    classes.add("serial-updated")
                    s = ZM.serial_of(next(iter(mt.content[ORIGIN_KEY][(6, 0)][1])))
                    if s == 1 and op["relative"] and op["value"] > 0:
                        classes.add("serial-skipped-zero")
                    if op["relative"] and s < op["value"]:
                        classes.add("serial-wrapped")
                if name in ("delete", "delete_exact") and want[0] == "ok" and op["form"] != "name":
                    classes.add("delete-form:" + op["form"])
            state = ZM.copy_content(mt.content) if name in MUTATORS else None
            out.append((op, want, state, list(mt.events[n_ev:])))
        return mt, out

    def real_ops(Z, txn, steps, where, full):
        for i, (op, want, state, _) in enumerate(steps):
            go, gv, raw = _real_call(Z, txn, op)
            _compare(Z, f"{where} op{i}", op, want, (go, gv), raw if go != "ok" else None)
            if op["op"] == "get" and go == "ok" and raw is not None and i % 3 == 0:
                # "the returned rdataset is immutable"
                try:
                    raw.update_ttl(1)
                except TypeError:
                    pass
                else:
                    raise Violation("read-your-writes", f"{Z.label} {where}: rdataset returned by get() accepted update_ttl", "get-mutable")
            if state is not None and (full or i == len(steps) - 1):
                got = _x_pairs(txn.iterate_rdatasets(), Z.origin)
                if got != state:
                    raise Violation(
                        "read-your-writes",
                        f"{Z.label} {where} after op{i} {op}: transaction content differs from the model: {ZU.diff(got, state)} (txn vs model)",
                        f"{Z.kind}:state:{op['op']}:{op.get('form', '-')}",
                    )

    def ended_sweep(Z, txn, where, full):
        skip = ("get_node",) if EXCLUDE_D11 else ()
        if full:
            if EXCLUDE_D11:
                classes.add("excluded:D11")
            _sweep(Z, txn, dns.transaction.AlreadyEnded, where, skip=skip)
            classes.add("ended-sweep")
        else:
            try:
                txn.changed()
            except dns.transaction.AlreadyEnded:
                pass
            else:
                raise Violation("lifecycle", f"{Z.label} {where}: changed() on an ended transaction did not raise", "AlreadyEnded:changed:returned")

    def crash_run(ti, t, k):
        """exception raised inside the with block after operation k"""
        mt, steps = model_run(t, t["ops"][:k], False)
        wrote = mt.touched
        before = model.content
        for Z in zones:
            ids = Z.ids()
            where = f"txn{ti} crash@{k}"
            inj = (_InjectedBase if (k + t["exc"]) % 2 else _Injected)(f"injected after op {k}")
            txn = None
            try:
                with Z.zone.writer(t["replacement"]) as txn:
                    real_ops(Z, txn, steps, where, False)
                    raise inj
            except (_Injected, _InjectedBase) as e:
                if e is not inj:
                    raise Violation("atomicity", f"{Z.label} {where}: a different exception object came out of the with block", "exc-identity")
            else:
                raise Violation("atomicity", f"{Z.label} {where}: the injected exception was swallowed by the with block", "exc-swallowed")
            Z.check_published(before, where)
            if Z.ids() != ids:
                raise Violation("atomicity", f"{Z.label} {where}: version ids {ids} -> {Z.ids()} after an exception exit", f"{Z.kind}:ids")
            ended_sweep(Z, txn, where, False)
        if wrote:
            flags["abort_with_writes"] = True
        return len(steps)

    def veto_run(ti, t, k):
        """exception raised INSIDE operation k by a registered check_put_rdataset /
        check_delete_rdataset / check_delete_name hook (documented: "the check function should
        raise an exception if it objects"): the vetoed operation has no effect, the exception
        leaves the with block unchanged and the zone is as before"""
        mt, steps = model_run(t, t["ops"][: k + 1], False)
        if not steps or steps[-1][0]["src"] != k or steps[-1][0]["op"] not in MUTATORS:
            return False
        before = model.content
        last_op = steps[-1][0]
        state_before = steps[-2][2] if len(steps) > 1 else None
        fired = False
        for Z in zones:
            ids = Z.ids()
            where = f"txn{ti} veto@{k}"
            inj = _Injected(f"veto in op {k}")
            armed = [False]

            def hook(*a):
                if armed[0]:
                    raise inj

            txn = None
            try:
                with Z.zone.writer(t["replacement"]) as txn:
                    txn.check_put_rdataset(hook)
                    txn.check_delete_rdataset(hook)
                    txn.check_delete_name(hook)
                    real_ops(Z, txn, steps[:-1], where, False)
                    pre = _x_pairs(txn.iterate_rdatasets(), Z.origin)
                    armed[0] = True
                    try:
                        _real_call(Z, txn, last_op)
                    except _Injected as e:
                        if e is not inj:
                            raise Violation("atomicity", f"{Z.label} {where}: a different exception object came out of the operation", "exc-identity")
                        fired = True
                        post = _x_pairs(txn.iterate_rdatasets(), Z.origin)
                        if post != pre:
                            raise Violation("atomicity", f"{Z.label} {where}: vetoed {last_op} changed the transaction: {ZU.diff(post, pre)}", f"{Z.kind}:veto:{last_op['op']}")
                    armed[0] = False
                    raise inj
            except _Injected as e:
                if e is not inj:
                    raise Violation("atomicity", f"{Z.label} {where}: a different exception object came out of the with block", "exc-identity")
            else:
                raise Violation("atomicity", f"{Z.label} {where}: the injected exception was swallowed by the with block", "exc-swallowed")
            Z.check_published(before, where)
            if Z.ids() != ids:
                raise Violation("atomicity", f"{Z.label} {where}: version ids {ids} -> {Z.ids()} after a vetoed operation", f"{Z.kind}:ids")
        if fired:
            classes.add("veto-fired")
        return fired

    def final_run(ti, t):
        mt, steps = model_run(t, t["ops"], True)
        ending = t["ending"]
        k = None
        if ending == "raise":
            k = t["k"] % (len(t["ops"]) + 1)
            mt, steps = model_run(t, t["ops"][:k], False)
        commit = ending in ("commit", "with", "with_commit")
        if commit and t["replacement"] and not mt.content_changed and EXCLUDE_REPLACEMENT_NOOP:
            classes.add("excluded:replacement-noop")
            ending, commit = "rollback", False
        before = model.content
        after = ZM.copy_content(mt.content) if commit else before
        lo, hi = mt.changed_bounds()
        for Z in zones:
            ids = Z.ids()
            where = f"txn{ti} {ending}"
            txn = None
            changed = None
            if ending in ("commit", "rollback"):
                txn = Z.zone.writer(t["replacement"])
                real_ops(Z, txn, steps, where, True)
                changed = txn.changed()
                if ending == "commit":
                    txn.commit()
                else:
                    txn.rollback()
            elif ending == "raise":
                inj = _Injected("injected")
                try:
                    with Z.zone.writer(t["replacement"]) as txn:
                        real_ops(Z, txn, steps, where, True)
                        raise inj
                except _Injected as e:
                    if e is not inj:
                        raise Violation("atomicity", f"{Z.label} {where}: a different exception object came out", "exc-identity")
                else:
                    raise Violation("atomicity", f"{Z.label} {where}: the injected exception was swallowed", "exc-swallowed")
            else:
                with Z.zone.writer(t["replacement"]) as txn:
                    real_ops(Z, txn, steps, where, True)
                    changed = txn.changed()
                    if ending == "with_commit":
                        txn.commit()
                    elif ending == "with_rollback":
                        txn.rollback()
            if changed is not None and ((lo and not changed) or (changed and not hi)):
                raise Violation("conformance", f"{Z.label} {where}: changed() is {changed}, model bounds {(lo, hi)}", f"{Z.kind}:changed")
            Z.check_published(after, where)
            now = Z.ids()
            if ids is not None:
                if commit and (changed or t["replacement"]):
                    # (a replacement transaction replaces the content even when it wrote nothing)
                    if not now or now[-1] != ids[-1] + 1:
                        raise Violation("conformance", f"{Z.label} {where}: version ids {ids} -> {now} after an effective commit", f"{Z.kind}:ids-commit")
                elif now != ids:
                    what = "atomicity" if not commit else "conformance"
                    raise Violation(what, f"{Z.label} {where}: version ids {ids} -> {now} although nothing was committed", f"{Z.kind}:ids")
            ended_sweep(Z, txn, where, True)
            Z.check_published(after, where + " +ended-sweep")
        # bookkeeping on the model
        gone = set()
        for _, _, _, evs in steps:
            for ev in evs:
                if isinstance(ev, tuple) and ev[0] == "node-removed":
                    gone.add(ev[1])
                elif isinstance(ev, tuple) and ev[0] == "node-created" and (ev[1] in gone or ev[1] in removed_once):
                    flags["recreated"] = True
        if commit:
            removed_once.update(o for o in gone if o not in mt.content)
            mt.commit()
            classes.add("committed" if mt.touched else "empty-commit")
        else:
            if mt.touched:
                flags["abort_with_writes"] = True
            mt.rollback()
        classes.add("ending:" + ending)
        if t["replacement"]:
            classes.add("replacement")

    def reader_check(ti, t):
        """a reader sees the committed content, refuses every mutator, then refuses everything"""
        soa = (6, 0) in model.content.get(ORIGIN_KEY, {})
        _, own_steps = model_run(t, t["ops"], False)
        for zi, Z in enumerate(zones):
            where = f"txn{ti} reader"
            r = Z.zone.reader()
            try:
                got = _x_pairs(r.iterate_rdatasets(), Z.origin)
                if got != model.content:
                    raise Violation("read-your-writes", f"{Z.label} {where}: reader content differs from the committed model: {ZU.diff(got, model.content)}", f"{Z.kind}:reader")
                if r.changed():
                    raise Violation("lifecycle", f"{Z.label} {where}: changed() of a reader is True", "reader-changed")
                _sweep(Z, r, dns.transaction.ReadOnly, where, mutators_only=True, soa_present=soa)
                # the transaction's own mutators, in their own argument forms
                for op, _, _, _ in own_steps:
                    if op["op"] in ("add", "replace", "delete", "delete_exact"):
                        go, _, raw = _real_call(Z, r, op)
                        if go != "ReadOnly":
                            raise Violation("lifecycle", f"{Z.label} {where}: {op} on a reader ended as {go}, not ReadOnly", f"ReadOnly:{op['op']}:{go}")
                classes.add("reader-sweep")
            finally:
                if not r._ended:
                    how = (ti + zi) % 3
                    if how == 0:
                        r.rollback()
                    elif how == 1:
                        r.commit()
                    else:
                        with r:
                            pass
            Z.check_published(model.content, where)
            ended_sweep(Z, r, where + " ended", True)

    ncrash = 0
    for ti, t in enumerate(case["txns"]):
        for k in range(len(t["ops"]) + 1):
            crash_run(ti, t, k)
            ncrash += 1
        for k in range(len(t["ops"])):
            veto_run(ti, t, k)
        final_run(ti, t)
        if t["reader"]:
            reader_check(ti, t)

    for t in case["txns"]:
        # write N, get_node(N), write N again, get_node(N) again inside one transaction
        stage = {}
        for op in t["ops"]:
            n = op.get("name")
            if op["op"] in ("add", "replace", "delete", "delete_exact"):
                if stage.get(n, 0) in (0, 2):
                    stage[n] = stage.get(n, 0) + 1
            elif op["op"] == "get_node":
                if stage.get(n, 0) in (1, 3):
                    stage[n] += 1
        if any(v >= 4 for v in stage.values()):
            classes.add("get_node-reread-after-rewrite")
    if flags["abs_in_rel"]:
        classes.add("absolute-owner-in-relativized-zone")
    if flags["abort_with_writes"]:
        classes.add("abort-with-prior-writes")
    if flags["recreated"]:
        classes.add("last-record-deleted-then-recreated")
    if ncrash >= 10:
        classes.add("crash-points>=10")
    nontrivial = (flags["recreated"] or flags["cname_swap"] or flags["abort_with_writes"]) and flags["abs_in_rel"]
    return {"nontrivial": bool(nontrivial), "classes": sorted(classes)}


# ---------------------------------------------------------------------------
# strategies

_TTLS = [0, 1, 60, 300, 300, 3600, 3600, 2**31 - 1, 2**32 - 1]
_SERIALS = [1, 2, 0, 2**31 - 1, 2**31, 2**32 - 1, 2**32 - 2, 2024010101]
_NAME_IDX = st.sampled_from([0, 0, 1, 2, 2, 2, 3, 3, 4, 4, 5, 5, 5])


_RARE = [None] * 33 + [0, 1, 2, 3, 4, 5, 6]
_KINDS = (
    ["add"] * 7 + ["replace"] * 2 + ["delete"] * 6 + ["delete_exact"] * 3 + ["update_serial"] * 2
    + ["get", "get", "get_node", "name_exists", "iterate_names", "iterate_rdatasets", "changed"]
)


@st.composite
def _op(draw, types, prev):
    """prev: (name, type, recs) targets of earlier operations of the case; an operation re-uses one
    of them with probability ~1/2 so that add-after-delete, last-record deletion and exact
    deletes of what was just added happen constantly"""
    kind = draw(st.sampled_from(_KINDS))
    rare = draw(st.sampled_from(_RARE))
    op = {"op": kind, "spell": draw(st.sampled_from([0, 1, 2, 3])), "upper": draw(st.sampled_from([False] * 4 + [True]))}
    if kind == "update_serial":
        op["value"] = draw(st.sampled_from([1, 1, 1, 0, 2, 7, 2**31 - 1, 2**31, 2**32 - 1, -1]))
        op["relative"] = draw(st.sampled_from([True, True, False]))
        if not op["relative"]:
            op["value"] = draw(st.sampled_from([0, 1, 5, 2**31, 2**32 - 1, 2024010102, -1]))
        op["defaults"] = draw(st.booleans())
        # (no "other spelling" for update_serial: since the D49 repair the default/empty name
        # means "the origin" in every zone flavour, so the outcome no longer is the same
        # ValueError in relativized and absolute zones; SOA add/replace still cover it)
        return op
    if kind in ("iterate_names", "iterate_rdatasets", "changed"):
        return op
    echo = None
    if prev and draw(st.sampled_from([True, False])):
        echo = prev[draw(st.integers(0, len(prev) - 1))]
    op["name"] = N_OUT if rare == 1 else (echo[0] if echo else draw(_NAME_IDX))
    if kind in ("get_node", "name_exists"):
        return op
    if echo and draw(st.sampled_from([True, True, False])):
        tname = echo[1]
    else:
        tname = draw(st.sampled_from([x for x in types if x != "SOA"] * 3 + ["SOA"]))
    op["type"] = tname
    op["textual"] = draw(st.booleans())
    if kind == "get":
        op["form"] = draw(st.sampled_from(["type", "type_covers"]))
        if TYPES[tname][2]:
            op["form"] = draw(st.sampled_from(["type_covers", "type_covers", "type"]))
        return op
    if echo and echo[1] == tname and echo[2] and draw(st.sampled_from([True, True, False])):
        op["recs"] = list(echo[2])
        if kind in ("delete", "delete_exact") and draw(st.sampled_from([False, False, True])):
            # partial overlap with what an earlier operation stored: one more / one other record
            extra = [i for i in range(3) if i not in op["recs"]]
            if extra:
                op["recs"] = op["recs"] + extra[:1]
    else:
        nrec = draw(st.sampled_from([1, 1, 1, 2, 3]))
        op["recs"] = draw(st.lists(st.integers(0, 2), min_size=nrec, max_size=nrec))
    op["ttl"] = draw(st.sampled_from(_TTLS))
    if kind in ("add", "replace"):
        op["form"] = draw(st.sampled_from(PUT_FORMS))
        if tname == "SOA":
            # mostly at the apex (elsewhere it is the documented ValueError)
            if draw(st.sampled_from([True] * 5 + [False])):
                op["name"] = 0
            if rare == 2:
                op["soa_other"] = True
        if rare == 3 and op["form"] == "ttl_rdata":
            op["ttl"] = 2**32
        if rare == 4 and kind == "add" and op["form"] == "rdataset":
            op["recs"] = []
    else:
        op["form"] = draw(st.sampled_from(DEL_FORMS))
        if TYPES[tname][2] and op["form"] == "type" and draw(st.booleans()):
            op["form"] = "type_covers"
        if rare == 4 and op["form"] in ("rdataset", "rrset"):
            op["recs"] = []
    if rare == 5 and op["form"] in ("rdataset", "rrset", "ttl_rdata", "rdata") and op["recs"] and tname in ("TXT", "MX", "NS"):
        op["wrongclass"] = True  # class-independent types only (class-3 'A' has another wire format)
    if rare == 6 and op["form"] in ("rdataset", "rdata", "ttl_rdata", "type_covers") and op["recs"] and tname != "SOA":
        op["extra"] = True
    if op["form"] == "rrset":
        op["spell"] &= 1
    return op


@st.composite
def _txn(draw, types, max_ops, prev):
    n = draw(st.sampled_from([0, 1, 2, 3, 4, 5, 6, 6, 7, 8, 8, 9, 10, 11, 12, 12]))
    ops = []
    for _ in range(n):
        op = draw(_op(types, prev))
        ops.append(op)
        if op["op"] in ("add", "replace", "delete", "delete_exact") and op["name"] != N_OUT:
            prev.append((op["name"], op["type"], list(op.get("recs", []))))
    if draw(st.integers(0, 2)) == 0:
        # read the node back after (most) writes: a second write to a name is then followed by a
        # second get_node() of that name inside the same transaction
        ops2 = []
        for op in ops:
            ops2.append(op)
            if op["op"] in ("add", "replace", "delete", "delete_exact") and draw(st.integers(0, 3)) != 0:
                ops2.append({"op": "get_node", "spell": draw(st.sampled_from([0, 1, 2, 3])), "upper": False, "name": op["name"]})
        ops = ops2
    return {
        "replacement": draw(st.sampled_from([False] * 7 + [True])),
        "ops": ops,
        "ending": draw(st.sampled_from(["commit", "commit", "commit", "with", "with", "rollback", "with_commit", "with_rollback", "raise"])),
        "k": draw(st.integers(0, 12)),
        "exc": draw(st.integers(0, 1)),
        "reader": draw(st.sampled_from([False, False, True])),
    }


@st.composite
def histories(draw, max_txns, max_ops):
    # choices that shape the whole case are drawn first
    sel = draw(st.lists(st.integers(0, len(OTHER_TYPES) - 1), min_size=3, max_size=3, unique=True))
    types = ["CNAME", "SOA"] + sorted(set(OTHER_TYPES[i] for i in sel))
    serial0 = draw(st.sampled_from(_SERIALS))
    init = draw(st.sampled_from([True, True, False]))
    ctx = {"origin": list(ORIGIN_LABELS), "pool": [[b"www", b"example", b""], [b"ns1", b"example", b""], [b"Ent", b"EXAMPLE", b""]]}
    pool = {}
    for tname in types:
        gname, _, covers = TYPES[tname]
        wires = []
        for _ in range(3 if tname not in ("SOA",) else 2):
            w = bytearray(bytes.fromhex(draw(R.record(name=gname, ctx=ctx))["wire"]))
            if gname in ("RRSIG", "SIG"):
                w[0:2] = covers.to_bytes(2, "big")
            if gname == "SOA" and draw(st.booleans()):
                w[-20:-16] = draw(st.sampled_from(_SERIALS)).to_bytes(4, "big")
            wires.append(bytes(w).hex())
        pool[tname] = wires
    prev = []
    txns = [draw(_txn(types, max_ops, prev)) for _ in range(draw(st.sampled_from(list(range(1, max_txns + 1)))))]
    return {"serial0": serial0, "init": init, "pool": pool, "txns": txns}


def parts(tier):
    quick = {
        "abort-with-prior-writes": 400,
        "last-record-deleted-then-recreated": 80,
        "cname-other-data": 150,
        "absolute-owner-in-relativized-zone": 400,
        "singleton-replaced": 60,
        "ttl-merged": 200,
        "serial-updated": 100,
        "serial-skipped-zero": 5,
        "serial-wrapped": 2,
        "outcome:DeleteNotExact": 200,
        "outcome:ValueError": 80,
        "outcome:KeyError": 100,
        "outcome:TypeError": 30,
        "delete-form:rrset": 100,
        "delete-form:type": 100,
        "delete-form:type_covers": 100,
        "delete-form:rdataset": 100,
        "delete-form:rdata": 100,
        "ending:commit": 300,
        "ending:rollback": 80,
        "ending:with": 150,
        "ending:raise": 80,
        "ending:with_commit": 60,
        "ending:with_rollback": 60,
        "reader-sweep": 200,
        "ended-sweep": 1000,
        "veto-fired": 400,
        "crash-points>=10": 300,
        "get_node-reread-after-rewrite": 150,
        "replacement": 80,
        "__nontrivial__": 400,
    }
    return [
        Part(
            "histories",
            run,
            strategy=histories(4 if tier == "quick" else 6, 12),
            n={"quick": 1600, "thorough": 80000},
            require={"quick": quick, "thorough": {k: 5 * v for k, v in quick.items()}},
            shards={"quick": 16, "thorough": 16},
            case_timeout_s=60.0,
        )
    ]
