"""C02  Every record type's wire form round-trips and re-encodes byte-identically."""

from hypothesis import strategies as st

from vlib.gen import names as G
from vlib.gen import rdata as R
from vlib.ref import wire as W
from vlib.runner import HarnessError, Part, Violation, exc_key

ID = "C02"
LEVEL = "exploration"
TECHNIQUE = (
    "property-based testing: RDATA produced by independent per-type wire grammars (written from "
    "the RFCs) decoded/re-encoded by the library; round-trip, identity and fixed-point oracles; "
    "structure-aware mutation and arbitrary octets for the decode half"
)
LEVEL_TEXT = (
    "Every implemented (class,type) and unknown types: grammar-valid wire must decode, re-encode "
    "byte-identically (idempotently for the documented normalising codecs), compare/hash equal after "
    "a second round trip, with and without an origin; arbitrary/mutated octets must give a format "
    "error or a record that consumed exactly the declared length and is a decode-encode fixed point. "
    "Search, not proof."
)
RULE = (
    "cases: (grammar) one record of a sampled type from vlib/gen/rdata.py + optional origin; "
    "(unknown) arbitrary type codes with arbitrary RDATA; (arbitrary) random octets or a mutated "
    "grammar wire offered as RDATA of a sampled (class,type) inside a buffer with junk before and "
    "after. non-trivial = the library accepted the value, RDATA length >= 1, and a field is at a "
    "boundary value or an embedded name has >= 2 labels (grammar) / the record was accepted after "
    "mutation (arbitrary); distinct by SHA-1 of the case; per-type acceptance counts are required"
    ' Also: embedded names at/below a decoding origin must be held relative (the grammar records the names it emits); an optional look-up of the type under another class first, each case starting from an empty class cache.'
)
RULE += (
    " Rounds 9-10 added: records with relative names encoded under an exact-fit and a one-too-long origin through every encoder; EDNS text options 22-25 with trailing NULs."
)
ASSUMPTIONS = [
    "vlib/gen/rdata.py is an independent description of each wire format; a grammar-valid wire the "
    "library rejects is counted (rej:<type>) and starves the run if frequent, it is not a violation",
    "normalising codecs (APL trailing zero octets, ECS address masking, EDE trailing NUL, LOC zero "
    "mantissa, ISDN empty subaddress, SVCB duplicate/empty generic values) are held to idempotence",
]


def _check_typecodes():
    import dns.rdatatype

    for name, code in R.TYPECODES.items():
        if name == "CH_A":
            continue
        if int(dns.rdatatype.from_text(name.replace("_", "-"))) != code:
            raise HarnessError(f"type code table wrong for {name}")


_checked = False


def _origin_of_len(n):
    """labels of an absolute name whose wire form is exactly n octets (n >= 1)"""
    labs = []
    left = n - 1
    while left > 0:
        take = min(64, left)
        if left - take == 1:
            take -= 1
        labs.append(b"o" * (take - 1))
        left -= take
    return [l for l in labs] + [b""]


def _to_file(rd, origin):
    import io

    f = io.BytesIO()
    rd.to_wire(f, None, origin)
    return f.getvalue()


def _names_in(obj, depth=0):
    """all dns.name.Name values held by a record (fields, tuples, helper objects such as Gateway/Relay)"""
    import dns.name

    out = []
    if isinstance(obj, dns.name.Name):
        return [obj]
    if depth > 3 or isinstance(obj, (bytes, str, int, float)) or obj is None:
        return out
    if isinstance(obj, (tuple, list)):
        for v in obj:
            out += _names_in(v, depth + 1)
        return out
    slots = []
    for klass in type(obj).__mro__:
        slots += list(getattr(klass, "__slots__", ()))
    for k in dict.fromkeys(slots + list(getattr(obj, "__dict__", {}))):  # a slot name can recur along the MRO
        if k in ("rdclass", "rdtype", "rdcomment"):
            continue
        try:
            v = getattr(obj, k)
        except AttributeError:
            continue
        out += _names_in(v, depth + 1)
    return out


def _roundtrip(rdclass, rdtype, w, origin, flags, label):
    """returns (rd, w1) or raises Violation; FormError on first decode is returned as None"""
    import dns.exception
    import dns.name
    import dns.rdata

    try:
        rd = dns.rdata.from_wire(rdclass, rdtype, w, 0, len(w), origin)
    except dns.exception.FormError:
        return None, None
    except dns.exception.DNSException as e:
        raise Violation("exc-family", f"{label}: from_wire raised {type(e).__name__} (not a FormError): {e}", exc_key(e))
    if int(rd.rdtype) != rdtype or int(rd.rdclass) != rdclass:
        raise Violation("roundtrip", f"{label}: decoded record has class/type {rd.rdclass}/{rd.rdtype}", "class-type")
    w1 = rd.to_wire(origin=origin)
    try:
        rd2 = dns.rdata.from_wire(rdclass, rdtype, w1, 0, len(w1), origin)
    except dns.exception.DNSException as e:
        raise Violation("roundtrip", f"{label}: library cannot decode its own encoding {w1.hex()} of {w.hex()}: {e!r}", "reject-own:" + label)
    if not (rd2 == rd) or rd2 != rd:
        raise Violation("roundtrip", f"{label}: decode(encode(rd)) != rd for wire {w.hex()}", "neq:" + label)
    if hash(rd2) != hash(rd):
        raise Violation("roundtrip", f"{label}: equal records hash differently, wire {w.hex()}", "hash:" + label)
    w2 = rd2.to_wire(origin=origin)
    if w2 != w1:
        raise Violation("roundtrip", f"{label}: re-encoding not byte-identical: {w1.hex()} then {w2.hex()}", "reencode:" + label)
    return rd, w1


def run_grammar(case):
    import dns.name
    import dns.rdata

    global _checked
    if not _checked:
        _check_typecodes()
        _checked = True
    w = bytes.fromhex(case["wire"])
    rdclass, rdtype, tname = case["rdclass"], case["rdtype"], case["type"]
    flags = set(case["flags"])
    classes = []
    if "prelude_class" in case:
        # every case starts from an empty (class, type) -> implementation cache, so that a case is a
        # pure function of its descriptor (the cache is process-wide state of the library)
        cache = getattr(dns.rdata, "_rdata_classes", None)
        if isinstance(cache, dict):
            cache.clear()
    if case.get("prelude_class") is not None and case["prelude_class"] != rdclass:
        # the same type code looked up in another class first (for all (class, type) pairs: what one
        # pair decodes to must not depend on which other pair was used before it in the process)
        import dns.exception

        try:
            dns.rdata.from_wire(case["prelude_class"], rdtype, w, 0, len(w))
        except dns.exception.DNSException:
            pass
        classes.append("other-class-first")
    rd, w1 = _roundtrip(rdclass, rdtype, w, None, flags, tname)
    if rd is None:
        if "must-reject" not in flags:
            raise Violation("accept", f"{tname}: the well-formed value {w.hex()} is rejected", "rejected:" + tname)
        return {"nontrivial": False, "classes": ["rej:" + tname]}
    classes.append("acc:" + tname)
    if "unknown" not in flags and type(rd) is dns.rdata.GenericRdata:
        raise Violation("roundtrip", f"{tname}: implemented type decoded as GenericRdata", "generic:" + tname)
    if "unknown" in flags and type(rd) is not dns.rdata.GenericRdata:
        raise HarnessError(f"type {rdtype} is not unknown")
    if "text-option-trailing-nul" in flags:
        classes.append("text-option-trailing-nul")
    if "normalizing" in flags:
        classes.append("normalizing")
    elif w1 != w:
        raise Violation(
            "identity",
            f"{tname}: well-formed wire {w.hex()} re-encodes as {w1.hex()}",
            "identity:" + tname,
        )
    # the public constructor path: replace() rebuilds the record through __init__; mapping-valued
    # fields are also offered in reversed insertion order (their order carries no meaning)
    import collections.abc

    try:
        again = rd.replace()
    except Exception as e:
        raise Violation("constructor", f"{tname}: replace() raised {type(e).__name__}: {e}", f"replace:{tname}:{type(e).__name__}")
    if again != rd or again.to_wire() != w1:
        raise Violation("constructor", f"{tname}: replace() rebuilt a different record: {again.to_wire().hex()} vs {w1.hex()}", "replace-differs:" + tname)
    for k in rd._get_all_slots():
        v = getattr(rd, k, None)
        if isinstance(v, collections.abc.Mapping) and len(v) > 1:
            rev = dict(reversed(list(v.items())))
            try:
                perm = rd.replace(**{k: rev})
            except Exception as e:
                raise Violation("constructor", f"{tname}: replace({k}=<reordered mapping>) raised {type(e).__name__}: {e}", f"replace-map:{tname}")
            pw = perm.to_wire()
            if perm != rd or pw != w1:
                raise Violation("constructor", f"{tname}: the same {k} mapping in another insertion order encodes as {pw.hex()} instead of {w1.hex()}", "mapping-order:" + tname)
            try:
                dns.rdata.from_wire(rdclass, rdtype, pw, 0, len(pw))
            except Exception as e:
                raise Violation("constructor", f"{tname}: wire of a record built with a reordered {k} mapping is rejected: {e!r}", "mapping-order-reject:" + tname)
            classes.append("mapping-reordered")
    # generic form
    g = rd.to_generic()
    if g.data != w1:
        raise Violation("generic", f"{tname}: to_generic().data differs from to_wire()", "generic-data:" + tname)
    back = dns.rdata.from_wire(rdclass, rdtype, g.data, 0, len(g.data))
    if back != rd:
        raise Violation("generic", f"{tname}: generic form decodes to a different record", "generic-back:" + tname)
    # with an origin: embedded names that are subdomains get relativized
    if case.get("origin") is not None:
        o = dns.name.Name(G.unhexl(case["origin"]))
        rdo, w1o = _roundtrip(rdclass, rdtype, w, o, flags, tname + "+origin")
        if rdo is None:
            raise Violation("origin", f"{tname}: wire accepted without origin but rejected with one", "origin-reject:" + tname)
        # a name relativized against the origin comes back in the origin's own spelling
        if w1o.lower() != w1.lower() or len(w1o) != len(w1):
            raise Violation("origin", f"{tname}: to_wire(origin=) after relativizing gives {w1o.hex()}, expected {w1.hex()}", "origin-wire:" + tname)
        classes.append("with-origin")
        try:
            rdo.to_wire()
        except dns.name.NeedAbsoluteNameOrOrigin:
            classes.append("relativized-names")
            # a record that holds relative names, encoded under ANOTHER origin: one under which its
            # longest name just fits in 255 octets, and one under which it is one octet too long.
            # Every encoder either refuses (a DNSException) or emits octets the decoder accepts.
            longest = max(W.wire_len(list(n.labels)) for n in _names_in(rdo) if not n.is_absolute())
            for over in (0, 1):
                olen = 255 - longest + over
                if olen < 1 or olen == 2 or olen > 255:
                    continue  # no name has a 2-octet wire form; an origin is itself at most 255 octets
                big = dns.name.Name(_origin_of_len(olen))
                for label, enc in (
                    ("to_wire(origin=)", lambda: rdo.to_wire(origin=big)),
                    ("to_wire(file, origin=)", lambda: _to_file(rdo, big)),
                    ("to_digestable", lambda: rdo.to_digestable(big)),
                    ("to_generic", lambda: rdo.to_generic(big).data),
                ):
                    try:
                        wb = enc()
                    except dns.exception.DNSException:
                        if not over:
                            raise Violation("origin", f"{tname}: {label} refuses an origin of {olen} octets under which the longest name ({longest} octets relative) is exactly 255 octets", "origin-fit-refused:" + tname)
                        classes.append("origin-too-long-refused")
                        continue
                    try:
                        dns.rdata.from_wire(rdclass, rdtype, wb, 0, len(wb))
                    except dns.exception.DNSException as e:
                        raise Violation("roundtrip", f"{tname}: {label} with an origin of {olen} octets ({'one too long' if over else 'exact fit'}) produced {len(wb)} octets that from_wire rejects: {type(e).__name__}", "reject-own-origin:" + tname)
                    if over:
                        raise Violation("roundtrip", f"{tname}: {label} encoded a name of more than 255 octets and from_wire accepted it", "origin-overlong-accepted:" + tname)
                    classes.append("origin-exact-fit")
        # every embedded name at or below the origin is held relative, every other one absolute
        # (the algorithm names of TSIG/TKEY are never relativized: D21)
        if "names" in case and tname not in ("TSIG", "TKEY"):
            okey = W.name_key(G.unhexl(case["origin"]))
            emitted = [G.unhexl(n) for n in case["names"]]
            want_rel = sum(1 for n in emitted if W.name_key(n)[: len(okey)] == okey)
            held = _names_in(rdo)
            got_rel = sum(1 for n in held if not n.is_absolute())
            if len(held) == len(emitted) and got_rel != want_rel:
                raise Violation("origin", f"{tname}: {want_rel} of the embedded names {emitted!r} lie at or below the origin {case['origin']!r} but from_wire(origin=) holds {got_rel} relative names: {held!r}", "origin-relativity:" + tname)
            if len(held) == len(emitted) and want_rel:
                classes.append("relativity-checked")
                classes.append("relativity-checked:" + tname)
    nontrivial = len(w) >= 1 and bool(flags & {"boundary", "name>=2"})
    return {"nontrivial": nontrivial, "classes": classes}


@st.composite
def grammar_cases(draw, types):
    tname = R.type_choice(draw, types)
    origin = None
    ctx = {}
    if draw(st.integers(0, 2)) == 0 or (tname in R.NAME_TYPES and draw(st.booleans())):
        origin = draw(G.abs_name(max_wire=30))
        ctx["origin"] = origin
    if draw(st.booleans()):
        ctx["pool"] = draw(G.name_family(2, 4))
    case = draw(R.record(types=types, ctx=ctx, name=tname))
    case["origin"] = None if origin is None else G.hexl(origin)
    case["prelude_class"] = draw(st.sampled_from([None, None, None, None, None, 3, 4, 1, 0xFE00]))
    return case


@st.composite
def unknown_cases(draw):
    case = draw(R.unknown_record())
    case["origin"] = None
    return case


# ---------------------------------------------------------------------------
# arbitrary octets


def run_arbitrary(case):
    import dns.exception
    import dns.rdata
    import dns.wire

    w = bytes.fromhex(case["wire"])
    pre = bytes.fromhex(case["pre"])
    rdclass, rdtype, tname = case["rdclass"], case["rdtype"], case["type"]
    results = []
    for post in (b"", b"\x00\x00\x00", b"\xff\xc0\x0c\x07"):
        buf = pre + w + post
        try:
            rd = dns.rdata.from_wire(rdclass, rdtype, buf, len(pre), len(w))
            results.append(("ok", rd))
            # the documented parser-level entry point, with our own bookkeeping of how much
            # was consumed
            parser = dns.wire.Parser(buf, len(pre))
            with parser.restrict_to(len(w)):
                rdp = dns.rdata.from_wire_parser(rdclass, rdtype, parser)
            if parser.current != len(pre) + len(w):
                raise Violation(
                    "consumed",
                    f"{tname}: accepted RDATA {w.hex()} but consumed {parser.current - len(pre)} of {len(w)} octets",
                    "under-consumed:" + tname,
                )
            if rdp != rd:
                raise Violation("consumed", f"{tname}: from_wire and from_wire_parser disagree", "parser-differs:" + tname)
        except dns.exception.FormError:
            results.append(("reject", None))
        except dns.exception.DNSException as e:
            raise Violation("exc-family", f"{tname}: from_wire raised {type(e).__name__}, not a FormError", exc_key(e))
    kinds = {k for k, _ in results}
    if len(kinds) != 1:
        raise Violation("consumed", f"{tname}: accept/reject of RDATA {w.hex()} depends on octets after the declared length", "post-dependent:" + tname)
    if "reject" in kinds:
        return {"nontrivial": False, "classes": ["rejected", "rej:" + tname]}
    rd = results[0][1]
    e1 = rd.to_wire()
    for _, other in results[1:]:
        if other != rd or other.to_wire() != e1:
            raise Violation("consumed", f"{tname}: decoding of RDATA {w.hex()} depends on octets after the declared length", "post-dependent:" + tname)
    try:
        rd2 = dns.rdata.from_wire(rdclass, rdtype, e1, 0, len(e1))
    except dns.exception.DNSException as e:
        raise Violation("fixedpoint", f"{tname}: accepted {w.hex()} (pre {pre.hex()}), encoded {e1.hex()}, which the library rejects: {e!r}", "reject-own:" + tname)
    e2 = rd2.to_wire()
    if e2 != e1:
        raise Violation("fixedpoint", f"{tname}: enc(dec(x)) = {e1.hex()} but enc(dec(enc(dec(x)))) = {e2.hex()}", "fixedpoint:" + tname)
    if rd2 != rd or hash(rd2) != hash(rd):
        raise Violation("fixedpoint", f"{tname}: dec(enc(rd)) != rd for accepted input {w.hex()}", "neq:" + tname)
    return {"nontrivial": len(w) >= 1, "classes": ["accepted", "acc:" + tname] + (["mutated-accepted"] if case.get("mutated") else [])}


@st.composite
def arbitrary_cases(draw):
    name = R.ALL_TYPES[draw(st.integers(0, 1 << 20)) % len(R.ALL_TYPES)]
    rdclass = R.rdclass_for(name, draw)
    rdtype = R.TYPECODES[name]
    mode = draw(st.integers(0, 3))
    pre = draw(st.one_of(st.just(b""), st.binary(max_size=20),
                         st.just(b"\x03www\x07example\x00\x01a\xc0\x04")))
    mutated = False
    if mode == 0:
        w = draw(st.binary(max_size=60))
    else:
        wire, _ = R.build(draw, name, {})
        w = bytearray(wire)
        mutated = True
        nmut = draw(st.integers(1, 3))
        for _ in range(nmut):
            k = draw(st.integers(0, 6))
            if k == 0 and w:
                i = draw(st.integers(0, len(w) - 1))
                w[i] ^= 1 << draw(st.integers(0, 7))
            elif k == 1 and w:
                del w[draw(st.integers(0, len(w) - 1)):]
            elif k == 2:
                w += draw(st.binary(min_size=1, max_size=4))
            elif k == 3 and w:
                i = draw(st.integers(0, len(w) - 1))
                w[i] = draw(st.sampled_from([0, 1, 0x3F, 0x40, 0x80, 0xC0, 0xFF, len(w) & 0xFF]))
            elif k == 4 and w:
                i = draw(st.integers(0, len(w) - 1))
                del w[i]
            elif k == 5 and len(w) >= 2 and pre:
                # replace the tail by a compression pointer into the junk before the RDATA
                i = draw(st.integers(0, len(w) - 1))
                w[i:] = bytes([0xC0, draw(st.integers(0, len(pre)))])
            elif k == 6 and w:
                i = draw(st.integers(0, len(w)))
                w[i:i] = draw(st.binary(min_size=1, max_size=3))
        w = bytes(w)
    return {"type": name, "rdclass": rdclass, "rdtype": rdtype, "wire": bytes(w).hex(), "pre": pre.hex(), "mutated": mutated}


def parts(tier):
    per_type = {"quick": 40, "thorough": 400}[tier]
    req = {("acc:" + t): per_type for t in R.ALL_TYPES}
    req.update({("relativity-checked:" + t): 5 for t in R.NAME_TYPES if t not in ("TSIG", "TKEY", "CH_A") and t in R.GRAMMARS})
    req.update({"with-origin": 100, "relativized-names": 20, "origin-exact-fit": 3000, "origin-too-long-refused": 2000, "relativity-checked": 200, "other-class-first": 1000, "normalizing": 20, "text-option-trailing-nul": 20})
    n_types = len(R.ALL_TYPES)
    return [
        Part("grammar", run_grammar, strategy=grammar_cases(R.ALL_TYPES),
             n={"quick": 500 * n_types, "thorough": 5000 * n_types}, require=req,
             shards={"quick": 16, "thorough": 16}),
        Part("unknown", run_grammar, strategy=unknown_cases(), n={"quick": 1500, "thorough": 30000},
             shards={"quick": 2, "thorough": 4}),
        Part("arbitrary", run_arbitrary, strategy=arbitrary_cases(), n={"quick": 20000, "thorough": 600000},
             require={"accepted": 2000, "rejected": 2000, "mutated-accepted": 500}),
    ]
