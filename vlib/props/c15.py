"""C15  Key-free DNSSEC computations equal an independent RFC 4034/5155/6840 reference."""

import struct

from hypothesis import strategies as st

from vlib import zoneutil as Z
from vlib.gen import names as G
from vlib.gen import rdata as R
from vlib.ref import canon as C
from vlib.ref import dnssec_ref as D
from vlib.ref import wire as W
from vlib.runner import Part, Violation

ID = "C15"
LEVEL = "exploration"
TECHNIQUE = (
    "property-based testing: generated records, RRsets with RRSIG templates, DNSKEYs, names/salts and "
    "zones (delegations, glue, occluded data, empty non-terminals, wildcards) fed to the library's "
    "key-free DNSSEC functions and compared with an independent RFC implementation (hashlib only)"
)
LEVEL_TEXT = (
    "to_digestable / canonical ordering, RRSIG signing input incl. wildcard reduction, DS/CDS digests, "
    "key tags, NSEC3 hashes, ZONEMD digests and the NSEC chain + to-be-signed set produced by "
    "sign_zone(rrset_signer=...) equal the reference on every generated input. Search, not proof; "
    "nothing that needs a private key is exercised."
)
RULE = (
    "cases: (canon) a record of any type with mixed-case embedded names, absolute or relative to an "
    "origin, plus a small RRset for ordering; (rrsig) an RRset + RRSIG template whose labels field "
    "ranges over 0..owner labels+1, relative/absolute signer; (ds) DNSKEY/CDNSKEY with arbitrary "
    "flags/protocol/algorithm (incl. 1) and owner; (nsec3) name, salt 0-255 octets, iterations 0-50; "
    "(zone) zones with delegations, glue, occluded data at and below cuts, empty non-terminals, "
    "wildcards, relativize on/off, three zone classes. non-trivial = RDATA contains a name with an "
    "upper-case letter / zone has >=1 delegation with glue and >=1 empty non-terminal"
    ' NSEC bitmaps are compared octet for octet with an RFC 4034 4.1.2 encoder; key tags include keys steered at the double-carry boundary.'
)
RULE += (
    " Round 9 added: sibling labels around '.' (a-1, A\\000, a!, a., a.b, sub-net) so that label-by-label order differs from any flattened order."
)
ASSUMPTIONS = [
    "vlib/ref/canon.py and vlib/ref/dnssec_ref.py (hashlib only) are the trusted references",
    "class CH 'A' is outside the RFC 4034 6.2 list's scope and is skipped in the canonical-form check",
    "a wildcard owner whose RRSIG labels field is smaller than its own label count may be refused by "
    "the library (ValidationFailure) - only agreement when it does not refuse is required there",
]


def _mkname(labels):
    import dns.name

    return dns.name.Name(labels)


# ---------------------------------------------------------------------------
# canonical form and ordering


def run_canon(case):
    import dns.exception
    import dns.name
    import dns.rdata
    import dns.rdataset

    rdclass, rdtype, tname = case["rdclass"], case["rdtype"], case["type"]
    ws = [bytes.fromhex(h) for h in case["wires"]]
    origin = None if case["origin"] is None else _mkname(G.unhexl(case["origin"]))
    rds = []
    for w in ws:
        try:
            rds.append(dns.rdata.from_wire(rdclass, rdtype, w, 0, len(w), origin))
        except dns.exception.FormError:
            return {"nontrivial": False, "classes": ["rej:" + tname]}
    classes = ["acc:" + tname]
    upper = False
    for rd in rds:
        uw = rd.to_wire(origin=origin)
        want = C.canonical_rdata(rdtype, uw)
        got = rd.to_digestable(origin)
        if got != want:
            raise Violation("canonical", f"{tname}: to_digestable {got.hex()} != reference canonical form {want.hex()} (wire {uw.hex()})", "digestable:" + tname)
        # no compression in canonical forms: every embedded name is literal
        for s, e in C.name_positions(rdtype, got):
            if any(b >= 0xC0 for b in got[s:s + 1]):
                raise Violation("canonical", f"{tname}: compression pointer in canonical form", "pointer:" + tname)
        if uw != want:
            upper = True
        if any(65 <= c <= 90 for s, e in C.name_positions(rdtype, uw) for c in uw[s:e]):
            upper = True
    try:
        rd.to_wire()
    except dns.name.NeedAbsoluteNameOrOrigin:
        classes.append("relative-names")
    # ordering of an rdataset
    rs = dns.rdataset.Rdataset(rdclass, rdtype, rds[0].covers())
    for rd in rds:
        try:
            rs.add(rd, 300)
        except dns.rdataset.DifferingCovers:
            pass
    if origin is None and len(rs) > 1:
        got = [r.to_digestable() for r in sorted(rs)]
        want = C.canonical_rrset_order(rdtype, [r.to_wire() for r in rs])
        if got != want:
            raise Violation("order", f"{tname}: sorted(rdataset) not in canonical order / duplicates differ", "order:" + tname)
        classes.append("ordered-set")
    if upper:
        classes.append("upper-case-name")
    return {"nontrivial": upper, "classes": classes}


@st.composite
def canon_cases(draw):
    tname = R.type_choice(draw, [t for t in R.ALL_TYPES if t not in ("CH_A", "OPT")])
    origin = None
    ctx = {"pool": draw(G.name_family(2, 3))}
    if draw(st.integers(0, 2)) == 0:
        origin = draw(G.abs_name(max_wire=20))
        ctx["origin"] = origin
    n = draw(st.sampled_from([1, 2, 3]))
    recs = [draw(R.record(ctx=ctx, name=tname)) for _ in range(n)]
    return {"type": tname, "rdclass": recs[0]["rdclass"], "rdtype": recs[0]["rdtype"],
            "wires": [r["wire"] for r in recs], "origin": None if origin is None else G.hexl(origin)}


# ---------------------------------------------------------------------------
# RRSIG signing input


def run_rrsig(case):
    import dns.dnssec
    import dns.exception
    import dns.name
    import dns.rdata
    import dns.rrset

    tname = case["type"]
    rdtype = R.TYPECODES[tname]
    origin = None if case["origin"] is None else _mkname(G.unhexl(case["origin"]))
    owner_abs = G.unhexl(case["owner"])
    owner = _mkname(owner_abs)
    if origin is not None and case["owner_relative"]:
        owner = owner.relativize(origin)
    rds = []
    for h in case["wires"]:
        w = bytes.fromhex(h)
        try:
            rds.append(dns.rdata.from_wire(1, rdtype, w, 0, len(w), origin))
        except dns.exception.FormError:
            return {"nontrivial": False, "classes": ["rej:" + tname]}
    rrset = dns.rrset.from_rdata_list(owner, case["ttl"], rds)
    sw = bytes.fromhex(case["rrsig"])
    try:
        sig = dns.rdata.from_wire(1, 46, sw, 0, len(sw), origin if case["signer_relative"] else None)
    except dns.exception.FormError:
        return {"nontrivial": False, "classes": ["rej:RRSIG"]}
    abs_rdatas = [rd.to_wire(origin=origin) for rd in rrset]
    try:
        want = D.rrsig_signing_input(owner_abs, 1, rdtype, abs_rdatas, sw)
        ref_ok = True
    except D.Invalid:
        ref_ok = False
    n = len(owner_abs) - 1
    wild = owner_abs[0] == b"*"
    labels = sw[3]
    classes = ["labels-%s" % ("eq" if labels == (n - 1 if wild else n) else "lt" if labels < (n - 1 if wild else n) else "gt")]
    try:
        got = dns.dnssec._make_rrsig_signature_data(rrset, sig, origin)
    except dns.dnssec.ValidationFailure:
        if ref_ok and not (wild and labels < n - 1):
            raise Violation("rrsig", f"{tname}: ValidationFailure for owner {owner_abs!r} labels={labels}, which RFC 4034 3.1.3 allows", "refused")
        classes.append("refused")
        return {"nontrivial": True, "classes": classes}
    if not ref_ok:
        raise Violation("rrsig", f"{tname}: labels field {labels} exceeds the owner's label count but a signing input was produced", "labels-too-large")
    if got != want:
        raise Violation("rrsig", f"{tname}: signing input differs from RFC 4034 3.1.8.1:\n got  {got.hex()}\n want {want.hex()}", "input:" + tname)
    if wild:
        classes.append("wild-owner")
    if labels < n:
        classes.append("wildcard-reduction")
    return {"nontrivial": True, "classes": classes}


@st.composite
def rrsig_cases(draw):
    tname = draw(st.sampled_from(["A", "MX", "NS", "TXT", "SRV", "NSEC", "DNSKEY", "SOA", "RP", "SVCB", "LP", "NAPTR", "DS"]))
    origin = None
    if draw(st.booleans()):
        origin = draw(G.abs_name(max_wire=20))
    base = origin if origin is not None else [b"Example", b""]
    pre = draw(G.rel_labels(max_wire=60, min_labels=0, max_labels=4))
    if draw(st.integers(0, 4)) == 0:
        pre = [b"*"] + pre[1:] if pre else [b"*"]
    owner = pre + list(base)
    ctx = {"pool": [owner]}
    if origin is not None:
        ctx["origin"] = origin
    n = 1 if tname in ("SOA", "NSEC") else draw(st.integers(1, 3))
    wires = sorted({draw(R.record(ctx=ctx, name=tname))["wire"] for _ in range(n)})
    nlab = len(owner) - 1
    labels = draw(st.one_of(st.integers(0, nlab + 1), st.sampled_from([nlab, nlab, max(0, nlab - 1)])))
    signer = list(base) if draw(st.booleans()) else [G.flip_case(draw, l) for l in base]
    fixed = struct.pack("!HBBIIIH", R.TYPECODES[tname], draw(st.sampled_from([8, 13, 15, 1])), labels,
                        draw(st.sampled_from([0, 300, 86400, 2**31 - 1])), draw(st.integers(0, 2**32 - 1)), draw(st.integers(0, 2**32 - 1)),
                        draw(st.integers(0, 65535)))
    sw = fixed + W.encode_name(signer) + draw(st.binary(max_size=8))
    return {"type": tname, "origin": None if origin is None else G.hexl(origin), "owner": G.hexl(owner),
            "owner_relative": draw(st.booleans()), "signer_relative": draw(st.booleans()),
            "wires": wires, "ttl": draw(st.sampled_from([0, 60, 300])), "rrsig": sw.hex()}


# ---------------------------------------------------------------------------
# DS / key tag / NSEC3


def run_ds(case):
    import dns.dnssec
    import dns.exception
    import dns.rdata
    import dns.rrset

    kw = bytes.fromhex(case["key"])
    rdtype = 48 if case["kind"] == "DNSKEY" else 60
    try:
        key = dns.rdata.from_wire(1, rdtype, kw, 0, len(kw))
    except dns.exception.FormError:
        return {"nontrivial": False, "classes": ["rej"]}
    owner = G.unhexl(case["owner"])
    name = _mkname(owner)
    classes = ["alg1" if kw[3] == 1 else "alg-other", "keylen-odd" if len(kw) % 2 else "keylen-even"]
    tag = dns.dnssec.key_id(key)
    if tag != D.key_tag(kw):
        raise Violation("keytag", f"key_id {tag} != RFC 4034 App. B {D.key_tag(kw)} for {kw.hex()}", "keytag:" + classes[0])
    for dt, nm in ((1, "SHA1"), (2, "SHA256"), (4, "SHA384")):
        ds = dns.dnssec.make_ds(name, key, nm, policy=dns.dnssec.allow_all_policy)
        want = D.ds_rdata(owner, kw, dt)
        if ds.to_wire() != want:
            raise Violation("ds", f"make_ds({nm}) = {ds.to_wire().hex()} != reference {want.hex()}", "ds:" + nm)
        if nm != "SHA1":  # make_cds takes no policy argument; the default policy denies SHA-1
            cds = dns.dnssec.make_cds(name, key, nm)
            if cds.to_wire() != want or int(cds.rdtype) != 59:
                raise Violation("ds", f"make_cds({nm}) differs from the reference DS", "cds:" + nm)
    rs = dns.dnssec.make_ds_rdataset((name, [key]) if False else dns.rrset.from_rdata(name, 300, key), ["SHA256", "SHA384"]) if case["kind"] == "DNSKEY" else None
    if rs is not None:
        got = sorted(r.to_wire() for r in rs)
        if got != sorted([D.ds_rdata(owner, kw, 2), D.ds_rdata(owner, kw, 4)]):
            raise Violation("ds", "make_ds_rdataset differs from the reference", "ds-rdataset")
    upper = any(65 <= c <= 90 for l in owner for c in l)
    if upper:
        classes.append("upper-owner")
    if kw[3] != 1:
        ac = sum((kw[i] << 8) if i % 2 == 0 else kw[i] for i in range(len(kw)))
        if (ac & 0xFFFF) + (ac >> 16) >= 0x10000:
            classes.append("double-carry")
        elif (ac & 0xFFFF) + (ac >> 16) >= 0xFFFE:
            classes.append("just-below-double-carry")
    return {"nontrivial": True, "classes": classes}


@st.composite
def ds_cases(draw):
    b = R.B(draw, {})
    b.u16()
    b.u8()
    b.u8(draw(st.sampled_from([1, 1, 5, 8, 13, 15, 253])))
    b.raw(draw(st.one_of(st.binary(min_size=0, max_size=10), st.binary(min_size=32, max_size=70),
                         st.binary(min_size=255, max_size=520))))
    out = bytearray(b.out)
    steer = draw(st.integers(0, 3))
    if steer == 0 and len(out) >= 8 and out[3] != 1:
        # aim the 16-bit word sum at the boundary where the single fold of RFC 4034 appendix B and a
        # full ones'-complement fold differ (low half + high half reaches 0x10000)
        if len(out) % 2:
            out.append(draw(st.integers(0, 255)))
        base = sum((out[i] << 8) | out[i + 1] for i in range(0, len(out) - 2, 2))
        t = 0x10000 + draw(st.integers(-2, 2))
        for h in ((base >> 16) + 1, base >> 16):
            w = ((h << 16) | (t - h)) - base
            if h >= 1 and 0 <= t - h <= 0xFFFF and 0 <= w <= 0xFFFF:
                out[-2:] = bytes([w >> 8, w & 0xFF])
                break
    return {"kind": draw(st.sampled_from(["DNSKEY", "DNSKEY", "CDNSKEY"])), "key": bytes(out).hex(),
            "owner": G.hexl(draw(G.abs_name(max_wire=80)))}


def run_nsec3(case):
    import dns.dnssec

    labels = G.unhexl(case["name"])
    salt = bytes.fromhex(case["salt"])
    got = dns.dnssec.nsec3_hash(_mkname(labels), salt, case["iterations"], 1)
    want = D.nsec3_hash(labels, salt, case["iterations"])
    if got != want:
        raise Violation("nsec3", f"nsec3_hash {got} != RFC 5155 {want}", "nsec3")
    got2 = dns.dnssec.nsec3_hash(_mkname(labels), case["salt"] if len(case["salt"]) else None, case["iterations"], "SHA1")
    if got2 != want:
        raise Violation("nsec3", "nsec3_hash with hex-string salt differs", "nsec3-hexsalt")
    upper = any(65 <= c <= 90 for l in labels for c in l)
    return {"nontrivial": upper or len(salt) > 0, "classes": ["upper"] if upper else []}


@st.composite
def nsec3_cases(draw):
    return {"name": G.hexl(draw(G.abs_name())), "salt": draw(st.one_of(st.just(b""), st.binary(max_size=16), st.binary(min_size=255, max_size=255))).hex(),
            "iterations": draw(st.one_of(st.sampled_from([0, 1, 50]), st.integers(0, 50)))}


# ---------------------------------------------------------------------------
# zones: NSEC chain, to-be-signed set, ZONEMD

_FACTORIES = ["plain", "versioned", "btree"]


def _build_zone(case):
    import dns.btreezone
    import dns.name
    import dns.rdata
    import dns.rdataclass
    import dns.versioned
    import dns.zone

    origin = _mkname(G.unhexl(case["origin"]))
    fac = {"plain": dns.zone.Zone, "versioned": dns.versioned.Zone, "btree": dns.btreezone.Zone}[case["factory"]]
    z = fac(origin, dns.rdataclass.IN, relativize=case["relativize"])
    with z.writer() as txn:
        for owner, tname, ttl, wire in case["records"]:
            name = _mkname(G.unhexl(owner))
            rdtype = R.TYPECODES[tname]
            w = bytes.fromhex(wire)
            rd = dns.rdata.from_wire(1, rdtype, w, 0, len(w), origin if case["relativize"] else None)
            if case["relativize"]:
                name = name.relativize(origin)
            txn.add(name, ttl, rd)
    return z, origin


def run_zone(case):
    import dns.dnssec
    import dns.exception
    import dns.rdatatype
    import dns.zone
    import dns.zonetypes

    try:
        z, origin = _build_zone(case)
    except dns.exception.FormError:
        return {"nontrivial": False, "classes": ["rej"]}
    content = Z.extract(z)
    o_labels = list(origin.labels)
    apex = W.name_key(o_labels)
    classes = set()
    # --- ZONEMD
    for alg in (1, 2):
        zmd = z.compute_digest(dns.zonetypes.DigestHashAlgorithm(alg))
        want = D.zonemd_digest(content, o_labels, alg)
        if zmd.digest != want:
            raise Violation("zonemd", f"ZONEMD digest (alg {alg}) differs from RFC 8976 reference", f"zonemd:{alg}")
        try:
            z.verify_digest(zmd)
        except dns.zone.DigestVerificationFailure:
            raise Violation("zonemd", "verify_digest rejects the zone's own digest", "zonemd-self")
    # one-record perturbation must be rejected
    with z.writer() as txn:
        txn.add(origin if not case["relativize"] else origin.relativize(origin), 1, dns.rdata.from_text("IN", "TXT", '"perturbation"'))
    try:
        z.verify_digest(zmd)
    except dns.zone.DigestVerificationFailure:
        classes.add("zonemd-perturbation-rejected")
    else:
        raise Violation("zonemd", "verify_digest accepts a digest after a record was added", "zonemd-stale")
    z, origin = _build_zone(case)
    # --- NSEC chain via sign_zone with a recording signer
    signed = []

    def signer(txn, rrset):
        signed.append((Z.owner_key(rrset.name, origin), int(rrset.rdtype)))

    with z.writer() as txn:
        dns.dnssec.sign_zone(z, txn=txn, keys=None, add_dnskey=False, rrset_signer=signer)
    after = Z.extract(z)
    chain_ref, signed_ref = D.nsec_chain(content, o_labels)
    got_chain = {}
    for ok, node in after.items():
        for (t, c), (ttl, rds) in node.items():
            if t == 47 and (ok not in content or (47, 0) not in content[ok]):
                if len(rds) != 1:
                    raise Violation("nsec", "more than one NSEC at a name", "nsec-multi")
                rd = next(iter(rds))
                nxt = W.read_name(rd, 0)
                got_chain[ok] = (W.name_key(nxt.labels), D.bitmap_types(rd[nxt.end:]), tuple(nxt.labels), bytes(rd[nxt.end:]))
    had_nsec_before = any((47, 0) in node for node in content.values())
    if not had_nsec_before:
        want_names = [k for k, _, _ in chain_ref]
        if sorted(got_chain) != sorted(want_names):
            extra = [k for k in got_chain if k not in want_names]
            missing = [k for k in want_names if k not in got_chain]
            raise Violation(
                "nsec",
                f"NSEC owners differ from the authoritative names: extra {extra!r} missing {missing!r}",
                "nsec-owners:" + ("extra" if extra else "missing") + (":apex-only" if len(want_names) == 1 else ""),
            )
        for k, nxt, bitmap in chain_ref:
            gn, gb, _, gw = got_chain[k]
            if gn != nxt:
                raise Violation("nsec", f"NSEC at {k!r} points to {gn!r}, canonical successor is {nxt!r}", "nsec-next")
            if gb != bitmap:
                raise Violation(
                    "nsec",
                    f"NSEC bitmap at {k!r} is {sorted(gb)}, reference {sorted(bitmap)}",
                    "nsec-bitmap" + (":delegation" if (2, 0) in content[k] and k != apex else ""),
                )
            if gw != D.bitmap_wire(bitmap):
                raise Violation("nsec", f"NSEC bitmap at {k!r} is encoded as {gw.hex()}, RFC 4034 4.1.2 encoding is {D.bitmap_wire(bitmap).hex()}", "nsec-bitmap-encoding")
            if any(t >= 256 for t in bitmap):
                classes.add("nsec-multi-window")
        if sorted(set(signed)) != sorted(signed_ref) or len(signed) != len(set(signed)):
            extra = sorted(set(signed) - signed_ref)
            missing = sorted(signed_ref - set(signed))
            raise Violation("nsec", f"set handed to the signer differs: extra {extra!r} missing {missing!r} duplicates {len(signed) - len(set(signed))}", "signed-set")
        classes.add("chain-checked")
        # label-by-label order differs from the order of a flattened (dotted / wire) spelling
        if sorted(want_names) != sorted(want_names, key=lambda k: b".".join(k)):
            classes.add("dotted-order-differs")
        if sorted(want_names) != sorted(want_names, key=lambda k: b"".join(bytes([len(l)]) + l for l in k)):
            classes.add("wire-order-differs")
    cuts = [k for k in content if k != apex and any(t == 2 for (t, c) in content[k])]
    glue = [k for k in content if any(len(k) > len(c) and k[: len(c)] == c for c in cuts)]
    ents = set()
    for k in content:
        for i in range(len(apex) + 1, len(k)):
            if k[:i] not in content:
                ents.add(k[:i])
    if cuts:
        classes.add("delegation")
    if glue:
        classes.add("glue")
    if ents:
        classes.add("empty-non-terminal")
    if any(k != apex and (2, 0) in content[k] and len(content[k]) > 1 for k in cuts):
        classes.add("occluded-at-cut")
    if any(b"*" in k for k in content):
        classes.add("wildcard")
    classes.add("relativize" if case["relativize"] else "absolute")
    classes.add("factory:" + case["factory"])
    if len(content) == 1:
        classes.add("apex-only")
    return {"nontrivial": bool(cuts and glue and ents), "classes": sorted(classes)}


@st.composite
def zone_cases(draw):
    origin = draw(st.one_of(st.just([b"example", b""]), st.just([b"Example", b"COM", b""]), G.abs_name(max_wire=20)))
    labs = [b"a", b"b", b"c", b"sub", b"ns", b"*", b"Www", b"\x00", b"z"]
    rels = [[], [b"a"], [b"b", b"a"], [b"c", b"b", b"a"], [b"sub"], [b"ns", b"sub"], [b"x", b"ns", b"sub"], [b"*"], [b"*", b"a"], [b"Www"], [b"z", b"y", b"x"]]
    # siblings of names that have descendants, differing from them by a tail that starts with an
    # octet below or at '.' (0x2e) -- canonical order compares label by label, so `a` < `b.a` <
    # `a-1`, whatever a flattened text or wire spelling would suggest -- and a label with a dot in it
    tails = [[b"a-1"], [b"A\x00"], [b"a!"], [b"a."], [b"a.b"], [b"sub-net"], [b"SUB\x2dnet", b"x"], [b"b-", b"a"], [b"b\x00", b"a"], [b"ns ", b"sub"]]
    extra = draw(st.lists(st.lists(st.sampled_from(labs), min_size=1, max_size=3), max_size=3))
    pool = rels + extra + draw(st.lists(st.sampled_from(tails), max_size=4))
    records = []
    ctx = {"origin": origin, "pool": [p + origin for p in pool]}
    soa = draw(R.record(ctx=ctx, name="SOA"))
    records.append([G.hexl(origin), "SOA", 3600, soa["wire"]])
    records.append([G.hexl(origin), "NS", 3600, draw(R.record(ctx=ctx, name="NS"))["wire"]])
    n = draw(st.integers(0, 14))
    for _ in range(n):
        rel = draw(st.sampled_from(pool))
        owner = [G.flip_case(draw, l) for l in rel] + origin
        tname = draw(st.one_of(st.sampled_from(["A", "AAAA", "TXT", "MX", "NS", "NS", "DS", "A", "TXT"]), st.sampled_from(["RRSIG", "RRSIG", "ZONEMD"]), st.sampled_from([t for t in R.ZONE_TYPES if t not in ("SOA", "NSEC", "SIG", "CNAME", "DNAME", "NSEC3")])))
        rec = draw(R.record(ctx=ctx, name=tname))
        wire = rec["wire"]
        if tname == "RRSIG" and draw(st.integers(0, 3)) == 0:
            # signatures over ZONEMD: excluded from the digest at the apex only (RFC 8976 3.3.1)
            wire = "003f" + wire[4:]
        if tname == "RRSIG" and wire[:4] == "0005":
            # an RRSIG covering CNAME is CNAME-kind data: adding it to a node evicts the node's other
            # data by design (dns.node), which is not what this part is about (CNAME is left out too)
            wire = "0001" + wire[4:]
        records.append([G.hexl(owner), tname, draw(st.sampled_from([60, 300, 3600])), wire])
    return {"origin": G.hexl(origin), "relativize": draw(st.booleans()), "factory": draw(st.sampled_from(_FACTORIES)), "records": records}


def parts(tier):
    req = {("acc:" + t): (5 if tier == "quick" else 50) for t in R.ALL_TYPES if t not in ("CH_A", "OPT")}
    req.update({"upper-case-name": 500, "relative-names": 100, "ordered-set": 300})
    return [
        Part("canon", run_canon, strategy=canon_cases(), n={"quick": 8000, "thorough": 300000}, require=req,
             shards={"quick": 8, "thorough": 16}),
        Part("rrsig", run_rrsig, strategy=rrsig_cases(), n={"quick": 3000, "thorough": 100000},
             require={"wildcard-reduction": 200, "labels-gt": 100, "labels-eq": 300, "wild-owner": 50},
             shards={"quick": 4, "thorough": 16}),
        Part("ds", run_ds, strategy=ds_cases(), n={"quick": 2000, "thorough": 60000},
             require={"alg1": 200, "keylen-odd": 200, "upper-owner": 100, "double-carry": 50, "just-below-double-carry": 20}, shards={"quick": 4, "thorough": 8}),
        Part("nsec3", run_nsec3, strategy=nsec3_cases(), n={"quick": 1500, "thorough": 40000},
             shards={"quick": 2, "thorough": 8}),
        Part("zone", run_zone, strategy=zone_cases(), n={"quick": 2000, "thorough": 50000},
             require={"delegation": 200, "glue": 50, "empty-non-terminal": 100, "occluded-at-cut": 50, "wildcard": 100,
                      "chain-checked": 500, "dotted-order-differs": 100, "wire-order-differs": 100, "nsec-multi-window": 100, "relativize": 200, "absolute": 200, "apex-only": 5},
             shards={"quick": 8, "thorough": 16}),
    ]
