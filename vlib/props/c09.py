"""C09  Zones survive write-then-read as text; equivalent zone-file spellings agree.

Part "roundtrip": generated zone -> library writer under a generated LOSSLESS style -> library
reader; content (vlib.zoneutil.extract, WITH TTLs), exact wire, owner spelling, `==`.
Part "respell": a zone model -> my own writer (vlib/ref/zonefile_writer.py) -> a canonical
file and a respelled file -> library reader; both must load to the model's content.

SCOPING (decisions taken so that the check is free of false alarms; DESIGN section 4.4)
 * lossless style set = sorted, want_origin, default_ttl, deduplicate_names, *_just,
   omit_rdclass, want_generic, want_comments, base64/hex chunk sizes with white-space
   separators, txt_is_utf8, relativize on/off with origin, nl in (None, LF).
   EXCLUDED as documented-lossy or not zone-file syntax: omit_ttl and truncate_crypto ("may /
   will lose information" in their own documentation), omit_final_dot and a non-None idna_codec
   (the reader is not claimed to accept dot-less absolute names / U-labels without $UNICODE),
   chunk separators that are not white space, nl other than LF fed through from_text.
 * names embedded in RDATA that lie in the zone are generated with the origin's own spelling
   of the origin labels: a name written relative to the origin comes back with the origin's
   spelling (relativisation drops those labels; same decision as C05).
 * SOA only at the apex: the transaction layer documents (ValueError) that it refuses a
   non-origin SOA (DESIGN 4.5).  Text-lossy records (grammar flag) are never put in zones.
   In the respelling part "normalizing" records are left out too: the expected content is
   computed from the generated wire.
 * empty rdatasets are not generated (they have no text form by design); an empty rdcomment is
   not generated either (the writer prints a comment only when it is non-empty).
 * singleton types (dns.rdatatype.is_singleton: SOA, CNAME, DNAME, NSEC): the respelling model
   holds at most one record per owner -- a second one replaces the first by design
   (Rdataset.add), also when a zone file is read.
 * a generated record whose own text does not parse back to an equal record is C05's business
   (seen: vlib.gen.rdata can emit an NSEC/CSYNC bitmap with bit 0 set without the text-lossy
   flag); such a record is left out and counted (dropped:text-codec:<type>).
 * $GENERATE: only what Reader._generate_line documents/implements is used: one "$" (with or
   without a ${offset[,width[,base]]} modifier) per side, a single-token right-hand side (a
   quoted rhs is not accepted by the reader, so MX-like patterns are left out), nibble mode
   with an explicit odd width that holds the whole value, non-negative iterator values.
 * a first RR line without an owner is not generated (the reader would use the origin; RFC 1035
   leaves it undefined).  Records outside the origin are written well-formed.
 * keyword forms: Zone.to_text()/to_file() keywords are compared with the ZoneStyle that
   to_file() documents for them (relativize=True implies origin=zone.origin).
 * Rdata.replace(rdcomment=...) raises AttributeError for LOC (constructor parameter names differ
   from the attribute names) -- not this property's business; LOC records get no comment.
 * owner case: DNS names compare case-insensitively, so content is keyed by the lower-cased
   owner; the *spelling* of the part of an owner below the origin is additionally required to
   survive the library's own write/read cycle.

GENUINE DEFECTS found by this check on the unchanged tree, excluded BY CONSTRUCTION behind a
flag each (flip the flag after /repo is fixed; the counter class shows how often it applied):
 * EXCLUDE_D9               want_generic on a zone holding a relative name in RDATA raises
                            NeedAbsoluteNameOrOrigin in Rdataset.to_styled_text  (excluded:D9)
 * EXCLUDE_GENERIC_READ     "\\# len hex" RDATA of a known type whose embedded name lies at or
                            below the current origin is refused by dns.rdata.from_text whenever an
                            origin is given, i.e. always in a zone file (excluded:generic-read).
                            A relativized zone needs both D9 and this one repaired before
                            want_generic can round-trip; with EXCLUDE_D9 = False alone such a case
                            is still excluded under this flag.
 * EXCLUDE_TOTEXT_STYLE     Zone.to_text(style=...) ignores the style  (excluded:to_text-style)
 * EXCLUDE_NAME_JUST_POS    name_just > 0 pads the owner on the left: every line then starts
                            with white space = "same owner as before"   (excluded:name-just-positive)
 * EXCLUDE_REL_ORIGIN       "$ORIGIN sub" (relative argument) makes the current origin a relative
                            name; every following record is silently dropped  (excluded:relative-$ORIGIN)
 * EXCLUDE_RELATIVE_EQ      two different records of one RRset that both hold a relative name and
                            become equal when the relative names are read against the root (e.g.
                            "RP admin txt" and "RP admin. txt" in a relativized zone) compare equal
                            (Rdata.__eq__ digests relative names with origin "."), so a relativized
                            zone silently keeps only one of them: the second record of such a pair
                            is not generated  (excluded:relative-eq)
"""

import io

from hypothesis import strategies as st

from vlib import zoneutil as ZU
from vlib.gen import names as G
from vlib.gen import rdata as R
from vlib.ref import wire as W
from vlib.ref import zonefile_writer as ZW
from vlib.runner import Part, Violation, exc_key

ID = "C09"
LEVEL = "exploration"
TECHNIQUE = (
    "property-based testing: generated zones written by the library under generated lossless "
    "styles and read back (content with TTLs, exact wire, owner spelling, ==); an independent "
    "respelling engine writes canonical and equivalent respelled zone files that must load to "
    "the model's content; negative files must be refused"
)
LEVEL_TEXT = (
    "Generated-input search over zones (hostile owner names, all zone-legal record types, several "
    "TTLs, CNAME nodes, RRSIG families, delegations/glue, case variants) x three zone classes x "
    "relativize x the lossless style product, and over equivalent zone-file spellings produced by an "
    "independent writer (owner/TTL/class inheritance, $ORIGIN, $TTL, $GENERATE, parentheses, generic "
    "syntax, out-of-zone records) incl. dns.zonefile.read_rrsets. No violation outside the six "
    "defect classes listed in the module SCOPING comment; not a proof."
)
RULE = (
    "roundtrip: a zone (origin, class, relativize, factory, build path, 3-7 owners with record sets "
    "from vlib/gen/rdata.py) + one style from the lossless set, every knob drawn independently; "
    "non-trivial = >=2 non-default knobs and >=3 owners and a record with an embedded name or an "
    "escape. respell: a zone model in file order + a per-record spelling plan + interleaved "
    "directives/junk; non-trivial = >=3 distinct rewrite kinds applied. distinct by SHA-1 of the "
    "descriptor; per-knob / per-rewrite counts required"
)
RULE += (
    " Round 9 added: CNAME conflicts with DNSKEY/CDNSKEY/DS/NSEC3PARAM (near misses of the neutral set)."
)
ASSUMPTIONS = [
    "vlib/zoneutil.extract + vlib/ref/canon.py (independent canonical form) decide content equality; "
    "vlib/ref/zonefile_writer.py encodes RFC 1035 5.1 / RFC 2308 4 / BIND $GENERATE rules independently",
    "record text itself is C05's business: records flagged text-lossy are not used; here the rdata text "
    "is only carried",
    "six genuine defect classes are excluded by construction behind EXCLUDE_* flags (see SCOPING); "
    "their counts appear as excluded:* classes",
]

EXCLUDE_D9 = False
EXCLUDE_GENERIC_READ = False
EXCLUDE_TOTEXT_STYLE = False
EXCLUDE_NAME_JUST_POS = True
EXCLUDE_REL_ORIGIN = False
EXCLUDE_RELATIVE_EQ = False

_FACTORIES = ("plain", "versioned", "btree")
_NEUTRAL = {47, 50, 25}  # NSEC, NSEC3, KEY (dns.node documents these as compatible with CNAME)
_CNAME = 5
_RRSIG = 46
_SIG = 24
_SOA = 6
_LDH = b"abcdefghijklmnopqrstuvwxyzABCDEFGHIJKLMNOPQRSTUVWXYZ0123456789-_*"
_SIMPLE_NAME_RD = {"NS": 0, "CNAME": 0, "PTR": 0, "DNAME": 0, "MX": 2, "AFSDB": 2, "RT": 2, "KX": 2}


def _factories():
    import dns.btreezone
    import dns.versioned
    import dns.zone

    return {"plain": dns.zone.Zone, "versioned": dns.versioned.Zone, "btree": dns.btreezone.Zone}


# ---------------------------------------------------------------------------
# shared generators


# origins avoid the fixed vocabulary of vlib.gen.rdata.rdata_name (example, com, www, a, ...) so that
# names drawn from it are out of zone; in-zone names come from the ctx["origin"] path, which
# spells the origin labels exactly as the origin does (see SCOPING, and _origin_case_differs)
_LDH_ORIGINS = [
    [b"zone", b"test", b""], [b"Corp", b"LAN", b""], [b"ex", b""], [b"xn--bcher-kva", b"test", b""],
    [b"10", b"in-addr", b"arpa", b""], [b"example-zone", b"net", b""],
]
_LDH_OWNERS = [b"www", b"mail", b"ns1", b"ns2", b"host", b"a", b"b", b"WWW", b"_tcp", b"x-1", b"300", b"IN", b"1h"]
_HOSTILE_OWNERS = [b"@", b";semi", b'"q"', b" sp", b"a b", b"a.b", b"(p)", b"\\", b"\x00", b"\xff\x80",
                   b"tab\t", b"nl\n", b"\x7f", b"a@b", b"$", b"$ORIGIN", b"$TTL", b"$x", b"\\#", b"()"]
_TTLS = [0, 1, 60, 300, 3600, 5400, 86400, 93784, 604800, 788645, 2 ** 31 - 1, 2 ** 32 - 1]
_COVERS = [1, 2, 16, 28, 47, 48, 65280]
_EXTERNAL_POOL = [[b"ns", b"elsewhere", b"net", b""], [b"Mail", b"Other", b"org", b""], [b"x", b""], [b""]]


@st.composite
def _origin(draw):
    k = draw(st.integers(0, 11))
    if k == 0:
        return [b""]
    if k <= 7:
        return list(draw(st.sampled_from(_LDH_ORIGINS)))
    return draw(G.abs_name(max_wire=draw(st.sampled_from([12, 30, 60]))))


def _is_sub(labels, origin):
    return ZW.relative_part(labels, origin) is not None


@st.composite
def _owners(draw, origin, n_min, n_max):
    """list of (relative labels, tags); the apex is always first"""
    room = 255 - G.wire_len(origin)
    out = [([], {"apex"})]
    n = draw(st.integers(n_min, n_max))
    for _ in range(n):
        k = draw(st.integers(0, 13))
        tags = set()
        if k == 0:
            rel = [b"*"] + ([draw(st.sampled_from(_LDH_OWNERS))] if draw(st.booleans()) else [])
            tags.add("wildcard")
        elif k == 1:
            rel = [draw(st.sampled_from(_LDH_OWNERS)) for _ in range(draw(st.integers(2, 3)))]
            tags.add("ent")
        elif k == 2:
            rel = [b"$" + draw(G.label(1, 8))]
            tags |= {"hostile", "dollar"}
        elif k == 3:
            rel = [draw(G.label(1, draw(st.sampled_from([6, 20, 63]))))]
            if draw(st.booleans()):
                rel.append(draw(st.sampled_from(_LDH_OWNERS)))
        elif k == 4:
            rel = [draw(st.sampled_from(_HOSTILE_OWNERS))]
            if draw(st.integers(0, 3)) == 0:
                rel = [draw(st.sampled_from(_LDH_OWNERS))] + rel
        elif k == 5 and len(out) > 1:
            base = draw(st.sampled_from(out[1:]))[0]
            rel = [G.flip_case(draw, l) for l in base]
            tags.add("casevar")
        elif k == 6 and len(out) > 1:
            base = draw(st.sampled_from(out[1:]))[0]
            rel = [draw(st.sampled_from(_LDH_OWNERS))] + list(base)
            tags.add("below")
        elif k == 7:
            rel = []  # the apex again, possibly spelled in another case (absolute form)
            tags.add("apex")
        else:
            rel = [draw(st.sampled_from(_LDH_OWNERS))]
        while rel and G.wire_len(rel) > room:
            rel = rel[1:]
        if rel and rel[0].startswith(b"$"):
            tags |= {"hostile", "dollar"}
        if any(any(c not in _LDH for c in l) for l in rel):
            tags.add("hostile")
        out.append((rel, tags))
    return out


def _patch(rec, tname, draw, soa_min=None, covers=None, target=None):
    w = bytearray(bytes.fromhex(rec["wire"]))
    if target is not None and tname in _SIMPLE_NAME_RD:
        w = bytearray(bytes(w[: _SIMPLE_NAME_RD[tname]]) + W.encode_name(target))
    if tname in ("RRSIG", "SIG") and covers is not None:
        w[0:2] = covers.to_bytes(2, "big")
    if tname == "SOA" and soa_min is not None:
        w[-4:] = soa_min.to_bytes(4, "big")
        refresh = int.from_bytes(w[-16:-12], "big")
        if refresh == soa_min:
            w[-16:-12] = ((soa_min + 1) % (1 << 32)).to_bytes(4, "big")
    rec["wire"] = bytes(w).hex()
    return rec


@st.composite
def _record(draw, tname, ctx, no_normalizing, **patch):
    bad = ("text-lossy", "normalizing") if no_normalizing else ("text-lossy",)
    rec = draw(R.record(name=tname, ctx=ctx).filter(lambda r: not any(f in r["flags"] for f in bad)))
    return _patch(rec, tname, draw, **patch)


def _regular_types(rdclass):
    ts = [t for t in R.ZONE_TYPES if t not in ("SOA", "CNAME")]
    if rdclass != 1:
        ts = [t for t in ts if t not in R.IN_ONLY and t != "A"]
    return ts


@st.composite
def _node_sets(draw, kind, rdclass, ctx, ttls, no_normalizing, soa_min=None):
    """-> list of sets: {"t": type name, "c": rdtype, "r": [[ttl, wire hex], ...]}"""
    sets = []

    def mk(tname, n, **patch):
        ttl = draw(st.sampled_from(ttls))
        rr = []
        for _ in range(n):
            pt = dict(patch)
            if tname in _SIMPLE_NAME_RD and ctx.get("targets") and draw(st.integers(0, 2)) == 0:
                pt["target"] = draw(st.sampled_from(ctx["targets"]))  # e.g. NS ns1.<zone>: a name of this zone
            rec = draw(_record(tname, ctx, no_normalizing, **pt))
            t = ttl
            if draw(st.integers(0, 11)) == 0:
                t = draw(st.sampled_from(ttls))
            rr.append([t, rec["wire"]])
        sets.append({"t": tname, "c": R.TYPECODES[tname], "r": rr})

    regular = _regular_types(rdclass)
    if kind == "apex":
        mk("SOA", 1, soa_min=soa_min)
        mk("NS", draw(st.integers(1, 2)))
    if kind == "cname":
        mk("CNAME", 1)
        extra = draw(st.integers(0, 7))
        if extra & 1:
            mk("RRSIG", 1, covers=_CNAME)
        if extra & 2:
            mk("NSEC", 1)
            if extra & 4:
                mk("RRSIG", 1, covers=47)
        if extra == 7 and rdclass == 1:
            mk("KEY", 1)
        return sets
    if kind == "deleg":
        mk("NS", draw(st.integers(1, 2)))
        if draw(st.booleans()):
            mk("DS", 1)
        return sets
    if kind == "glue":
        mk("A" if rdclass == 1 else "TXT", draw(st.integers(1, 2)))
        return sets
    nsets = draw(st.integers(0 if kind == "apex" else 1, 3))
    used = set(s["t"] for s in sets)
    for _ in range(nsets):
        tname = R.type_choice(draw, regular)
        if tname in used or tname == "NS" and kind == "apex":
            continue
        used.add(tname)
        if tname in ("RRSIG", "SIG"):
            cov = draw(st.lists(st.sampled_from(_COVERS), min_size=1, max_size=3, unique=True))
            for c in cov:
                mk(tname, draw(st.integers(1, 2)), covers=c)
        else:
            singleton = tname in ("DNAME", "NSEC", "NSEC3PARAM", "ZONEMD")
            mk(tname, 1 if singleton else draw(st.sampled_from([1, 1, 2, 3])))
    return sets


@st.composite
def _zone_content(draw, no_normalizing, external_only):
    """origin, class, ttl pool, nodes (owner absolute labels, kind, tags, sets)"""
    origin = draw(_origin())
    if external_only and origin == [b""]:
        origin = [b"zone", b"test", b""]  # under the root every name is in the zone
    rdclass = draw(st.sampled_from([1] * 12 + [3, 4, 0xFE00]))
    ttls = draw(st.lists(st.sampled_from(_TTLS), min_size=1, max_size=4, unique=True))
    ctx = {"pool": [n for n in _EXTERNAL_POOL if origin == [b""] or not _is_sub(n, origin)] or None}
    if not external_only:
        ctx["origin"] = origin
    owners = draw(_owners(origin, 2, 6))
    if not external_only:
        ctx["targets"] = [rel + list(origin) for rel, _ in owners]
    nodes = []
    kinds = {}
    singles = set()
    soa_min = draw(st.sampled_from(ttls))
    for rel, tags in owners:
        key = W.name_key(rel)
        if "apex" in tags:
            kind = "apex" if key not in kinds else "more"
        elif key in kinds:
            kind = "more" if kinds[key] in ("regular", "apex") else None
        elif "below" in tags and kinds.get(W.name_key(rel[1:])) == "deleg":
            kind = "glue"
        else:
            kind = draw(st.sampled_from(["regular"] * 5 + ["cname", "cname", "deleg"]))
        if kind is None:
            continue
        kinds.setdefault(key, kind)
        spelled = [G.flip_case(draw, l) for l in origin] if "apex" in tags and kind == "more" else list(origin)
        sets = draw(_node_sets("regular" if kind == "more" else kind, rdclass, ctx, ttls, no_normalizing, soa_min))
        # singleton types (dns.rdatatype.is_singleton: SOA, CNAME, DNAME, NSEC): at most one record
        # per owner -- adding a second one replaces the first by design
        keep = []
        for s in sets:
            if s["t"] in ("SOA", "CNAME", "DNAME", "NSEC"):
                if (key, s["t"]) in singles:
                    continue
                singles.add((key, s["t"]))
                s["r"] = s["r"][:1]
            keep.append(s)
        sets = keep
        nodes.append({"owner": rel + spelled, "kind": kind, "tags": sorted(tags), "sets": sets})
        if kind == "deleg" and draw(st.booleans()) and G.wire_len(rel + origin) < 240:
            # glue beneath the delegation point
            gl = [draw(st.sampled_from([b"ns", b"NS1", b"a.b"]))] + rel
            if W.name_key(gl) not in kinds:
                kinds[W.name_key(gl)] = "glue"
                nodes.append({"owner": gl + list(origin), "kind": "glue", "tags": ["below"],
                              "sets": draw(_node_sets("glue", rdclass, ctx, ttls, no_normalizing))})
    return {"origin": origin, "rdclass": rdclass, "ttls": ttls, "nodes": nodes, "soa_min": soa_min}


def _hex_nodes(nodes):
    return [{"owner": G.hexl(n["owner"]), "kind": n["kind"], "tags": n["tags"], "sets": n["sets"]} for n in nodes]


# ---------------------------------------------------------------------------
# part "roundtrip"


@st.composite
def roundtrip_cases(draw):
    want_generic = draw(st.integers(0, 4)) == 0
    external_only = want_generic and (EXCLUDE_D9 or EXCLUDE_GENERIC_READ) and draw(st.integers(0, 5)) != 0
    factory = _FACTORIES[draw(st.integers(0, 2))]
    zrel = draw(st.booleans())
    zc = draw(_zone_content(False, external_only))
    style = {}

    def maybe(name, strat, p=3):
        if draw(st.integers(0, p - 1)) == 0:
            style[name] = draw(strat)

    just = st.one_of(st.integers(-24, 24), st.sampled_from([-24, -1, 1, 24, 8, -8]))
    maybe("sorted", st.just(False))
    maybe("want_origin", st.just(True))
    maybe("default_ttl", st.one_of(st.sampled_from(zc["ttls"]), st.sampled_from(zc["ttls"]), st.sampled_from(_TTLS)), 2)
    maybe("deduplicate_names", st.just(True), 2)
    maybe("name_just", just)
    maybe("ttl_just", just)
    maybe("rdclass_just", just)
    maybe("rdtype_just", just)
    maybe("omit_rdclass", st.just(True))
    if want_generic:
        style["want_generic"] = True
    maybe("want_comments", st.just(True), 2)
    maybe("base64_chunk_size", st.sampled_from([0, 1, 4, 31, 57, 64]))
    maybe("hex_chunk_size", st.sampled_from([0, 2, 7, 64]))
    maybe("base64_chunk_separator", st.sampled_from(["  ", "\t", " \t "]), 5)
    maybe("hex_chunk_separator", st.sampled_from(["  ", "\t"]), 5)
    maybe("txt_is_utf8", st.just(True), 4)
    maybe("nl", st.just("\n"))
    maybe("want_unicode_directive", st.just(False), 6)
    for n in style:
        if style[n] == 0 and n.endswith("_just"):
            style[n] = -3
    comments = {}
    k = 0
    for node in zc["nodes"]:
        for s in node["sets"]:
            for r in s["r"]:
                if draw(st.integers(0, 3)) == 0:
                    comments[str(k)] = draw(st.sampled_from(
                        [" plain comment", "c", " ; ( \" $ORIGIN x", "x" * 40, " café €", ")", " \\000 \\"]))
                k += 1
    return {
        "origin": G.hexl(zc["origin"]), "rdclass": zc["rdclass"], "nodes": _hex_nodes(zc["nodes"]),
        "relativize": zrel, "factory": factory,
        "build": draw(st.sampled_from(["find", "txn"])) if factory == "plain" else "txn",
        "style": style, "style_rel": draw(st.sampled_from(["asis", "rel", "abs"])),
        "comments": comments, "owner_form": draw(st.integers(0, 255)),
    }


def _exact(zone, origin):
    """like zoneutil.extract but byte-exact RDATA (names made absolute, case kept)"""
    out = {}
    for name, rds in zone.iterate_rdatasets():
        k = ZU.owner_key(name, origin)
        out.setdefault(k, {})[(int(rds.rdtype), int(rds.covers))] = (
            int(rds.ttl), frozenset(rd.to_wire(origin=origin) for rd in rds))
    return out


def _spellings(zone, origin):
    """{owner_key: labels below the origin, exactly as spelled}"""
    out = {}
    no = len(origin.labels)
    for name in zone.keys():
        a = name if name.is_absolute() else name.derelativize(origin)
        out[W.name_key(a.labels)] = (tuple(a.labels[: len(a.labels) - no]), tuple(a.labels[len(a.labels) - no:]))
    return out


def _has_relative_name(rd):
    import dns.name

    try:
        rd.to_wire()
    except dns.name.NeedAbsoluteNameOrOrigin:
        return True
    return False


def _origin_case_differs(rd_abs, rd_rel, origin):
    """an embedded name lies in the zone but spells the origin labels differently from the
    origin: writing it relative to the origin cannot keep that spelling (SCOPING)"""
    return rd_rel.to_wire(origin=origin) != rd_abs.to_wire()


def _text_codec_ok(rd, rdclass):
    """C05's domain: the record's own text parses back to an equal record.  A record for which
    that fails (e.g. a type bitmap with bit 0, which vlib.gen.rdata can emit unflagged) is left
    out of the zone and counted."""
    import dns.exception
    import dns.rdata

    try:
        back = dns.rdata.from_text(rdclass, rd.rdtype, rd.to_text())
    except dns.exception.DNSException:
        return False
    return back == rd and back.to_wire() == rd.to_wire()


class _RelEq:
    """EXCLUDE_RELATIVE_EQ: remembers the records of each RRset in both forms and tells whether a
    new record would collide, in its relativized form only, with one already there"""

    def __init__(self):
        self.groups = {}

    def collides(self, owner_key, rda, rdr):
        covers = rda.covers() if rda.rdtype in (_RRSIG, _SIG) else 0
        g = self.groups.setdefault((owner_key, int(rda.rdtype), int(covers)), [])
        hit = EXCLUDE_RELATIVE_EQ and any(rdr == r and not (rda == a) for a, r in g)
        if not hit:
            g.append((rda, rdr))
        return hit


def _cname_ok(content):
    """no owner holds CNAME (or RRSIG(CNAME)) together with a non-neutral type"""
    for k, node in content.items():
        kinds = set()
        for (t, c) in node:
            if t == _CNAME or (t == _RRSIG and c == _CNAME):
                kinds.add("cname")
            elif t in _NEUTRAL or (t == _RRSIG and c in _NEUTRAL):
                kinds.add("neutral")
            else:
                kinds.add("regular")
        if "cname" in kinds and "regular" in kinds:
            return k
    return None


def run_roundtrip(case):
    import dns.exception
    import dns.name
    import dns.rdata
    import dns.rdatatype
    import dns.zone

    F = _factories()
    origin = dns.name.Name(G.unhexl(case["origin"]))
    rdclass = case["rdclass"]
    zrel = case["relativize"]
    classes = ["factory:" + case["factory"], "zrel:%s" % zrel, "build:" + case["build"]]
    z = F[case["factory"]](origin, rdclass, relativize=zrel)

    # -- build the zone through the public API
    adds = []
    k = -1
    inzone_names = False
    embedded = False
    tags = set()
    owners = set()
    releq = _RelEq()
    for node in case["nodes"]:
        owner = dns.name.Name(G.unhexl(node["owner"]))
        for s in node["sets"]:
            for ttl, wh in s["r"]:
                k += 1
                w = bytes.fromhex(wh)
                try:
                    rda = dns.rdata.from_wire(rdclass, s["c"], w, 0, len(w))
                    rdr = dns.rdata.from_wire(rdclass, s["c"], w, 0, len(w), origin)
                except dns.exception.FormError:
                    classes.append("rej:" + s["t"])
                    continue
                if _origin_case_differs(rda, rdr, origin):
                    classes.append("dropped:origin-case")
                    continue
                if not _text_codec_ok(rda, rdclass):
                    classes.append("dropped:text-codec:" + s["t"])
                    continue
                if releq.collides(W.name_key(owner.labels), rda, rdr):
                    classes.append("excluded:relative-eq")
                    continue
                rd = rdr if zrel else rda
                if _has_relative_name(rdr):
                    inzone_names = True
                if s["t"] in R.NAME_TYPES:
                    embedded = True
                cmt = case["comments"].get(str(k))
                if cmt is not None and s["t"] != "LOC":
                    rd = rd.replace(rdcomment=cmt)
                adds.append((owner, ttl, rd))
                tags.update(node["tags"])
                tags.add("kind:" + node["kind"])
                owners.add(owner.labels)
    if not adds:
        return {"nontrivial": False, "classes": classes + ["empty"]}
    form = case["owner_form"]

    def spelled(owner, i):
        rel = (form >> (i % 8)) & 1
        if case["build"] == "txn":
            rel = zrel  # the transaction layer wants the effective-origin form for the SOA
        return owner.relativize(origin) if rel else owner

    if case["build"] == "find":
        for i, (owner, ttl, rd) in enumerate(adds):
            covers = rd.covers() if rd.rdtype in (_RRSIG, _SIG) else dns.rdatatype.NONE
            z.find_rdataset(spelled(owner, i), rd.rdtype, covers, create=True).add(rd, ttl)
    else:
        with z.writer() as txn:
            for i, (owner, ttl, rd) in enumerate(adds):
                txn.add(spelled(owner, i), ttl, rd)
    E0 = ZU.extract(z, origin)
    X0 = _exact(z, origin)
    S0 = _spellings(z, origin)
    if len(S0) < len(owners):
        classes.append("case-merge")  # spellings differing only in case share one node
    bad = _cname_ok(E0)
    if bad is not None:
        raise Violation("cname", f"zone built through the API holds CNAME and other data at {bad!r}", "api-build")

    # -- the style
    sk = dict(case["style"])
    if sk.get("name_just", 0) > 0 and EXCLUDE_NAME_JUST_POS:
        sk["name_just"] = -sk["name_just"]
        classes.append("excluded:name-just-positive")
    if sk.get("want_generic") and inzone_names:
        if zrel and EXCLUDE_D9:
            del sk["want_generic"]
            classes.append("excluded:D9")
        elif EXCLUDE_GENERIC_READ:
            del sk["want_generic"]
            classes.append("excluded:generic-read")
    if case["style_rel"] == "rel":
        sk.update(origin=origin, relativize=True)
    elif case["style_rel"] == "abs":
        sk.update(origin=origin, relativize=False)
    style = dns.zone.ZoneStyle(**sk)
    classes.append("style-rel:" + case["style_rel"])
    knobs = [n for n in case["style"] if n in sk and n != "want_unicode_directive"]
    if case["style_rel"] != "asis":
        knobs.append("relativize")
    classes += ["knob:" + n for n in knobs]
    for t in ("hostile", "dollar", "wildcard", "ent", "casevar", "below", "kind:cname", "kind:deleg", "kind:glue"):
        if t in tags:
            classes.append("owner:" + t)
    if any(len([1 for (t, _) in node if t == _RRSIG]) >= 2 for node in E0.values()):
        classes.append("rrsig-multi-covers")

    try:
        text = z.to_styled_text(style)
    except Exception as e:  # noqa: any failure to write a lossless style is a violation
        raise Violation("write", f"to_styled_text({case['style']}, zone relativize={zrel}) raised {type(e).__name__}: {e}", "write:" + exc_key(e))
    if style.default_ttl is not None and any(v[0] == style.default_ttl for n in E0.values() for v in n.values()):
        classes.append("ttl-column-omitted")

    apex0 = E0.get(W.name_key(origin.labels), {})
    complete = (_SOA, 0) in apex0 and (2, 0) in apex0
    if not complete:
        classes.append("apex-incomplete")

    def load(txt, what, **kw):
        try:
            return dns.zone.from_text(txt, check_origin=complete, **kw)
        except Exception as e:  # noqa
            raise Violation("read", f"{what}: from_text raised {type(e).__name__}: {e}\n--- text ---\n{txt[:1500]}", f"read:{what.split(' ')[0]}:{exc_key(e)}")

    def same_content(z2, what, txt):
        E2 = ZU.extract(z2, origin)
        if E2 != E0:
            raise Violation("content", f"{what}: content differs: {ZU.diff(E0, E2)}\n--- text ---\n{txt[:1500]}", "content:" + what.split(" ")[0])
        X2 = _exact(z2, origin)
        if X2 != X0:
            raise Violation("content", f"{what}: RDATA octets differ (names/case) although the canonical content is equal\n--- text ---\n{txt[:1500]}", "exact:" + what.split(" ")[0])
        S2 = _spellings(z2, origin)
        for key, (rel, opart) in S0.items():
            if S2[key][0] != rel:
                raise Violation("content", f"{what}: owner spelled {rel!r} came back as {S2[key][0]!r}", "owner-spelling")

    # -- 1. write -> read for every factory x relativize
    for fname in _FACTORIES:
        for rrel in (True, False):
            what = f"styled {fname} relativize={rrel}"
            z2 = load(text, what, origin=origin, rdclass=rdclass, relativize=rrel, zone_factory=F[fname])
            same_content(z2, what, text)
            if rrel == zrel and not (z2 == z and z == z2 and not (z2 != z)):
                raise Violation("eq", f"{what}: same content but zone != original\n{text[:1500]}", "eq:" + fname)
            if z2.origin != origin:
                raise Violation("eq", f"{what}: origin {z2.origin} != {origin}", "origin")
            classes.append("read-factory:" + fname)
            if style.want_comments and case["comments"] and fname == "plain":
                want = {}
                for owner, ttl, rd in adds:
                    if rd.rdcomment is not None:
                        want[(ZU.owner_key(owner, origin), int(rd.rdtype), rd.to_wire(origin=origin))] = rd.rdcomment
                got = {}
                for name, rds in z2.iterate_rdatasets():
                    for rd in rds:
                        got[(ZU.owner_key(name, origin), int(rd.rdtype), rd.to_wire(origin=origin))] = rd.rdcomment
                cur = {}
                for name, rds in z.iterate_rdatasets():
                    for rd in rds:
                        cur[(ZU.owner_key(name, origin), int(rd.rdtype), rd.to_wire(origin=origin))] = rd.rdcomment
                for key, c in cur.items():
                    if got.get(key) != c:
                        raise Violation("comment", f"want_comments: comment {c!r} came back as {got.get(key)!r}", "comment")
                if any(c is not None for c in cur.values()):
                    classes.append("comment-survived")
    if style.want_origin:
        z3 = load(text, "no-origin-argument", origin=None, rdclass=rdclass, relativize=zrel)
        if z3.origin != origin:
            raise Violation("eq", f"$ORIGIN emitted by want_origin gives origin {z3.origin}, not {origin}", "want-origin")
        same_content(z3, "no-origin-argument", text)
        classes.append("origin-from-$ORIGIN")
    try:
        z4 = dns.zone.from_file(io.StringIO(text), origin=origin, rdclass=rdclass, relativize=zrel, check_origin=complete)
    except Exception as e:  # noqa
        raise Violation("read", f"from_file(StringIO) raised {type(e).__name__}: {e}", "read:from_file:" + exc_key(e))
    same_content(z4, "from_file", text)

    # -- 2. binary / text streams, keyword forms
    fb = io.BytesIO()
    z.to_styled_file(style, fb)
    if fb.getvalue().decode("utf-8") != text:
        raise Violation("forms", "to_styled_file on a binary stream differs from to_styled_text", "binary-stream")
    ft = io.StringIO()
    z.to_file(ft, style=style)
    fb = io.BytesIO()
    z.to_file(fb, style=style)
    if ft.getvalue() != text or fb.getvalue().decode("utf-8") != text:
        raise Violation("forms", "to_file(style=...) differs from to_styled_text(style)", "to_file-style")
    if not EXCLUDE_TOTEXT_STYLE:
        if z.to_text(style=style) != text:
            raise Violation("forms", "to_text(style=...) differs from to_styled_text(style)", "to_text-style")
    else:
        classes.append("excluded:to_text-style")
    kwv = dict(sorted=style.sorted, nl=style.nl, want_comments=style.want_comments, want_origin=style.want_origin)
    for r in (True, False):
        eq_style = dns.zone.ZoneStyle(relativize=r, origin=origin if r else None, **kwv)
        t_style = z.to_styled_text(eq_style)
        t_kw = z.to_text(relativize=r, **kwv)
        fb = io.BytesIO()
        z.to_file(fb, relativize=r, **kwv)
        if t_kw != t_style or fb.getvalue().decode("utf-8") != t_style:
            raise Violation("forms", f"to_text/to_file keywords relativize={r} {kwv} differ from the equivalent ZoneStyle", "keywords")
        z5 = load(t_kw, f"keywords relativize={r}", origin=origin, rdclass=rdclass, relativize=zrel)
        same_content(z5, f"keywords relativize={r}", t_kw)
    t_def = z.to_text()
    if t_def != z.to_styled_text(dns.zone.ZoneStyle(relativize=True, origin=origin)):
        raise Violation("forms", "to_text() defaults differ from ZoneStyle(relativize=True, origin=zone.origin)", "keywords-default")

    nontrivial = len(knobs) >= 2 and len(S0) >= 3 and (embedded or "\\" in text)
    return {"nontrivial": nontrivial, "classes": classes}


# ---------------------------------------------------------------------------
# part "respell"


def _plan_from_bits(bits, extra):
    p = {}
    own = bits & 3
    p["own"] = 2 if own == 3 else own
    t = (bits >> 2) & 3
    p["ttl"] = 1 if t == 3 else t
    f = (bits >> 4) & 7
    p["tfmt"] = f if f <= 5 else 0
    p["cls"] = (bits >> 7) & 3
    p["ord"] = (bits >> 9) & 1
    ty = (bits >> 10) & 3
    p["typ"] = 0 if ty == 3 else ty
    rd = (bits >> 12) & 3
    p["rd"] = 0 if rd == 3 else rd
    p["sep"] = (bits >> 14) & 3
    if (bits >> 16) & 3 == 3:
        p["ml"] = [extra & 15, (extra >> 4) & 15, (extra >> 8) & 0xFFFF, (extra >> 24) & 0xFFFF if (extra >> 40) & 1 else 0]
    if (bits >> 18) & 3 == 3:
        p["cmt"] = [" trailing", "", " ( unbalanced \" quote", " $TTL 5"][(extra >> 41) & 3]
    if (bits >> 20) & 7 == 7:
        p["esc"] = (extra >> 43) & 0xFFFF
    p["hexchunk"] = [0, 2, 8, 31][(bits >> 23) & 3]
    return p


# Hypothesis draws bounded integers with a bias towards few significant bits, which would starve
# the choices kept in the high bits; octets from st.binary are uniform and still shrink to zero
_plan = st.binary(min_size=12, max_size=12).map(
    lambda b: _plan_from_bits(int.from_bytes(b[:4], "little"), int.from_bytes(b[4:], "little")))


@st.composite
def _gen_item(draw, origin, idx, ttls, rdclass, bases):
    start = draw(st.integers(0, 20))
    count = draw(st.integers(1, 5))
    step = draw(st.integers(1, 3))
    stop = start + (count - 1) * step + draw(st.integers(0, step - 1))
    last = start + (count - 1) * step
    types = ["A", "PTR", "CNAME", "NS", "TXT"] if rdclass == 1 else ["PTR", "CNAME", "NS", "TXT"]
    tname = draw(st.sampled_from(types))

    def mod(for_a=False):
        k = draw(st.integers(0, 5))
        if k == 0:
            return None
        off = draw(st.integers(-start, 9))
        if for_a:
            return [off, draw(st.sampled_from([None, 0, 1])), None] if k < 4 else [off, 1, "d"]
        form = draw(st.integers(0, 2))
        if form == 0:
            return [off, None, None]
        width = draw(st.integers(0, 6))
        if form == 1:
            return [off, width, None]
        base = draw(st.sampled_from(["d", "o", "x", "X", "n", "N"]))
        if base in "nN":
            kk = 1
            while 16 ** kk <= last + off:
                kk += 1
            kk += draw(st.integers(0, 2))
            width = 2 * kk - 1
        return [off, width, base]

    g = {
        "k": "gen", "start": start, "stop": stop, "step": step, "type": tname,
        "lpre": draw(st.sampled_from(["host", "h-", "", "x"])), "lmod": mod(), "lpost": draw(st.sampled_from(["", "", "-a"])),
        "lbase": G.hexl([[b"g%d" % idx] + origin, [b"G%d" % idx, b"sub"] + origin,
                         [b"g%d" % idx] + draw(st.sampled_from(bases))][draw(st.integers(0, 2))]),
        "ttl": draw(st.sampled_from(ttls)),
    }
    if tname == "A":
        g.update(rpre="10.%d.%d." % (draw(st.integers(0, 255)), draw(st.integers(0, 255))), rmod=mod(True), rpost="", rbase=None)
    elif tname == "TXT":
        g.update(rpre=draw(st.sampled_from(["v", "text-", ""])), rmod=mod(), rpost=draw(st.sampled_from(["", "z"])), rbase=None)
    else:
        rb = draw(st.sampled_from([origin, [b"target"] + origin, [b"ext", b"invalid", b""]]))
        g.update(rpre=draw(st.sampled_from(["t", "n-", ""])), rmod=mod(), rpost=draw(st.sampled_from(["", "x"])), rbase=G.hexl(rb))
    p = draw(_plan)
    p["expand"] = draw(st.integers(0, 5)) == 0
    p["plus"] = draw(st.booleans())
    p["step1"] = draw(st.booleans())
    g["p"] = p
    return g


@st.composite
def respell_cases(draw):
    neg = [None, None, None, None, None, "cname", "cname", "no-soa", "no-ns"][draw(st.integers(0, 8))]
    zc = draw(_zone_content(True, False))
    origin, rdclass, ttls = zc["origin"], zc["rdclass"], zc["ttls"]
    items = []
    for node in zc["nodes"]:
        for s in node["sets"]:
            if neg == "no-soa" and s["t"] == "SOA":
                continue
            if neg == "no-ns" and s["t"] == "NS" and node["kind"] in ("apex", "more") and "apex" in node["tags"]:
                continue
            for ttl, wh in s["r"]:
                items.append({"k": "rr", "owner": G.hexl(node["owner"]), "ttl": ttl, "t": s["t"], "c": s["c"], "w": wh,
                              "p": draw(_plan)})
    # unknown types
    for _ in range(draw(st.sampled_from([0, 0, 1, 2]))):
        u = draw(R.unknown_record())
        rel = [draw(st.sampled_from(_LDH_OWNERS)), b"unk"]
        items.append({"k": "rr", "owner": G.hexl(rel + origin), "ttl": draw(st.sampled_from(ttls)), "t": u["type"], "c": u["rdtype"],
                      "w": u["wire"], "p": draw(_plan)})
    # file order: a few moves (so that the SOA is not always first and owners are revisited)
    for _ in range(draw(st.integers(0, 3))):
        if len(items) >= 2:
            i = draw(st.integers(0, len(items) - 1))
            j = draw(st.integers(0, len(items) - 1))
            items.insert(j, items.pop(i))
    if neg == "cname":
        cand = [n for n in zc["nodes"] if n["kind"] in ("regular", "cname", "apex", "deleg") and n["sets"]]
        cn = [n for n in cand if n["kind"] == "cname"]
        if not cn and G.wire_len(origin) < 200:
            # no CNAME node in this zone: add one, so that "other data joins a CNAME" is as frequent
            # as "a CNAME joins other data"
            fresh = {"kind": "cname", "owner": [b"cn-extra"] + origin, "sets": [1]}
            rec0 = draw(_record("CNAME", {"origin": origin}, True))
            items.insert(draw(st.integers(0, len(items))),
                         {"k": "rr", "owner": G.hexl(fresh["owner"]), "ttl": draw(st.sampled_from(ttls)), "t": "CNAME", "c": 5,
                          "w": rec0["wire"], "p": draw(_plan)})
            cn = [fresh]
        node = draw(st.sampled_from(cn)) if cn and draw(st.integers(0, 2)) != 0 else draw(st.sampled_from(cand))
        owner = [G.flip_case(draw, l) for l in node["owner"][: len(node["owner"]) - len(origin)]] + origin
        if node["kind"] == "cname":
            # any type outside the documented neutral set (NSEC, NSEC3, KEY) -- the near misses of that
            # set (DNSKEY, CDNSKEY, DS, NSEC3PARAM) over-sampled
            tname = draw(st.sampled_from([t for t in ("TXT", "A", "DNSKEY", "DNSKEY", "CDNSKEY", "DS", "NSEC3PARAM", "MX", "SSHFP") if t in R.TYPECODES and (rdclass == 1 or t != "A")]))
        else:
            tname = "CNAME"
        rec = draw(_record(tname, {"origin": origin}, True))
        items.insert(draw(st.integers(0, len(items))),
                     {"k": "rr", "owner": G.hexl(owner), "ttl": draw(st.sampled_from(ttls)), "t": tname, "c": R.TYPECODES[tname],
                      "w": rec["wire"], "p": draw(_plan), "conflict": True})
    # the SOA need not come first (what precedes it has no SOA-minimum default to inherit)
    if draw(st.integers(0, 3)) == 0:
        si = [i for i, it in enumerate(items) if it["t"] == "SOA"]
        if si:
            items.insert(draw(st.integers(0, len(items) - 1)), items.pop(si[0]))
    subs = [n["owner"][1:] for n in zc["nodes"] if len(n["owner"]) > len(origin) + 1] + \
           [n["owner"] for n in zc["nodes"] if len(n["owner"]) > len(origin)]
    subs = [x for x in subs if G.wire_len(x) < 200]
    # $GENERATE blocks
    for gi in range(draw(st.sampled_from([0, 0, 1, 1, 2]))):
        items.insert(draw(st.integers(0, len(items))), draw(_gen_item(origin, gi, ttls, rdclass, [origin] + subs)))
    # interleaved directives, junk, blank and comment lines
    out = []
    cur = origin
    junk_owners = []
    if origin != [b""]:
        junk_owners = [[b"other", b"zone", b""], [b"www"] + origin[1:], [b"x" + origin[0]] + origin[1:],
                       origin[1:], [b"host", b"sub", b"elsewhere", b""]]
        junk_owners = [j for j in junk_owners if not _is_sub(j, origin)]
    for it in items:
        k = draw(st.integers(0, 15))
        if it["k"] == "gen" and k >= 12:
            # a $GENERATE whose left-hand side is relative to a mid-file origin
            lb = G.unhexl(it["lbase"])
            cur = lb[1:] if lb[1:] != origin else lb
            out.append({"k": "origin", "to": G.hexl(cur), "v": 1})
        elif k == 0:
            out.append({"k": "blank", "v": draw(st.integers(0, 3))})
        elif k == 1:
            out.append({"k": "comment", "v": draw(st.integers(0, 1)),
                        "text": draw(st.sampled_from([" a comment", "", " $ORIGIN bogus.", " ( \" unbalanced", " @ 5 IN A 1.2.3.4"]))})
        elif k in (2, 3) and junk_owners:
            jo = draw(st.sampled_from(junk_owners))
            n = draw(st.integers(1, 2))
            for i in range(n):
                jt = draw(st.sampled_from([("A", "192.0.2.1"), ("TXT", '"out of zone"'), ("MX", "10 mail.other.zone."), ("CNAME", "x.")])) \
                    if rdclass == 1 else ("TXT", '"out of zone"')
                p = draw(_plan)
                if i:
                    p["own"] = 2
                out.append({"k": "junk", "owner": G.hexl(jo), "ttl": draw(st.sampled_from(_TTLS)), "type": jt[0], "text": jt[1],
                            "cont": bool(i), "p": p})
        elif k == 4 and subs:
            cur = draw(st.sampled_from(subs))
            out.append({"k": "origin", "to": G.hexl(cur), "v": draw(st.integers(0, 5))})
        elif k == 5 and cur != origin:
            cur = origin
            out.append({"k": "origin", "to": G.hexl([G.flip_case(draw, l) for l in origin]), "v": draw(st.integers(0, 5))})
        elif k == 6 and junk_owners:
            cur = draw(st.sampled_from([j for j in junk_owners if j != [b""]] or [origin]))
            out.append({"k": "origin", "to": G.hexl(cur), "v": 1})
        out.append(it)
    top_ttl = None
    if draw(st.integers(0, 2)) == 0:
        top_ttl = [draw(st.sampled_from(ttls)), draw(st.integers(0, 5))]
    return {
        "origin": G.hexl(origin), "rdclass": rdclass, "items": out, "neg": neg,
        "top_origin": draw(st.booleans()), "top_ttl": top_ttl, "final_newline": draw(st.integers(0, 5)) != 0,
    }


def _simple_name_rd(tname, wire):
    skip = _SIMPLE_NAME_RD.get(tname)
    if skip is None:
        return None
    try:
        info = W.read_name(wire, skip)
    except W.WireError:
        return None
    if info.end != len(wire) or info.pointers:
        return None
    prefix = [str(int.from_bytes(wire[:2], "big"))] if skip else []
    return {"prefix": prefix, "target": list(info.labels)}


def _content_of_rrsets(rrsets, origin):
    out = {}
    for rrs in rrsets:
        k = ZU.owner_key(rrs.name, origin)
        tk = (int(rrs.rdtype), int(rrs.covers))
        node = out.setdefault(k, {})
        if tk in node:
            raise Violation("rrsets", f"read_rrsets returned two RRsets for {rrs.name} {tk}", "rrsets-dup")
        node[tk] = ZU.extract_rdataset(rrs, origin)
    return out


def run_respell(case):
    import dns.exception
    import dns.name
    import dns.rdata
    import dns.zone
    import dns.zonefile

    F = _factories()
    origin_l = G.unhexl(case["origin"])
    origin = dns.name.Name(origin_l)
    rdclass = case["rdclass"]
    neg = case["neg"]
    classes = []
    items = []
    releq = _RelEq()
    origins_in_file = [origin_l] + [G.unhexl(it["to"]) for it in case["items"] if it["k"] == "origin"]
    for it in case["items"]:
        k = it["k"]
        if k == "rr":
            w = bytes.fromhex(it["w"])
            try:
                rd = dns.rdata.from_wire(rdclass, it["c"], w, 0, len(w))
                rdr = dns.rdata.from_wire(rdclass, it["c"], w, 0, len(w), origin)
            except dns.exception.FormError:
                classes.append("rej:" + it["t"])
                continue
            if _origin_case_differs(rd, rdr, origin):
                classes.append("dropped:origin-case")
                continue
            if not _text_codec_ok(rd, rdclass):
                classes.append("dropped:text-codec:" + it["t"])
                continue
            if releq.collides(W.name_key(G.unhexl(it["owner"])), rd, rdr):
                classes.append("excluded:relative-eq")
                continue
            generic_ok = True
            if EXCLUDE_GENERIC_READ:
                # the defect strikes when an embedded name lies at or below the origin in force
                bad = set()
                for cand in origins_in_file:
                    if _has_relative_name(dns.rdata.from_wire(rdclass, it["c"], w, 0, len(w), dns.name.Name(cand))):
                        bad.add(W.name_key(cand))
                if bad:
                    generic_ok = (lambda cur, bad=bad: W.name_key(cur) not in bad)
                    if it["p"].get("rd") == 1:
                        classes.append("excluded:generic-read")
            items.append({"k": "rr", "owner": G.unhexl(it["owner"]), "ttl": it["ttl"], "rdtype": it["c"], "type": it["t"],
                          "text": rd.to_text(), "wire": w, "name_rd": _simple_name_rd(it["t"], w),
                          "generic_ok": generic_ok, "p": it["p"], "conflict": it.get("conflict", False)})
        elif k == "gen":
            g = dict(it)
            g["lbase"] = G.unhexl(it["lbase"])
            g["rbase"] = None if it["rbase"] is None else G.unhexl(it["rbase"])
            g["xp"] = it["p"]
            items.append(g)
        elif k in ("junk", "origin"):
            d = dict(it)
            for f in ("owner", "to"):
                if f in d:
                    d[f] = G.unhexl(d[f])
            items.append(d)
        else:
            items.append(dict(it))
    model = {"origin": origin_l, "rdclass": rdclass, "items": items}
    rels = [it["owner"][: len(it["owner"]) - len(origin_l)] for it in items if it["k"] == "rr"]
    if any(r and r[0].startswith(b"$") for r in rels):
        classes.append("owner:dollar")
    if any(any(c not in _LDH for c in l) for r in rels for l in r):
        classes.append("owner:hostile")
    E = ZW.expected(model)
    if not E:
        return {"nontrivial": False, "classes": classes + ["empty"]}
    okey = W.name_key(origin_l)
    conflict_key = _cname_ok(E)
    if neg == "cname" and conflict_key is None:
        neg = None
        classes.append("neg-vanished")
    if neg != "cname" and conflict_key is not None:
        raise AssertionError("generator produced CNAME and other data in a positive case")
    apex = E.get(okey, {})
    has_soa = (_SOA, 0) in apex
    has_ns = (2, 0) in apex
    if neg in ("no-soa", "no-ns") and (has_soa if neg == "no-soa" else has_ns):
        raise AssertionError("negative case still has the record")
    if neg is None and not (has_soa and has_ns):
        # the SOA/NS wire was refused by the library (generator soundness, counted): nothing to say
        return {"nontrivial": False, "classes": classes + ["apex-incomplete"]}

    rel_ok = not EXCLUDE_REL_ORIGIN
    if EXCLUDE_REL_ORIGIN and any(it["k"] == "origin" for it in items):
        classes.append("excluded:relative-$ORIGIN")
    canon = ZW.canonical(model)
    resp, applied, _ = ZW.respell(model, top_origin=case["top_origin"], top_ttl=case["top_ttl"],
                                  rel_origin_ok=rel_ok, final_newline=case["final_newline"])
    nodir, applied_nd, default_param = ZW.respell(model, top_ttl=case["top_ttl"], no_directives=True,
                                                  final_newline=case["final_newline"])
    texts = [("canonical", canon), ("respelled", resp)]
    classes += ["rw:" + k for k in applied]
    if neg:
        classes.append("neg:" + neg)

    def check_content(got, what, txt):
        if got != E:
            raise Violation("respell", f"{what}: loaded content differs from the model: {ZU.diff(E, got)}\n--- text ---\n{txt[:2500]}",
                            "content:" + what.split(" ")[0])
        for kk in got:
            if kk[: len(okey)] != okey:
                raise Violation("out-of-zone", f"{what}: out-of-zone owner {kk!r} was loaded", "out-of-zone")
        bad = _cname_ok(got)
        if bad is not None:
            raise Violation("cname", f"{what}: CNAME and other data coexist at {bad!r}", "coexist")

    def load_zone(txt, what, **kw):
        try:
            return dns.zone.from_text(txt, **kw)
        except Exception as e:  # noqa
            raise Violation("respell", f"{what}: from_text raised {type(e).__name__}: {e}\n--- text ---\n{txt[:2500]}",
                            f"load:{what.split(' ')[0]}:{exc_key(e)}")

    def expect_raise(fn, exc, what, txt):
        try:
            fn()
        except exc:
            return
        except Exception as e:  # noqa
            raise Violation("refuse", f"{what}: raised {type(e).__name__}: {e} instead of {exc.__name__}\n--- text ---\n{txt[:2500]}",
                            f"refuse-wrong:{what.split(' ')[0]}:{type(e).__name__}")
        raise Violation("refuse", f"{what}: loaded silently, {exc.__name__} expected\n--- text ---\n{txt[:2500]}", "refuse-silent:" + what.split(" ")[0])

    for tname_, txt in texts:
        for fname in _FACTORIES:
            for rrel in (True, False):
                what = f"{tname_} {fname} relativize={rrel}"
                kw = dict(origin=origin, rdclass=rdclass, relativize=rrel, zone_factory=F[fname])
                if neg == "cname":
                    expect_raise(lambda: dns.zone.from_text(txt, **kw), dns.zonefile.CNAMEAndOtherData, what, txt)
                    continue
                if neg in ("no-soa", "no-ns"):
                    exc = dns.zone.NoSOA if not has_soa else dns.zone.NoNS
                    expect_raise(lambda: dns.zone.from_text(txt, **kw), exc, what, txt)
                    z = load_zone(txt, what + " check_origin=False", check_origin=False, **kw)
                else:
                    z = load_zone(txt, what, **kw)
                check_content(ZU.extract(z, origin), what, txt)
                if z.origin != origin:
                    raise Violation("respell", f"{what}: origin {z.origin}", "origin")
                classes.append("factory:" + fname)
                classes.append("relativize:%s" % rrel)
    if neg == "cname":
        classes.append("cname-conflict-refused")
        for it in case["items"]:
            if it.get("conflict"):
                classes.append("cname-conflict-refused:" + ("dnssec-type" if it["t"] in ("DNSKEY", "CDNSKEY", "DS", "NSEC3PARAM") else "other"))
    elif neg:
        classes.append("origin-check-refused")
    if case["top_origin"] and neg is None:
        z = load_zone(resp, "respelled origin-from-file", origin=None, rdclass=rdclass, relativize=True)
        if z.origin != origin:
            raise Violation("respell", f"origin from the initial $ORIGIN is {z.origin}, not {origin}", "origin-from-file")
        check_content(ZU.extract(z, origin), "respelled origin-from-file", resp)
        classes.append("origin-from-file")

    # read_rrsets: canonical text and a directive-free respelling
    for tname_, txt, dttl in (("rrsets-canonical", canon, None), ("rrsets-respelled", nodir, default_param)):
        for rrel in (True, False):
            what = f"{tname_} relativize={rrel}"

            def rr():
                return dns.zonefile.read_rrsets(txt, rdclass=None, default_rdclass=rdclass, origin=origin, relativize=rrel, default_ttl=dttl)

            if neg == "cname":
                expect_raise(rr, dns.zonefile.CNAMEAndOtherData, what, txt)
                continue
            try:
                rrsets = rr()
            except Exception as e:  # noqa
                raise Violation("rrsets", f"{what}: read_rrsets raised {type(e).__name__}: {e}\n--- text ---\n{txt[:2500]}", f"rrsets:{tname_}:{exc_key(e)}")
            check_content(_content_of_rrsets(rrsets, origin), what, txt)
    classes.append("read_rrsets")
    kinds = set(applied)
    if applied["out-of-zone"]:
        classes.append("out-of-zone-ignored")
    return {"nontrivial": len(kinds) >= 3, "classes": classes}


# ---------------------------------------------------------------------------


def parts(tier):
    q = tier == "quick"
    knob_min = 20 if q else 300
    rt_req = {"__nontrivial__": 150 if q else 3000}
    for f in _FACTORIES:
        rt_req["factory:" + f] = 50 if q else 1000
        rt_req["read-factory:" + f] = 300 if q else 5000
    rt_req.update({"zrel:True": 100 if q else 2000, "zrel:False": 100 if q else 2000})
    for kname in ("sorted", "want_origin", "default_ttl", "deduplicate_names", "name_just", "ttl_just", "rdclass_just",
                  "rdtype_just", "omit_rdclass", "want_generic", "want_comments", "base64_chunk_size", "hex_chunk_size",
                  "base64_chunk_separator", "hex_chunk_separator", "txt_is_utf8", "nl", "relativize"):
        rt_req["knob:" + kname] = knob_min
    rt_req.update({"owner:hostile": 100 if q else 2000, "owner:dollar": 30 if q else 500, "owner:kind:cname": 50 if q else 1000,
                   "owner:wildcard": 20 if q else 300, "owner:ent": 20 if q else 300, "owner:kind:glue": 5 if q else 100,
                   "case-merge": 10 if q else 200, "rrsig-multi-covers": 5 if q else 100, "ttl-column-omitted": 50 if q else 1000,
                   "comment-survived": 20 if q else 300, "origin-from-$ORIGIN": 50 if q else 1000})
    # quick minima leave a wide margin below what the generator typically yields (the rarest of
    # these classes measured 29..70 per run across seeds); a starved class is a harness failure
    rw_min = 12 if q else 500
    rs_req = {"__nontrivial__": 150 if q else 3000}
    for kname in ("owner-inherit", "owner-relative", "owner-at", "origin-top", "origin-mid", "origin-back", "ttl-dollar",
                  "ttl-default", "ttl-soa-default", "ttl-inherit-last", "ttl-units", "class-omitted", "class-generic",
                  "class-ttl-order", "type-generic", "rdata-generic", "rdata-relative", "multiline", "multiline-comment",
                  "multiline-blank", "trailing-comment", "generate", "generate-modifier", "out-of-zone", "blank-line",
                  "comment-line", "mnemonic-case", "name-escape", "whitespace", "relative-under-mid-origin"):
        rs_req["rw:" + kname] = rw_min
    rs_req.update({"rw:ttl-soa-minimum": 5 if q else 80, "rw:generate-under-mid-origin": 3 if q else 50,
                   "rw:rdata-relative-under-mid-origin": 0 if q else 50, "rw:out-of-zone-inherited": 5 if q else 80,
                   "cname-conflict-refused": 30 if q else 500, "cname-conflict-refused:dnssec-type": 15 if q else 250, "origin-check-refused": 30 if q else 500,
                   "owner:hostile": 100 if q else 1500, "owner:dollar": 30 if q else 400,
                   "out-of-zone-ignored": 50 if q else 1000, "read_rrsets": 200 if q else 4000, "origin-from-file": 35 if q else 700})
    for f in _FACTORIES:
        rs_req["factory:" + f] = 300 if q else 5000
    rs_req.update({"relativize:True": 300 if q else 5000, "relativize:False": 300 if q else 5000})
    return [
        Part("roundtrip", run_roundtrip, strategy=roundtrip_cases(), n={"quick": 800, "thorough": 40000}, require=rt_req,
             shards={"quick": 8, "thorough": 16}),
        Part("respell", run_respell, strategy=respell_cases(), n={"quick": 800, "thorough": 40000}, require=rs_req,
             shards={"quick": 8, "thorough": 16}),
    ]
