"""C05  Every record type's master-file text parses back to an equal record."""

from hypothesis import strategies as st

from vlib.gen import names as G
from vlib.gen import rdata as R
from vlib.ref import wire as W
from vlib.runner import Part, Violation, exc_key

ID = "C05"
LEVEL = "exploration"
TECHNIQUE = (
    "property-based testing: records built from independent wire grammars, printed by the library "
    "under generated origin/relativize/style choices and parsed back; equality + wire identity "
    "oracle, generic (RFC 3597) form, totality of to_text()/to_wire()"
)
LEVEL_TEXT = (
    "For every implemented type and unknown types, to_text() of a generated well-formed value "
    "parses back to an equal record with identical wire, under absolute/relative rendering against "
    "an origin, lossless style knobs and the generic form; to_text() never raises for a record "
    "accepted from wire and to_wire() never raises for one accepted from text. Search, not proof."
)
RULE = (
    "cases: a record from vlib/gen/rdata.py (all octets in character-strings and names) + origin "
    "(none / ancestor of embedded names / unrelated) + relativize + style knobs (base64/hex chunk "
    "sizes, txt_is_utf8). non-trivial = text contains an escape or quoted string, or a relative "
    "name was printed, or a base64/hex field spans several chunks; distinct by SHA-1; per-type "
    "counts required"
    ' Part namelimit: 26 record text forms with a relative name of 253..257 octets (relative part + origin) under an origin.'
)
RULE += (
    " Round 9 added: odd hex/base64 chunk sizes; the generic form printed under the generated style and through chunksize=."
)
ASSUMPTIONS = [
    "well-formed value = one the type's presentation grammar can spell distinctly (grammar flag "
    "'text-lossy' marks the others: empty blobs where >=1 token is required, trailing zero octets "
    "in type bitmaps/WKS, APL families other than 1/2, empty HIP HIT/key, empty NSEC3 next hash); "
    "for those only 'to_text() does not raise' is required",
    "names printed relative to an origin come back with the origin's own spelling (case)",
]


def _style(case, origin, relativize):
    import dns.rdata

    kw = dict(origin=origin, relativize=relativize)
    kw.update(case.get("style") or {})
    return dns.rdata.RdataStyle(**kw)


def run(case):
    import dns.exception
    import dns.name
    import dns.rdata
    import dns.rdataclass
    import dns.rdatatype

    w = bytes.fromhex(case["wire"])
    rdclass, rdtype, tname = case["rdclass"], case["rdtype"], case["type"]
    flags = set(case["flags"])
    pre = []
    if "prelude_class" in case:
        # as in C02: every case starts from an empty (class, type) -> implementation cache, and may
        # first meet the type code under another class, through the text parser
        cache = getattr(dns.rdata, "_rdata_classes", None)
        if isinstance(cache, dict):
            cache.clear()
        if case["prelude_class"] is not None and case["prelude_class"] != rdclass:
            try:
                dns.rdata.from_text(case["prelude_class"], rdtype, "\\# %d %s" % (len(w), w.hex()))
            except dns.exception.DNSException:
                pass
            pre.append("other-class-first")
    try:
        rd = dns.rdata.from_wire(rdclass, rdtype, w, 0, len(w))
    except dns.exception.FormError:
        return {"nontrivial": False, "classes": ["rej:" + tname]}
    w1 = rd.to_wire()
    classes = ["acc:" + tname] + pre
    lossy = "text-lossy" in flags
    origin = None if case.get("origin") is None else dns.name.Name(G.unhexl(case["origin"]))
    relativize = bool(case.get("relativize"))

    # 3. totality: text is always producible
    try:
        t_plain = rd.to_text()
        t_styled = rd.to_styled_text(_style(case, origin, relativize))
        repr(rd)
    except Exception as e:
        raise Violation("totality", f"{tname}: to_text() raised {type(e).__name__}: {e} for wire {w.hex()}", "to_text:" + tname + ":" + type(e).__name__)
    # the legacy keyword spellings of the chunk options (to_text(chunksize=, separator=)) must be
    # accepted and mean the same as the style fields
    st0 = case.get("style") or {}
    if "base64_chunk_size" in st0 or "hex_chunk_size" in st0 or "hex_chunk_separator" in st0:
        cs = st0.get("base64_chunk_size", st0.get("hex_chunk_size", 32))
        sep = st0.get("hex_chunk_separator", " ")
        try:
            t_kw = rd.to_text(chunksize=cs, separator=sep)
            t_eq = rd.to_styled_text(dns.rdata.RdataStyle(base64_chunk_size=cs, hex_chunk_size=cs, base64_chunk_separator=sep, hex_chunk_separator=sep))
        except Exception as e:
            raise Violation("totality", f"{tname}: to_text(chunksize={cs!r}, separator={sep!r}) raised {type(e).__name__}: {e}", "to_text-keywords:" + type(e).__name__)
        if t_kw != t_eq:
            raise Violation("roundtrip", f"{tname}: to_text(chunksize={cs!r}, separator={sep!r}) gives {t_kw!r}, the equivalent style {t_eq!r}", "keywords-differ:" + tname)
        classes.append("legacy-keywords")
    if lossy:
        classes.append("text-lossy")
        # parsing the text may legitimately fail or lose information; it must only not crash
        try:
            dns.rdata.from_text(rdclass, rdtype, t_plain)
        except dns.exception.DNSException:
            pass
        return {"nontrivial": False, "classes": classes}

    def parse(text, what, **kw):
        try:
            return dns.rdata.from_text(rdclass, rdtype, text, **kw)
        except Exception as e:
            raise Violation(
                "roundtrip",
                f"{tname}: text {text!r} ({what}) of wire {w.hex()} does not parse back: {type(e).__name__}: {e}",
                f"parse:{tname}:{what.split(' ')[0]}",
            )

    def same(back, what, origin_for_wire=None, fold=False):
        # fold=True: the text was printed relative to an origin, so the origin part of a
        # name comes back in the origin's own spelling; compare modulo ASCII case
        try:
            bw = back.to_wire(origin=origin_for_wire)
        except Exception as e:
            raise Violation("totality", f"{tname}: record parsed from text ({what}) cannot be encoded: {type(e).__name__}: {e}", "to_wire:" + tname)
        if (bw.lower() != w1.lower()) if fold else (bw != w1):
            raise Violation(
                "roundtrip",
                f"{tname}: {what}: wire {w1.hex()} -> text -> wire {bw.hex()}",
                f"wire:{tname}:{what.split(' ')[0]}",
            )

    # 1a. plain
    back = parse(t_plain, "plain")
    same(back, "plain")
    if not (back == rd) or hash(back) != hash(rd):
        raise Violation("roundtrip", f"{tname}: from_text(to_text()) != original for {t_plain!r}", "neq:" + tname)
    # 1b. origin / relativize
    rel_printed = False
    if origin is not None:
        if relativize:
            back = parse(t_styled, "styled relativize=True", origin=origin, relativize=True)
            same(back, "styled relativize=True", origin, fold=True)
            back2 = parse(t_styled, "styled relativize=True, read with relativize=False", origin=origin, relativize=False)
            same(back2, "styled read-absolute", fold=True)
            if t_styled != t_plain:
                rel_printed = True
                classes.append("relative-name-printed")
                # relative record -> text -> relative record
                rrel = dns.rdata.from_wire(rdclass, rdtype, w, 0, len(w), origin)
                t3 = rrel.to_text()
                b3 = parse(t3, "relative record printed without origin", origin=origin, relativize=True)
                same(b3, "relative record", origin, fold=True)
                if not (b3 == rrel) and b3.to_wire(origin=origin) == rrel.to_wire(origin=origin):
                    raise Violation("roundtrip", f"{tname}: relative record text {t3!r} != original", "neq-relrec:" + tname)
        else:
            back = parse(t_styled, "styled relativize=False", origin=origin, relativize=False)
            same(back, "styled relativize=False")
            classes.append("derelativized")
    else:
        back = parse(t_styled, "styled")
        same(back, "styled")
    # 2. generic form
    g = rd.to_generic()
    tg = g.to_text()
    gb = parse(tg, "generic")
    same(gb, "generic")
    # ... under the generated style as well (the chunk options apply to its hex body) and through
    # the legacy chunk keywords
    tg_styled = g.to_styled_text(_style(case, origin, relativize))
    same(parse(tg_styled, "generic styled"), "generic styled")
    st1 = case.get("style") or {}
    if "hex_chunk_size" in st1:
        tg_kw = g.to_text(chunksize=st1["hex_chunk_size"])
        same(parse(tg_kw, "generic chunksize="), "generic chunksize=")
        if st1["hex_chunk_size"] % 2 == 1 and len(tg_styled.split()) > 3:
            classes.append("generic-odd-chunks")
    # 2b. relativization target different from the origin (what a zone reader passes after $ORIGIN):
    # ordinary and generic text must give the same record, with exactly the names at/below the
    # target held relative
    if origin is not None and case.get("relativize_to") and "unknown" not in flags and tname not in ("TSIG", "TKEY"):
        from vlib.props.c02 import _names_in

        ol = G.unhexl(case["origin"])
        zl = {"parent": ol[1:] if len(ol) > 1 else ol, "root": [b""], "unrelated": [b"elsewhere", b"test", b""], "same": ol}[case["relativize_to"]]
        z = dns.name.Name(zl)
        kw = dict(origin=origin, relativize=True, relativize_to=z)
        r_txt = parse(t_plain, "plain relativize_to", **kw)
        r_gen = parse(tg, "generic relativize_to", **kw)
        same(r_txt, "plain relativize_to", z, fold=True)
        same(r_gen, "generic relativize_to", z, fold=True)
        if not (r_txt == r_gen):
            raise Violation("roundtrip", f"{tname}: with origin {origin} and relativize_to {z} the generic text gives {r_gen.to_text()!r}, the ordinary text {r_txt.to_text()!r}", "relativize_to-generic:" + tname)
        zkey = W.name_key(zl)
        emitted = [G.unhexl(n) for n in case.get("names", [])]
        want_rel = sum(1 for n in emitted if W.name_key(n)[: len(zkey)] == zkey)
        for label, r in (("ordinary", r_txt), ("generic", r_gen)):
            held = _names_in(r)
            if len(held) == len(emitted) and sum(1 for n in held if not n.is_absolute()) != want_rel:
                raise Violation("roundtrip", f"{tname}: {label} text with relativize_to {z}: {want_rel} embedded names lie at/below it, record holds {held!r}", "relativize_to-count:" + tname)
        classes.append("relativize_to:" + case["relativize_to"])
    if "unknown" in flags:
        if type(gb) is not dns.rdata.GenericRdata:
            raise Violation("generic", f"unknown type {rdtype} parsed as {type(gb).__name__}", "generic-class")
    elif type(gb) is dns.rdata.GenericRdata or not (gb == rd):
        raise Violation("generic", f"{tname}: generic text {tg!r} does not give back the typed record", "generic-neq:" + tname)
    # TYPEnnn / CLASSnnn mnemonics
    try:
        mb = dns.rdata.from_text(f"CLASS{rdclass}", f"TYPE{rdtype}", t_plain)
    except Exception as e:
        raise Violation("generic", f"{tname}: CLASS{rdclass}/TYPE{rdtype} mnemonics not accepted: {type(e).__name__}: {e}", "mnemonic:" + tname)
    same(mb, "mnemonic")
    nontrivial = ("\\" in t_plain) or ('"' in t_plain) or rel_printed
    st_ = case.get("style") or {}
    if st_.get("base64_chunk_size") in (1, 3, 4, 5) or st_.get("hex_chunk_size") in (1, 2, 3, 7):
        if len(t_styled.split()) > len(t_plain.split()):
            nontrivial = True
            classes.append("multi-chunk")
    if "\\" in t_plain:
        classes.append("escape")
    return {"nontrivial": nontrivial, "classes": classes}


@st.composite
def cases(draw, types):
    tname = R.type_choice(draw, types)
    origin = None
    ctx = {}
    k = draw(st.integers(0, 3))
    if k == 0:
        origin = draw(G.abs_name(max_wire=30))
        ctx["origin"] = origin
    elif k == 1:
        origin = draw(st.sampled_from([[b""], [b"unrelated", b"zone", b""], [b"com", b""]]))
    case = draw(R.record(ctx=ctx, name=tname))
    case["origin"] = None if origin is None else G.hexl(origin)
    case["relativize"] = draw(st.booleans())
    case["relativize_to"] = draw(st.sampled_from([None, None, "parent", "parent", "root", "unrelated", "same"]))
    case["prelude_class"] = draw(st.sampled_from([None, None, None, None, 3, 4, 0xFE00]))
    style = {}
    if draw(st.booleans()):
        style["base64_chunk_size"] = draw(st.sampled_from([0, 1, 3, 4, 5, 32, 57]))
    if draw(st.booleans()):
        style["hex_chunk_size"] = draw(st.sampled_from([0, 1, 2, 3, 7, 21, 128]))
    if draw(st.integers(0, 3)) == 0:
        style["txt_is_utf8"] = True
    if draw(st.integers(0, 5)) == 0:
        style["base64_chunk_separator"] = "  "
        style["hex_chunk_separator"] = "\t"
    case["style"] = style
    return case


# ---------------------------------------------------------------------------
# text the library did not produce: numeric tokens of a printed record replaced by boundary
# values.  Whatever from_text accepts must be encodable and must itself round-trip.

_NUMS = ["0", "1", "255", "256", "65535", "65536", "2147483647", "2147483648", "4294967295",
         "4294967296", "281474976710655", "281474976710656", "99999999999999", "-1", "00", "007",
         "0.29", "0.57", "1.15", "-0.29", "42849672.95", "42849672.96", "-100000.00", "-100000.01",
         "99999999.99m", "-200000m", "90", "91", "180", "181", "59", "60", "59.999", "60.000",
         "1h", "1w1d", "4294967295s", "20380119031407", "19700101000000", "99991231235959",
         "TYPE65535", "TYPE65536", "NSEC", "A", "CLASS255"]


def run_textmut(case):
    import dns.exception
    import dns.name
    import dns.rdata

    w = bytes.fromhex(case["wire"])
    rdclass, rdtype, tname = case["rdclass"], case["rdtype"], case["type"]
    try:
        rd = dns.rdata.from_wire(rdclass, rdtype, w, 0, len(w))
    except dns.exception.FormError:
        return {"nontrivial": False, "classes": ["rej:" + tname]}
    if "text-lossy" in case["flags"]:
        return {"nontrivial": False, "classes": ["text-lossy"]}
    toks = rd.to_text().split(" ")
    idxs = [i for i, t in enumerate(toks) if t and not t.startswith('"')]
    if not idxs:
        return {"nontrivial": False, "classes": ["no-token"]}
    for pos, rep in case["muts"]:
        if rep < 0:
            # swap two tokens (SVCB parameters may come in any order; elsewhere this is
            # usually rejected or means something else, the oracle below holds either way)
            i = idxs[pos % len(idxs)]
            j = idxs[(pos - rep) % len(idxs)]
            toks[i], toks[j] = toks[j], toks[i]
        else:
            toks[idxs[pos % len(idxs)]] = _NUMS[rep % len(_NUMS)]
    text = " ".join(toks)
    try:
        # a replaced name token may now be relative: read everything against the root
        m = dns.rdata.from_text(rdclass, rdtype, text, origin=dns.name.root, relativize=False)
    except dns.exception.DNSException:
        return {"nontrivial": False, "classes": ["mut-rejected"]}
    # accepted from text => encodable, decodable, printable, and a fixed point
    try:
        mw = m.to_wire()
    except Exception as e:
        raise Violation("totality", f"{tname}: from_text accepted {text!r} but to_wire() raised {type(e).__name__}: {e}", "to_wire:" + tname + ":" + type(e).__name__)
    if len(mw) > 65535:
        raise Violation("totality", f"{tname}: from_text accepted {text!r}, whose RDATA is {len(mw)} octets: it cannot be encoded in a record (RDLENGTH is 16 bits)", "rdata-too-long:" + tname)
    try:
        back = dns.rdata.from_wire(rdclass, rdtype, mw, 0, len(mw))
    except dns.exception.DNSException as e:
        raise Violation("totality", f"{tname}: from_text accepted {text!r}; its wire {mw.hex()} is rejected: {e!r}", "wire-rejected:" + tname)
    if back != m:
        raise Violation("roundtrip", f"{tname}: text {text!r} -> record -> wire -> record differs", "text-wire:" + tname)
    if (tname == "TKEY" and len(m.key) == 0) or (tname == "TSIG" and len(m.mac) == 0) or (tname == "HIP" and (len(m.key) == 0 or len(m.hit) == 0)):
        # same scoping as the grammar's "text-lossy" flag: these text forms cannot spell an empty
        # key / MAC / HIT (base64 decoding of a junk token such as "." yields one)
        try:
            m.to_text()
        except Exception as e:
            raise Violation("totality", f"{tname}: accepted {text!r} but to_text() raised {type(e).__name__}: {e}", "to_text:" + tname)
        return {"nontrivial": False, "classes": ["mut-accepted", "text-lossy"]}
    try:
        t2 = m.to_text()
        m2 = dns.rdata.from_text(rdclass, rdtype, t2)
    except Exception as e:
        raise Violation("roundtrip", f"{tname}: accepted {text!r}; its own text does not parse back: {type(e).__name__}: {e}", "reparse:" + tname)
    if m2 != m or m2.to_wire() != mw:
        raise Violation("roundtrip", f"{tname}: accepted {text!r}; printed {t2!r} parses to a different record", "text-text:" + tname)
    return {"nontrivial": text != rd.to_text(), "classes": ["mut-accepted", "mutacc:" + tname]}


@st.composite
def textmut_cases(draw, types):
    tname = R.type_choice(draw, types)
    case = draw(R.record(ctx={}, name=tname))
    rep = st.integers(0, len(_NUMS) - 1)
    if tname in ("SVCB", "HTTPS") or draw(st.integers(0, 9)) == 0:
        rep = st.one_of(rep, st.integers(-3, -1), st.integers(-3, -1))
    case["muts"] = draw(st.lists(st.tuples(st.integers(0, 12), rep), min_size=1, max_size=2).map(lambda l: [list(x) for x in l]))
    return case


# ---------------------------------------------------------------------------
# equivalent spellings of the same value (text the library did not produce) must parse to an
# equal record: quoted strings with any mix of literal / \\DDD spellings, names with \\DDD
# labels, trailing hex/base64 fields in other chunkings and (hex) upper case

_NAME_TOKENS = {"NS": [0], "CNAME": [0], "PTR": [0], "DNAME": [0], "NSAP_PTR": [0], "MX": [1], "AFSDB": [1], "RT": [1], "KX": [1],
                "LP": [1], "SRV": [3], "SOA": [0, 1], "RP": [0, 1], "PX": [1, 2], "NAPTR": [5], "NSEC": [0], "DSYNC": [3], "CH_A": [0]}
_TRAILING_HEX = {"DS", "CDS", "DLV", "TLSA", "SMIMEA", "SSHFP", "ZONEMD"}
_TRAILING_B64 = {"DNSKEY", "CDNSKEY", "RRSIG", "SIG", "CERT", "OPENPGPKEY", "DHCID", "HHIT", "BRID"}


def _split_tokens(text):
    """split the library's own output into tokens; quoted strings come back as bytes"""
    toks = []
    i = 0
    n = len(text)
    while i < n:
        if text[i] == " ":
            i += 1
            continue
        if text[i] == '"':
            i += 1
            b = bytearray()
            while text[i] != '"':
                if text[i] == "\\":
                    if text[i + 1].isdigit():
                        b.append(int(text[i + 1 : i + 4]))
                        i += 4
                    else:
                        b += text[i + 1].encode("latin1")
                        i += 2
                else:
                    b += text[i].encode("utf-8")
                    i += 1
            i += 1
            toks.append(bytes(b))
        else:
            j = i
            while j < n and text[j] != " ":
                j += 2 if text[j] == "\\" and not text[j + 1 : j + 2].isdigit() else 1
            toks.append(text[i:j])
            i = j
    return toks


def _spell_quoted(b, choices):
    out = ['"']
    for k, c in enumerate(b):
        esc = choices[k % len(choices)]
        if c in (0x22, 0x5C):
            out.append("\\" + chr(c) if esc % 2 == 0 else "\\%03d" % c)
        elif 0x20 <= c < 0x7F and esc % 3 != 0:
            out.append(chr(c))
        else:
            out.append("\\%03d" % c)
    out.append('"')
    return "".join(out)


def _spell_name(tok, choices):
    """re-spell a name token produced by the library: some literal characters become \\DDD"""
    if tok in ("@", "."):
        return tok
    out = []
    i = 0
    k = 0
    while i < len(tok):
        ch = tok[i]
        if ch == "\\":
            if tok[i + 1].isdigit():
                out.append(tok[i : i + 4])
                i += 4
            else:
                out.append("\\%03d" % ord(tok[i + 1]) if choices[k % len(choices)] % 2 else tok[i : i + 2])
                i += 2
        elif ch == ".":
            out.append(ch)
            i += 1
        else:
            out.append("\\%03d" % ord(ch) if choices[k % len(choices)] % 4 == 0 else ch)
            i += 1
        k += 1
    return "".join(out)


def run_respell(case):
    import dns.exception
    import dns.rdata

    w = bytes.fromhex(case["wire"])
    rdclass, rdtype, tname = case["rdclass"], case["rdtype"], case["type"]
    if "text-lossy" in case["flags"]:
        return {"nontrivial": False, "classes": ["text-lossy"]}
    try:
        rd = dns.rdata.from_wire(rdclass, rdtype, w, 0, len(w))
    except dns.exception.FormError:
        return {"nontrivial": False, "classes": ["rej:" + tname]}
    text = rd.to_text()
    try:
        toks = _split_tokens(text)
    except (IndexError, ValueError):
        return {"nontrivial": False, "classes": ["untokenizable"]}
    ch = case["choices"]
    classes = []
    out = []
    changed = False
    for i, t in enumerate(toks):
        if isinstance(t, bytes):
            s = _spell_quoted(t, ch)
            classes.append("quoted")
        elif i in _NAME_TOKENS.get(tname, ()):
            s = _spell_name(t, ch)
            classes.append("name")
        else:
            s = t
        out.append(s)
    last_from = None
    if tname in _TRAILING_HEX | _TRAILING_B64 and toks and not isinstance(toks[-1], bytes):
        # find the start of the trailing blob (the library prints it in chunks)
        fixed = {"DS": 3, "CDS": 3, "DLV": 3, "TLSA": 3, "SMIMEA": 3, "SSHFP": 2, "ZONEMD": 3, "DNSKEY": 3, "CDNSKEY": 3, "RRSIG": 8, "SIG": 8,
                 "CERT": 3, "OPENPGPKEY": 0, "DHCID": 0, "HHIT": 0, "BRID": 0}[tname]
        blob = "".join(out[fixed:])
        if blob:
            if tname in _TRAILING_HEX and ch[0] % 2:
                blob = blob.upper()
            k = 1 + ch[1] % 7
            out = out[:fixed] + [blob[j : j + k] for j in range(0, len(blob), k)]
            classes.append("rechunked")
    new = " ".join(out)
    if new == text:
        return {"nontrivial": False, "classes": ["unchanged"]}
    try:
        back = dns.rdata.from_text(rdclass, rdtype, new)
    except Exception as e:
        raise Violation("respell", f"{tname}: equivalent spelling {new[:200]!r} of {text[:200]!r} does not parse: {type(e).__name__}: {e}", f"respell-parse:{tname}")
    if back != rd or back.to_wire() != rd.to_wire():
        raise Violation("respell", f"{tname}: equivalent spelling {new[:200]!r} of {text[:200]!r} parses to a different record: {back.to_wire().hex()} vs {rd.to_wire().hex()}", f"respell-differs:{tname}")
    return {"nontrivial": True, "classes": sorted(set(classes)) + ["respelled"]}


@st.composite
def respell_cases(draw, types):
    tname = R.type_choice(draw, types)
    case = draw(R.record(ctx={}, name=tname))
    case["choices"] = draw(st.lists(st.integers(0, 11), min_size=2, max_size=12))
    return case


@st.composite
def unknown_cases(draw):
    case = draw(R.unknown_record())
    case["origin"] = None
    case["relativize"] = False
    case["style"] = {}
    return case


TEXT_TYPES = [t for t in R.ALL_TYPES if t not in ("OPT",)]



# ---------------------------------------------------------------------------
# name-length limit through the text path: a relative name in a record's text only reaches its full
# length when the origin is appended

_NAME_FORMS = [
    ("NS", "{n}"), ("CNAME", "{n}"), ("PTR", "{n}"), ("DNAME", "{n}"), ("MX", "10 {n}"), ("KX", "10 {n}"),
    ("RT", "10 {n}"), ("AFSDB", "1 {n}"), ("LP", "10 {n}"), ("SRV", "1 2 3 {n}"), ("RP", "{n} {m}"), ("RP", "{m} {n}"),
    ("SOA", "{n} {m} 1 2 3 4 5"), ("SOA", "{m} {n} 1 2 3 4 5"), ("NSEC", "{n} A NS"), ("PX", "1 {n} {m}"), ("PX", "1 {m} {n}"),
    ("RRSIG", "A 8 2 300 20200101000000 20190101000000 1 {n} AQID"), ("SVCB", "1 {n}"), ("HTTPS", "0 {n}"),
    ("NAPTR", '1 1 "" "" "" {n}'), ("DSYNC", "CDS NOTIFY 53 {n}"), ("AMTRELAY", "10 0 3 {n}"), ("IPSECKEY", "10 3 2 {n} AQID"),
    ("HIP", "2 200100107B1A74DF365639CC39F1D578 AQID {n}"), ("HIP", "2 200100107B1A74DF365639CC39F1D578 AQID {m} {n}"),
]


def run_namelimit(case):
    import dns.exception
    import dns.name
    import dns.rdata

    tname, form = _NAME_FORMS[case["form"]]
    origin_labels = G.unhexl(case["origin"])
    origin = dns.name.Name(origin_labels)
    rel = G.unhexl(case["rel"])
    full = G.wire_len(rel) + G.wire_len(origin_labels)
    from vlib.ref import zonefile_writer as ZW

    text = form.format(n=ZW.rel_text(rel), m="m")
    rdtype = R.TYPECODES[tname]
    classes = ["full:%d" % full if 253 <= full <= 257 else ("full<253" if full < 253 else "full>257"), "nl:" + tname]
    try:
        rd = dns.rdata.from_text(1, rdtype, text, origin=origin, relativize=case["relativize"])
    except dns.exception.DNSException as e:
        if full <= 255:
            raise Violation("namelimit", f"{tname}: text with a name of {full} octets under the origin is refused: {type(e).__name__}: {e}", "refused:" + tname)
        return {"nontrivial": True, "classes": classes + ["too-long-refused"]}
    # accepted from text => encodable, printable absolute, and a fixed point
    try:
        w = rd.to_wire(origin=origin)
    except Exception as e:
        raise Violation("totality", f"{tname}: from_text accepted a name of {full} octets under the origin (relativize={case['relativize']}) but to_wire(origin) raised {type(e).__name__}", "namelimit-to_wire:" + tname)
    try:
        rd.to_text(origin=origin, relativize=False)
        rd.to_text(origin=origin, relativize=True)
    except Exception as e:
        raise Violation("totality", f"{tname}: from_text accepted a name of {full} octets under the origin but to_text raised {type(e).__name__}", "namelimit-to_text:" + tname)
    if full > 255:
        raise Violation("namelimit", f"{tname}: a name of {full} octets (relative part + origin) was accepted", "accepted-too-long:" + tname)
    back = dns.rdata.from_wire(1, rdtype, w, 0, len(w), origin if case["relativize"] else None)
    if back != rd:
        raise Violation("roundtrip", f"{tname}: record with a {full}-octet name differs after text -> wire -> record", "namelimit-roundtrip:" + tname)
    return {"nontrivial": full >= 250, "classes": classes + ["accepted"]}


@st.composite
def namelimit_cases(draw):
    form = draw(st.integers(0, len(_NAME_FORMS) - 1))
    origin = draw(st.one_of(st.just([b"example", b""]), st.just([b""]), G.abs_name(max_wire=40)))
    full = draw(st.sampled_from([253, 254, 255, 255, 256, 256, 257, 300, 100]))
    room = full - G.wire_len(origin)
    rel = draw(G.long_rel_labels(target=room)) if room >= 2 else [b"a"]
    return {"form": form, "origin": G.hexl(origin), "rel": G.hexl(rel), "relativize": draw(st.booleans())}



# ---------------------------------------------------------------------------
# fields with a 16-bit length prefix: a value accepted from text must be encodable


def fieldlimit_cases():
    out = []
    for form in ("TKEY.key", "TKEY.other", "TSIG.mac", "TSIG.other", "HIP.key", "HIP.hit"):
        for n in (255, 256, 65535, 65536, 70000):
            out.append({"form": form, "n": n})
    # a numeric field whose range is set by the wire width: LOC altitude is (cm + 10^7) in 32 bits
    lo, hi = -10_000_000, 2**32 - 1 - 10_000_000
    for cm in (lo, lo - 1, lo + 1, 0, -1, hi, hi - 1, hi + 1, hi + 10_000_000, hi + 10_000_001, 2**32, 2**32 - 1, 10**12):
        out.append({"form": "LOC.altitude", "n": cm})
    return out


def run_fieldlimit(case):
    import base64

    import dns.exception
    import dns.rdata

    n = case["n"]
    if case["form"] == "LOC.altitude":
        sign = "-" if n < 0 else ""
        text = f"10 0 0.000 N 20 0 0.000 E {sign}{abs(n) // 100}.{abs(n) % 100:02d}m 1m 10000m 10m"
        fits = 0 <= n + 10_000_000 <= 2**32 - 1
        try:
            rd = dns.rdata.from_text(1, 29, text)
        except dns.exception.DNSException:
            if fits:
                raise Violation("fieldlimit", f"LOC altitude {n} cm fits the 32-bit field but the text {text!r} was refused", "refused:LOC.altitude")
            return {"nontrivial": True, "classes": ["fl-refused", "fl-loc-refused"]}
        try:
            w = rd.to_wire()
            rd.to_generic().to_text()
        except Exception as e:
            raise Violation("totality", f"LOC: from_text accepted an altitude of {n} cm ({text!r}) but encoding raised {type(e).__name__}: {e}", "fieldlimit:LOC.altitude")
        if not fits:
            raise Violation("fieldlimit", f"LOC: an altitude of {n} cm was accepted although the 32-bit field cannot express it", "accepted:LOC.altitude")
        back = dns.rdata.from_wire(1, 29, w, 0, len(w))
        if back != rd or dns.rdata.from_text(1, 29, back.to_text()) != rd:
            raise Violation("roundtrip", f"LOC: altitude {n} cm differs after text -> wire -> record -> text", "fieldlimit-roundtrip:LOC.altitude")
        return {"nontrivial": True, "classes": ["fl-accepted", "fl-loc-accepted"]}
    blob = bytes((i * 7 + 3) & 0xFF for i in range(n))
    b64 = base64.b64encode(blob).decode()
    small = "AQID"
    form = case["form"]
    tname = form.split(".")[0]
    text = {
        "TKEY.key": f"alg. 1 2 3 0 {b64}",
        "TKEY.other": f"alg. 1 2 3 0 {small} {b64}",
        "TSIG.mac": f"hmac-sha256. 1 300 {n} {b64} 1 0 0",
        "TSIG.other": f"hmac-sha256. 1 300 3 {small} 1 0 {n} {b64}",
        "HIP.key": f"2 200100107B1A74DF365639CC39F1D578 {b64}",
        "HIP.hit": f"2 {blob.hex()} {small}",
    }[form]
    rdclass = 255 if tname in ("TKEY", "TSIG") else 1
    rdtype = R.TYPECODES[tname]
    limit = 255 if form == "HIP.hit" else 65535
    try:
        rd = dns.rdata.from_text(rdclass, rdtype, text)
    except dns.exception.DNSException:
        if n <= limit:
            raise Violation("fieldlimit", f"{form}: a value of {n} octets (limit {limit}) was refused", "refused:" + form)
        return {"nontrivial": True, "classes": ["fl-refused"]}
    try:
        w = rd.to_wire()
        rd.to_text()
    except Exception as e:
        raise Violation("totality", f"{form}: from_text accepted a field of {n} octets but encoding raised {type(e).__name__}: {e}", "fieldlimit:" + form)
    if n > limit:
        raise Violation("fieldlimit", f"{form}: a field of {n} octets was accepted although its length prefix cannot express it", "accepted:" + form)
    back = dns.rdata.from_wire(rdclass, rdtype, w, 0, len(w))
    if back != rd:
        raise Violation("roundtrip", f"{form}: record with a {n}-octet field differs after text -> wire -> record", "fieldlimit-roundtrip:" + form)
    return {"nontrivial": True, "classes": ["fl-accepted"]}


def parts(tier):
    per_type = {"quick": 30, "thorough": 300}[tier]
    req = {("acc:" + t): per_type for t in TEXT_TYPES}
    req.update({"other-class-first": 1000, "legacy-keywords": 2000, "relativize_to:parent": 300, "relativize_to:root": 100, "relative-name-printed": 200, "derelativized": 200, "escape": 500, "multi-chunk": 100, "generic-odd-chunks": 1500, "text-lossy": 50})
    n_types = len(TEXT_TYPES)
    return [
        Part("text", run, strategy=cases(TEXT_TYPES), n={"quick": 400 * n_types, "thorough": 5000 * n_types},
             require=req, shards={"quick": 16, "thorough": 16}),
        Part("unknown", run, strategy=unknown_cases(), n={"quick": 1500, "thorough": 30000},
             shards={"quick": 2, "thorough": 4}),
        Part("respell", run_respell, strategy=respell_cases(sorted(set(_NAME_TOKENS) | _TRAILING_HEX | _TRAILING_B64 | {"TXT", "SPF", "HINFO", "X25", "ISDN", "CAA", "URI", "NAPTR", "AVC", "WALLET", "NINFO", "RESINFO", "GPOS"})),
             n={"quick": 6000, "thorough": 200000}, require={"quoted": 300, "name": 500, "rechunked": 300, "respelled": 1500},
             shards={"quick": 8, "thorough": 16}),
        Part("textmut", run_textmut, strategy=textmut_cases(TEXT_TYPES), n={"quick": 300 * n_types, "thorough": 4000 * n_types},
             require={"mut-accepted": 2000, "mut-rejected": 2000}, shards={"quick": 16, "thorough": 16}),
        Part("fieldlimit", run_fieldlimit, cases=fieldlimit_cases, shards={"quick": 4, "thorough": 4},
             require={"fl-accepted": 10, "fl-refused": 10, "fl-loc-accepted": 6, "fl-loc-refused": 7}),
        Part("namelimit", run_namelimit, strategy=namelimit_cases(), n={"quick": 3000, "thorough": 60000},
             require={"full:255": 300, "full:256": 100, "accepted": 500, "too-long-refused": 250}, shards={"quick": 4, "thorough": 8}),
    ]
