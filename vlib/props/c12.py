"""C12  Versioned-zone writers are serialized, FIFO and deadlock-free in every schedule.

Schedule search with the harness owning the schedule (DESIGN.md sections 2.3 and C12): real
threads run the real ``dns.versioned.Zone`` under the cooperative controller of
``vlib/sched/controller.py``; ``dns.versioned.threading`` is rebound to the controller's shim
for the duration of a case; every shim Lock/Event operation and every line of the
admission/commit code is a yield point; the schedule integer list is part of the case.

SCOPING (decisions that keep the oracle sound on the unchanged tree)

* "the order they started waiting" (arrival) is the moment a thread FIRST HOLDS the version
  lock inside ``Zone.writer()`` (its first critical section: it is either admitted there or
  enqueues its event there).  A thread that has called ``writer()`` but has not yet got the
  lock has not started waiting; two such threads are unordered.  Admission is observed as
  "``writer()`` returned"; because at most one transaction is open, the order of returns is
  the order of the in-lock admissions.
* a write transaction is "open" from the return of ``writer()`` until the thread takes the
  version lock inside commit()/rollback() (the critical section that clears ``_write_txn``);
  the harness-side "commit returned" position is NOT used (the next writer may legitimately
  be admitted before the previous thread gets to run again).
* a ``zone.reader()`` snapshot is the version that was newest at the reader's critical
  section inside ``reader()`` (not at the call or at the return).  Lock-free reads through
  the zone object (``zone.get_rdataset``) are only required to equal SOME committed prefix
  between "commits whose critical section had ended at the call" and "commits whose critical
  section had started at the return".
* a commit of a transaction that changed nothing creates no version (documented dnspython
  behaviour, C11): it is modelled as a rollback.
* bounded liveness: after the schedule list is exhausted the controller runs round-robin;
  "no runnable thread while one is unfinished" is a deadlock; a run that needs more than
  len(schedule) + 400 yield points per program step is reported as a liveness violation
  (the unchanged tree needs < 60 per step).
"""

from hypothesis import strategies as st

from vlib.runner import Part, Violation

ID = "C12"
LEVEL = "exploration"
TECHNIQUE = (
    "property-based testing: Hypothesis-generated thread programs and schedule integer lists "
    "executed by a cooperative schedule controller (shim threading.Lock/Event + sys.settrace "
    "line preemption) against the real dns.versioned.Zone; oracles over the recorded event log"
)
LEVEL_TEXT = (
    "Schedule search: in every explored interleaving (yield points at every lock/event "
    "operation and every line of writer()/commit/rollback/reader()) at most one write "
    "transaction was open, admissions followed arrival order, every thread finished under a "
    "fair completion, the zone equalled the serial application in admission order and readers "
    "saw exactly a committed prefix without ever waiting on an event.  Search, not coverage "
    "of all schedules; not a proof."
)
RULE = (
    "case = 2-5 writer programs (1-2 transactions each: writer() -> 0-3 uniquely tagged adds "
    "-> commit | rollback | raise inside with | with-exit commit) + 0-3 reader programs (1-3 "
    "reads: zone.reader() snapshot or lock-free zone.get_rdataset) + a schedule list of 0-400 "
    "integers (choice = schedule[i] mod #runnable at every yield point with >=2 runnable "
    "threads, then round-robin); non-trivial = >=1 writer had to wait on an event (contention) "
    "and >=1 context switch was taken between two lines of Zone.writer(); distinct by SHA-1 "
    "of the case"
)
RULE += (
    " Round 9 added: every other writer thread rewrites one long-lived Rdataset object in place and hands it to replace() in each transaction."
)
ASSUMPTIONS = [
    "interleavings are explored at lock/event operations and at line granularity of the "
    "anchored functions under a cooperative controller; preemption inside C-level calls "
    "(deque/dict methods) is atomic under the GIL and not modelled",
    "arrival = first hold of the version lock inside writer(); admission = writer() returns; "
    "a transaction is open until the critical section of its commit/rollback begins",
    "liveness is decided in bounded form: round-robin completion after the schedule list, "
    "deadlock = no runnable thread, step bound = len(schedule) + 400 per program step",
    "vlib/sched/controller.py (the shim Lock/Event semantics) is the trusted base",
]


class _Boom(Exception):
    pass


_TRACED = (
    "writer", "_maybe_wakeup_one_waiter_unlocked", "_end_write_unlocked", "_end_write",
    "_commit_version_unlocked", "_commit_version", "reader", "_end_read",
    "_prune_versions_unlocked", "_get_next_version_id",
)


def _codes():
    import dns.versioned
    import dns.zone

    Z = dns.versioned.Zone
    codes = [getattr(Z, n).__code__ for n in _TRACED]
    codes.append(dns.zone.Transaction._setup_version.__code__)
    codes.append(dns.zone.Transaction._end_transaction.__code__)
    codes.append(dns.zone.WritableVersion.__init__.__code__)
    return codes


def _tags_of(rds):
    if rds is None:
        return frozenset()
    return frozenset(rd.strings[0].decode() for rd in rds)


def run(case):
    import dns.name
    import dns.rdata
    import dns.rdataclass
    import dns.rdataset
    import dns.rdatatype
    import dns.versioned

    from vlib.sched.controller import Controller

    writers = case["writers"]
    readers = case["readers"]
    schedule = case["schedule"]
    TXT = dns.rdatatype.TXT
    IN = dns.rdataclass.IN
    apex = dns.name.empty
    last_name = dns.name.from_text("last", None)

    def txt(s):
        return dns.rdata.from_text(IN, TXT, '"' + s + '"')

    nreq = sum(len(w) for w in writers)
    nreads = sum(len(r) for r in readers)
    nsteps = sum(len(w) * 2 + sum(t["adds"] for t in w) for w in writers) + 3 * nreads
    max_steps = len(schedule) + 400 * (nsteps + 1) + 1000

    req = {}  # (thread, j) -> record
    reads = []  # records of reader observations
    flags = {"contention": False, "waiters_max": 0}
    problems = []  # protocol violations noticed by the observer (raised after the run)
    state = {}

    def observer(kind, tid, obj):
        zone = state.get("zone")
        if zone is None:
            return
        ts = ctrl.thread_state(tid)
        ph = ts.get("phase")
        pos = len(ctrl.log) - 1
        if kind == "acq" and obj is zone._version_lock:
            if ph is None:
                return
            if ph[0] == "writer_call":
                r = req[(tid, ph[1])]
                if r["arrive"] is None:
                    r["arrive"] = pos
                    # newcomer arriving between the wake-up set() and the woken thread
                    # re-taking the lock: nobody writes, but the right to write is taken
                    if zone._write_txn is None and zone._write_event is not None:
                        r["in_wake_window"] = True
            elif ph[0] == "ending":
                r = req[(tid, ph[1])]
                if r["end_acq"] is None:
                    r["end_acq"] = pos
                    r["waiters_at_end"] = len(zone._write_waiters)
            elif ph[0] == "reader_call":
                rd = ph[1]
                if rd["open_acq"] is None:
                    rd["open_acq"] = pos
                    rd["during_write"] = zone._write_txn is not None
            flags["waiters_max"] = max(flags["waiters_max"], len(zone._write_waiters))
        elif kind == "rel" and obj is zone._version_lock:
            if ph is not None and ph[0] == "ending":
                r = req[(tid, ph[1])]
                if r["end_rel"] is None and r["end_acq"] is not None:
                    r["end_rel"] = pos
        elif kind == "ev-wait":
            flags["contention"] = True
            if ctrl.held(tid) > 0:
                problems.append(("wait-holding-lock", f"thread {tid} calls Event.wait() while holding a lock"))
            if tid >= len(writers):
                problems.append(("reader-waits-on-event", f"reader thread {tid} waits on an event"))
            elif ph is not None and ph[0] == "writer_call":
                req[(tid, ph[1])]["waited"] = True

    ctrl = Controller(schedule, _codes(), max_steps=max_steps, observer=observer)

    def read_view(get):
        return (_tags_of(get(apex, TXT)), _tags_of(get(last_name, TXT)))

    def writer_prog(t, prog):
        rdatas = [[txt(f"w{t}t{j}a{k}") for k in range(tx["adds"])] for j, tx in enumerate(prog)]
        names = [[dns.name.from_text(f"w{t}t{j}a{k}", None) for k in range(tx["adds"])] for j, tx in enumerate(prog)]
        # every other writer thread keeps ONE Rdataset object for the `last` name for its whole life,
        # rewrites it in place inside each transaction and hands it to replace(): what a committed
        # version (and any reader) shows must not follow the object the application still holds
        held = dns.rdataset.Rdataset(IN, TXT, ttl=300) if t % 2 == 0 else None
        nheld = [0]

        def body(j, tx, txn, r, ts):
            zone = state["zone"]
            r["admit"] = ctrl.note("admit", (t, j))
            ts["phase"] = ("in_txn", j)
            if zone._write_txn is not txn:
                raise Violation("mutual-exclusion", "zone._write_txn is not the transaction writer() just returned", "write_txn-overwritten")
            r["vid"] = txn.version.id
            r["seen"] = read_view(txn.get)
            for k in range(tx["adds"]):
                ctrl.pause()
                txn.add(apex, 300, rdatas[j][k])
                txn.add(names[j][k], 300, rdatas[j][k])
            if tx["adds"]:
                if held is not None:
                    held.clear()
                    held.add(rdatas[j][-1], 300)
                    txn.replace(last_name, held)
                    nheld[0] += 1
                    if nheld[0] >= 2:
                        flags["held_reused"] = True
                else:
                    txn.replace(last_name, 300, rdatas[j][-1])
            ctrl.pause()
            if zone._write_txn is not txn:
                raise Violation("mutual-exclusion", "zone._write_txn changed while the transaction was open", "write_txn-overwritten")
            ts["phase"] = ("ending", j)
            r["end_begin"] = ctrl.note("end_begin", (t, j))

        def f():
            zone = state["zone"]
            ts = ctrl.thread_state()
            for j, tx in enumerate(prog):
                r = req[(t, j)]
                ts["phase"] = ("writer_call", j)
                r["call"] = ctrl.note("call_writer", (t, j))
                end = tx["end"]
                if end in ("with", "raise"):
                    try:
                        with zone.writer() as txn:
                            body(j, tx, txn, r, ts)
                            if end == "raise":
                                raise _Boom()
                    except _Boom:
                        pass
                else:
                    txn = zone.writer()
                    body(j, tx, txn, r, ts)
                    if end == "commit":
                        txn.commit()
                    else:
                        txn.rollback()
                ts["phase"] = None
                ctrl.note("end_done", (t, j))
                ctrl.pause()

        return f

    def reader_prog(t, prog):
        def f():
            zone = state["zone"]
            ts = ctrl.thread_state()
            for k, how in enumerate(prog):
                rd = {"thread": t, "k": k, "how": how, "open_acq": None, "during_write": False}
                reads.append(rd)
                if how == "txn":
                    ts["phase"] = ("reader_call", rd)
                    rd["call"] = ctrl.note("call_reader", (t, k))
                    with zone.reader() as rtxn:
                        ts["phase"] = ("reading",)
                        ctrl.pause()
                        rd["view"] = read_view(rtxn.get)
                        rd["vid"] = rtxn.version.id
                        ctrl.pause()
                        rd["view2"] = read_view(rtxn.get)
                        ts["phase"] = ("reader_close",)
                    ts["phase"] = None
                else:
                    rd["call"] = ctrl.note("call_direct", (t, k))
                    a = _tags_of(zone.get_rdataset(apex, TXT))
                    rd["mid"] = len(ctrl.log)
                    ctrl.pause()
                    b = _tags_of(zone.get_rdataset(last_name, TXT))
                    rd["ret"] = ctrl.note("ret_direct", (t, k))
                    rd["view_a"] = a
                    rd["view_b"] = b
                ctrl.pause()

        return f

    with ctrl.bind(dns.versioned):
        zone = dns.versioned.Zone("example.")
        with zone.writer() as txn:
            txn.add(apex, 300, dns.rdata.from_text(IN, dns.rdatatype.SOA, ". . 1 2 3 4 5"))
            txn.add(apex, 300, txt("init"))
            txn.add(last_name, 300, txt("init"))
        init_vid = zone._versions[-1].id
        state["zone"] = zone
        for t, prog in enumerate(writers):
            for j, tx in enumerate(prog):
                req[(t, j)] = {
                    "t": t, "j": j, "tx": tx, "call": None, "arrive": None, "admit": None,
                    "end_begin": None, "end_acq": None, "end_rel": None, "vid": None,
                    "seen": None, "waited": False, "in_wake_window": False, "waiters_at_end": 0,
                }
            ctrl.spawn(writer_prog(t, prog), f"W{t}")
        for i, prog in enumerate(readers):
            ctrl.spawn(reader_prog(len(writers) + i, prog), f"R{i}")
        res = ctrl.run()
        state["zone"] = None

        # ---- thread exceptions first (a crash in one thread usually strands the others)
        for _tid, exc in res.exceptions:
            if isinstance(exc, Violation):
                raise exc
        for _tid, exc in res.exceptions:
            raise exc
        for key, msg in problems:
            clause = "readers" if key.startswith("reader") or key == "wait-holding-lock" else "protocol"
            raise Violation(clause, msg, key)
        if res.outcome == "deadlock":
            raise Violation(
                "deadlock",
                f"no runnable thread; wait-for: {res.waitfor}; waiters queued: {len(zone._write_waiters)}; "
                f"write_txn open: {zone._write_txn is not None}",
                "deadlock",
                detail=_tail(ctrl.log),
            )
        if res.outcome == "steps":
            raise Violation(
                "liveness",
                f"threads did not finish within {max_steps} yield points under round-robin; wait-for: {res.waitfor}",
                "step-bound",
            )

        # ---- every request went through all its stages
        for (t, j), r in req.items():
            for k in ("call", "arrive", "admit", "end_begin", "end_acq"):
                if r[k] is None:
                    raise Violation("protocol", f"writer {t} txn {j}: stage {k!r} was never observed", "stage-" + k)

        # ---- 1. mutual exclusion: open intervals [admit, end_acq] are pairwise disjoint
        by_admit = sorted(req.values(), key=lambda r: r["admit"])
        for a, b in zip(by_admit, by_admit[1:]):
            if b["admit"] < a["end_acq"]:
                raise Violation(
                    "mutual-exclusion",
                    f"writer {b['t']} txn {b['j']} admitted at log position {b['admit']} while writer {a['t']} "
                    f"txn {a['j']} (admitted {a['admit']}) had not begun to end (its end critical section: {a['end_acq']})",
                    "overlap",
                )

        # ---- 2. FIFO: admission order == arrival order
        by_arrive = sorted(req.values(), key=lambda r: r["arrive"])
        arr = [(r["t"], r["j"]) for r in by_arrive]
        adm = [(r["t"], r["j"]) for r in by_admit]
        if arr != adm:
            raise Violation(
                "fifo",
                f"arrival order (first hold of the version lock in writer()) {arr} != admission order {adm}",
                "order",
            )

        # ---- 4. serial equivalence in admission order
        tags = {"init"}
        last = {"init"}
        content = {("@", "SOA"): None, ("@", "TXT"): tags, ("last", "TXT"): last}
        prefixes = [(frozenset(tags), frozenset(last), init_vid, -1, -1)]  # + (end_acq, end_rel) of the commit
        prev_vid = init_vid
        for r in by_admit:
            if r["seen"] != (frozenset(tags), frozenset(last)):
                raise Violation(
                    "serial",
                    f"writer {r['t']} txn {r['j']} started from apex tags {sorted(r['seen'][0])} / last {sorted(r['seen'][1])}, "
                    f"serial application in admission order gives {sorted(tags)} / {sorted(last)}",
                    "start-state",
                )
            tx = r["tx"]
            if tx["end"] in ("commit", "with") and tx["adds"] > 0:
                if not r["vid"] > prev_vid:
                    raise Violation("serial", f"version id {r['vid']} of a committed transaction is not above its predecessor's {prev_vid}", "version-id")
                prev_vid = r["vid"]
                for k in range(tx["adds"]):
                    tg = f"w{r['t']}t{r['j']}a{k}"
                    tags.add(tg)
                    content[(tg, "TXT")] = {tg}
                last = {f"w{r['t']}t{r['j']}a{tx['adds'] - 1}"}
                content[("last", "TXT")] = last
                if r["end_rel"] is None:
                    raise Violation("protocol", "commit critical section never released the lock", "stage-end_rel")
                prefixes.append((frozenset(tags), frozenset(last), r["vid"], r["end_acq"], r["end_rel"]))

        with zone.reader() as rtxn:
            got = {}
            for name, rds in rtxn.iterate_rdatasets():
                key = (name.to_text(), dns.rdatatype.to_text(rds.rdtype))
                got[key] = None if rds.rdtype == dns.rdatatype.SOA else set(_tags_of(rds))
            final_vid = rtxn.version.id
        if got != content:
            missing = sorted(k for k in content if k not in got)
            extra = sorted(k for k in got if k not in content)
            diff = sorted(k for k in content if k in got and got[k] != content[k])
            raise Violation(
                "serial",
                f"final zone differs from the serial application in admission order: missing {missing}, extra {extra}, different {diff}",
                "final-content",
            )
        if final_vid != prev_vid:
            raise Violation("serial", f"newest version id {final_vid} != id of the last committed transaction {prev_vid}", "final-version-id")
        if (zone._write_txn is not None) or zone._write_event is not None or len(zone._write_waiters):
            raise Violation("protocol", "admission state not idle after all threads finished", "not-idle")
        if len(zone._readers):
            raise Violation("protocol", "reader set not empty after all readers closed", "readers-left")

        # ---- 5. readers see exactly the prefix committed at their critical section
        for rd in reads:
            if rd["how"] == "txn":
                if rd["open_acq"] is None:
                    raise Violation("protocol", "reader never held the version lock inside reader()", "stage-open")
                want = [p for p in prefixes if p[3] < rd["open_acq"]][-1]
                if rd["view"] != want[:2] or rd["view2"] != want[:2] or rd["vid"] != want[2]:
                    raise Violation(
                        "readers",
                        f"reader {rd['thread']}#{rd['k']} opened at log position {rd['open_acq']} saw tags {sorted(rd['view'][0])} "
                        f"last {sorted(rd['view'][1])} version {rd['vid']} (second look: {sorted(rd['view2'][0])}); the committed prefix "
                        f"at that point is {sorted(want[0])} last {sorted(want[1])} version {want[2]}",
                        "snapshot",
                    )
            else:
                lo = len([p for p in prefixes if p[4] < rd["call"]]) - 1
                hi = len([p for p in prefixes if p[3] < rd["ret"]]) - 1
                # first look = prefix i, second look = prefix i' with lo <= i <= i' <= hi
                ia = [i for i in range(lo, hi + 1) if prefixes[i][0] == rd["view_a"]]
                ib = [i for i in range(lo, hi + 1) if prefixes[i][1] == rd["view_b"] and ia and i >= ia[0]]
                if not ib:
                    raise Violation(
                        "readers",
                        f"lock-free read {rd['thread']}#{rd['k']} saw tags {sorted(rd['view_a'])} then last {sorted(rd['view_b'])}: "
                        f"not a committed prefix in [{lo},{hi}] of {[(sorted(p[0]), sorted(p[1])) for p in prefixes]}",
                        "direct-read",
                    )

    # ---- classes
    classes = set()
    if flags["contention"]:
        classes.add("contention")
    if flags.get("held_reused"):
        classes.add("held-rdataset-rewritten-in-later-txn")
    lsw = res.line_switches.get("writer", 0)
    if lsw:
        classes.add("line_switch_in_writer")
    if any(r["in_wake_window"] for r in req.values()):
        classes.add("newcomer_in_wake_window")
    for r in req.values():
        tx = r["tx"]
        rolled = tx["end"] in ("rollback", "raise") or tx["adds"] == 0
        if rolled and r["waiters_at_end"] > 0:
            classes.add("rollback_with_waiters")
        if not rolled and r["waiters_at_end"] > 0:
            classes.add("commit_with_waiters")
        if tx["end"] == "raise":
            classes.add("raise_in_with")
        if tx["adds"] == 0 and tx["end"] in ("commit", "with"):
            classes.add("empty_commit")
        if r["j"] > 0:
            classes.add("second_txn")
    if flags["waiters_max"] >= 2:
        classes.add("queue>=2")
    for rd in reads:
        if rd["how"] == "txn" and rd["during_write"]:
            classes.add("reader_during_write")
        if rd["how"] == "direct":
            classes.add("direct_read")
    if arr != sorted(arr) and len({a[0] for a in arr}) > 1:
        classes.add("admission_order_not_thread_order")
    if res.schedule_used >= len(schedule) and schedule:
        classes.add("schedule_exhausted")
    nontrivial = flags["contention"] and lsw > 0
    return {"nontrivial": nontrivial, "classes": sorted(classes)}


def _tail(log, n=60):
    return [list(map(str, e)) for e in log[-n:]]


# ---------------------------------------------------------------------------
# strategies


@st.composite
def _schedule(draw):
    mode = draw(st.sampled_from(["random", "random", "runs", "runs", "runs", "short", "rr"]))
    if mode == "rr":
        return []
    if mode == "random":
        # Hypothesis' own list sizes are heavily skewed to short lists: draw the length
        n = draw(st.integers(0, 400))
        return draw(st.lists(st.integers(0, 7), min_size=n, max_size=n))
    if mode == "short":
        return draw(st.lists(st.integers(0, 7), min_size=0, max_size=40))
    segs = draw(st.lists(st.tuples(st.integers(0, 7), st.integers(1, 30)), min_size=1, max_size=40))
    out = []
    for k, n in segs:
        out.extend([k] * n)
    return out[:400]


_txn = st.fixed_dictionaries(
    {
        "adds": st.integers(0, 3),
        "end": st.sampled_from(["commit", "commit", "with", "rollback", "raise"]),
    }
)


@st.composite
def cases(draw):
    nw = draw(st.integers(2, 5))
    writers = [draw(st.lists(_txn, min_size=1, max_size=2)) for _ in range(nw)]
    nr = draw(st.integers(0, 3))
    readers = [
        draw(st.lists(st.sampled_from(["txn", "txn", "direct"]), min_size=1, max_size=3)) for _ in range(nr)
    ]
    return {"writers": writers, "readers": readers, "schedule": draw(_schedule())}


def parts(tier):
    return [
        Part(
            "schedules",
            run,
            strategy=cases(),
            n={"quick": 10000, "thorough": 16 * 20000},
            require={
                "contention": 500,
                "line_switch_in_writer": 500,
                "newcomer_in_wake_window": 30,
                "rollback_with_waiters": 100,
                "commit_with_waiters": 100,
                "reader_during_write": 100,
                "queue>=2": 100,
                "held-rdataset-rewritten-in-later-txn": 1500,
                "admission_order_not_thread_order": 200,
                "__nontrivial__": 500,
            },
        )
    ]
