"""C04  Untrusted wire or text input only ever raises the library's own errors."""

import io
import re
import struct

from hypothesis import strategies as st

from vlib.gen import messages as MG
from vlib.gen import names as G
from vlib.gen import rdata as R
from vlib.runner import Part, Violation, exc_key

ID = "C04"
LEVEL = "exploration"
TECHNIQUE = (
    "fuzzing + property-based testing: structure-aware mutation of valid wire/text inputs and token "
    "soup from the zone-file lexicon (Hypothesis), plus coverage-guided atheris campaigns in the "
    "thorough tier; oracle inside the target = exception family, usable return values, "
    "continue-on-error bookkeeping, termination"
)
LEVEL_TEXT = (
    "Every parser entry point named in the property, under every option combination, on mutated valid "
    "inputs, token soup and raw random octets/characters: only exceptions from the library's own "
    "hierarchy (zone level: also ValueError/KeyError), returned values render to text and wire "
    "without a foreign exception, continue_on_error records instead of raising, every case terminates. "
    "Search, never exhaustive."
)
RULE = (
    "cases per entry point (wire_message, wire_name, wire_rdata, text_name, text_rdata, text_zone, "
    "read_rrsets, text_message, text_misc): a valid input produced by the generators, mutated at "
    "structure-aware positions (bit flips, length-field edits, splice, truncation; token replacement "
    "from a lexicon of directives, parentheses, quotes, escapes \\DDD with 0-4 digits incl. > 255, '@', "
    "empty quoted strings, Unicode digits, type mnemonics), or plain random input; all parsing option "
    "combinations drawn. non-trivial = the parser got past its first structural element (header parsed "
    "/ first token consumed: measured as 'returned a value' or 'raised after consuming input'); "
    "distinct by SHA-1; the evidence lists the exception classes seen"
)
RULE += (
    " Round 9 added: expanding messages (RDATA names that are pointers to a ~255-octet name; HIP with up to 400 of them) re-rendered at message, RRset and rdata level."
)
ASSUMPTIONS = [
    "exception family enforced = subclasses of dns.exception.DNSException (zone-level entry points: "
    "also builtin ValueError/KeyError as documented); the narrower FormError / SyntaxError families are "
    "reported as a histogram (exc:<class>) because documented behaviour already crosses them "
    "(NameTooLong is a FormError raised by from_text; UnknownTSIGKey, IDNAException, NoSOA ... are plain "
    "DNSExceptions)",
    "dns.edns.option_from_wire raises ValueError by design when called directly; options are fuzzed "
    "through OPT RDATA and messages",
    "$GENERATE ranges are capped by construction (a huge legal range or modifier width is slow or "
    "memory-hungry in proportion to what it asks for, not a hang)",
    "the builtin ValueError/KeyError that the statement allows for zone-semantic violations is accepted "
    "only when raised by the zone/transaction layer (non-origin SOA, wrong class, CNAME and other "
    "data); from the reading of a token it is a violation",
]


def _family(e, zone_level=False):
    import dns.exception

    if isinstance(e, dns.exception.DNSException):
        return True
    if zone_level and isinstance(e, (ValueError, KeyError)) and not isinstance(e, UnicodeError):
        # "zone-semantic violations may additionally surface as the documented ValueError/KeyError":
        # those are raised by the zone/transaction layer (non-origin SOA, wrong class, CNAME and
        # other data), not by the reading of a token
        import traceback

        frames = [f for f in traceback.extract_tb(e.__traceback__) if "/dns/" in f.filename.replace("\\", "/")]
        if not frames:
            return False
        fn = frames[-1].filename.replace("\\", "/").rsplit("/dns/", 1)[-1]
        if fn in ("transaction.py", "zone.py", "versioned.py", "btreezone.py", "node.py"):
            return True
        if fn == "zonefile.py" and frames[-1].name.startswith("_check"):
            return True
        return False
    return False


def _wire_family(where, e, what):
    """wire input fails in the format-error family: never with the TEXT family's SyntaxError"""
    import dns.exception

    if isinstance(e, dns.exception.SyntaxError):
        raise Violation("exception", f"{where}: {what} raised the text-input exception {type(e).__name__}: {str(e)[:200]}", f"{where}:text-family:{exc_key(e)}")


def _foreign(where, e, what):
    return Violation("exception", f"{where}: {what} raised {type(e).__name__}: {str(e)[:200]}", f"{where}:{exc_key(e)}")


def _usable(where, fn, what):
    """fn() must not raise a foreign exception (library exceptions are fine)"""
    import dns.exception

    try:
        return fn()
    except dns.exception.DNSException:
        return None
    except RecursionError as e:
        raise _foreign(where, e, what)
    except Exception as e:
        raise _foreign(where, e, what)


# ---------------------------------------------------------------------------
# mutation of octets


@st.composite
def mutate_bytes(draw, base):
    w = bytearray(base)
    for _ in range(draw(st.integers(1, 4))):
        k = draw(st.integers(0, 10))
        n = len(w)
        if k >= 9 and n:
            # overwrite a field-sized slot with a boundary value (no length change)
            sz = min(n, draw(st.sampled_from([1, 2, 2, 4])))
            i = draw(st.integers(0, n - sz))
            v = draw(st.sampled_from([0, 1, 0x7F, 0x80, 0xFF, 0x0FFF, 0x1000, 0x7FFF, 0x8000, 0xFFFF, 0x7FFFFFFF, 0x80000000, 0xFFFFFFFF]))
            w[i:i + sz] = (v & ((1 << (8 * sz)) - 1)).to_bytes(sz, "big")
        elif k == 0 and n:
            w[draw(st.integers(0, n - 1))] ^= 1 << draw(st.integers(0, 7))
        elif k == 1 and n:
            del w[draw(st.integers(0, n - 1)):]
        elif k == 2:
            w += draw(st.binary(min_size=1, max_size=6))
        elif k == 3 and n:
            w[draw(st.integers(0, n - 1))] = draw(st.sampled_from([0, 1, 0x3F, 0x40, 0x80, 0xC0, 0xC1, 0xFF, 12, n & 0xFF]))
        elif k == 4 and n > 1:
            i = draw(st.integers(0, n - 2))
            w[i:i + 2] = draw(st.sampled_from([b"\xc0\x0c", b"\xc0\x00", b"\xff\xff", b"\x00\x00", b"\x00\x29", b"\x00\xfa", bytes([0xC0, i & 0xFF])]))
        elif k == 5 and n:
            i = draw(st.integers(0, n - 1))
            del w[i:i + draw(st.integers(1, 4))]
        elif k == 6 and n:
            i = draw(st.integers(0, n))
            w[i:i] = draw(st.binary(min_size=1, max_size=4))
        elif k == 7 and n >= 12:
            # header counts
            i = draw(st.sampled_from([4, 6, 8, 10]))
            w[i:i + 2] = draw(st.sampled_from([b"\x00\x00", b"\x00\x01", b"\x00\x02", b"\xff\xff", b"\x01\x00"]))
        elif k == 8 and n > 4:
            i = draw(st.integers(0, n - 3))
            j = draw(st.integers(i + 1, n - 1))
            w[i:j] = w[i:j][::-1]
    return bytes(w)


# ---------------------------------------------------------------------------
# wire message


def run_wire_message(case):
    import dns.exception
    import dns.message
    import dns.name
    import dns.tsig

    w = bytes.fromhex(case["wire"])
    o = case["opts"]
    origin = None if case.get("origin") is None else dns.name.Name(G.unhexl(case["origin"]))
    keyring = None
    if o.get("keyring"):
        # the three documented keyring forms; with raw secrets the algorithm is taken from the message
        form = o.get("keyring_form", 0)
        kname = dns.name.from_text("key.example.")
        if form == 1:
            keyring = {kname: b"0123456789abcdef"}
        elif form == 2:
            keyring = lambda msg, name: dns.tsig.Key(name, b"0123456789abcdef") if name == kname else None
        else:
            keyring = dns.tsig.Key(kname, b"0123456789abcdef")
    kw = dict(question_only=o["question_only"], one_rr_per_rrset=o["one_rr_per_rrset"], ignore_trailing=o["ignore_trailing"],
              raise_on_truncation=o["raise_on_truncation"], continue_on_error=o["continue_on_error"], xfr=o["xfr"],
              origin=origin, keyring=keyring)
    classes = []
    m = None
    try:
        m = dns.message.from_wire(w, **kw)
    except Exception as e:
        if not _family(e):
            raise _foreign("wire_message", e, f"from_wire({kw})")
        _wire_family("wire_message", e, f"from_wire({kw})")
        classes.append("exc:" + type(e).__name__)
        if isinstance(e, dns.message.Truncated):
            m2 = e.message()
            _usable("wire_message", lambda: m2.to_text(), "Truncated.message().to_text()")
        if o["continue_on_error"] and len(w) >= 12:
            if not (isinstance(e, dns.message.Truncated) and o["raise_on_truncation"]):
                raise Violation("continue_on_error", f"from_wire(continue_on_error=True) raised {type(e).__name__}: {e}", "coe-raised:" + type(e).__name__)
    if m is not None:
        classes.append("parsed")
        if o["continue_on_error"]:
            errs = getattr(m, "errors", None)
            if errs is None:
                raise Violation("continue_on_error", "message parsed with continue_on_error has no errors attribute", "coe-no-errors")
            for er in errs:
                if not isinstance(er.offset, int) or not (12 <= er.offset <= len(w)):
                    raise Violation("continue_on_error", f"MessageError offset {er.offset!r} outside [12, {len(w)}]", "coe-offset")
                if not isinstance(er.exception, Exception):
                    raise Violation("continue_on_error", "MessageError without an exception", "coe-exc")
                _wire_family("wire_message", er.exception, "continue_on_error record")
            if errs:
                classes.append("coe-errors-recorded")
            else:
                # parses cleanly: the flag must not change the result
                kw2 = dict(kw)
                kw2["continue_on_error"] = False
                try:
                    m0 = dns.message.from_wire(w, **kw2)
                except Exception as e:
                    raise Violation("continue_on_error", f"no errors recorded, yet without the flag parsing raises {type(e).__name__}", "coe-silent")
                if m0.to_text() != m.to_text():
                    raise Violation("continue_on_error", "continue_on_error changed the result of a clean parse", "coe-differs")
        _usable("wire_message", lambda: m.to_text(), "to_text() of the parsed message")
        _usable("wire_message", lambda: repr(m), "repr() of the parsed message")
        if _usable("wire_message", lambda: m.to_wire(max_size=65535), "to_wire() of the parsed message") is None:
            classes.append("rerender-refused")
            if case.get("mode") == 8:
                classes.append("expanding:rerender-refused")
        # the record-level renderers as well (they have their own length bookkeeping)
        for sec_ in m.sections:
            for rr_ in sec_:
                _usable("wire_message", lambda: rr_.to_wire(io.BytesIO()), "rrset.to_wire()")
                for rd_ in rr_:
                    _usable("wire_message", lambda: (rd_.to_wire(), rd_.to_digestable()), "rdata.to_wire()")
        _usable("wire_message", lambda: [rr.to_text() for s in m.sections for rr in s], "rrset.to_text()")
        _usable("wire_message", lambda: dns.message.make_response(m) if not (m.flags & 0x8000) else None, "make_response()")
    return {"nontrivial": m is not None or len(w) >= 12, "classes": classes}


@st.composite
def wire_message_cases(draw):
    mode = draw(st.integers(0, 8))
    origin = None
    signed = False
    if mode == 8:
        # expanding: a long question name and records whose RDATA names are compression pointers to
        # it.  The parser follows pointers in every type; the renderer writes most of them out in
        # full, so the re-rendered RDATA is far longer than the received one -- with the name list
        # of HIP beyond the 65535 octets an RDLENGTH can express
        labs = draw(st.lists(st.binary(min_size=1, max_size=63), min_size=1, max_size=8))
        if draw(st.integers(0, 2)) != 0:
            # a name of (nearly) the maximum length
            labs = [bytes([draw(st.integers(0, 255))]) * 63 for _ in range(3)] + [b"d" * draw(st.sampled_from([61, 60, 40]))]
        qn = b""
        for l in labs:
            if len(qn) + len(l) + 2 > 255:
                l = l[: max(0, 253 - len(qn))]
                if not l:
                    break
            qn += bytes([len(l)]) + l
        qn += b"\x00"
        body = bytearray(qn + struct.pack("!HH", 1, 1))
        nrec = draw(st.integers(1, 3))
        for _ in range(nrec):
            t = draw(st.sampled_from([55, 55, 55, 17, 33, 47, 39, 64]))
            ptr = b"\xc0\x0c"
            n = draw(st.sampled_from([0, 1, 40, 257, 300, 300, 400, 400]))
            rdata = {
                55: bytes([4, 2]) + struct.pack("!H", 4) + b"hhhh" + b"kkkk" + ptr * n,
                17: ptr + ptr,
                33: struct.pack("!HHH", 1, 2, 3) + ptr,
                47: ptr + b"\x00\x01\x40",
                39: ptr,
                64: struct.pack("!H", 1) + ptr,
            }[t]
            body += ptr + struct.pack("!HHIH", t, 1, 300, len(rdata)) + rdata
        w = struct.pack("!HHHHHH", draw(st.integers(0, 65535)), 0x8400, 1, nrec, 0, 0) + bytes(body)
        if draw(st.integers(0, 5)) == 0:
            w = draw(mutate_bytes(w))
    elif mode >= 6:
        # assembled: any opcode x any section counts x simple records of ordinary and meta classes
        # and types (well-formed RRs in unusual places: zone-less UPDATE, meta classes in ADDITIONAL,
        # OPT/TSIG out of place ...)
        opcode = draw(st.sampled_from([0, 0, 5, 5, 5, 4, 1, 2, 15]))
        flags_ = (draw(st.integers(0, 0xFFFF)) & 0x87FF) | (opcode << 11)
        nq = draw(st.sampled_from([0, 0, 1, 1, 2]))
        body = bytearray()
        nm = lambda: draw(st.sampled_from([b"\x00", b"\x01a\x00", b"\x03www\x07example\x00", b"\xc0\x0c"]))
        for _ in range(nq):
            body += nm() + struct.pack("!HH", draw(st.sampled_from([1, 6, 255, 252, 251])), draw(st.sampled_from([1, 3, 254, 255])))
        counts = draw(st.sampled_from([[0, 0, 1], [0, 0, 2], [1, 0, 0], [0, 1, 0], [1, 1, 1], [0, 0, 0], [2, 0, 1], [0, 1, 1]]))
        for _ in range(sum(counts)):
            t = draw(st.sampled_from([1, 2, 6, 16, 41, 250, 255, 46, 5, 28, 65280]))
            c = draw(st.sampled_from([1, 1, 254, 255, 254, 255, 3, 0xFE00, 1232]))
            rdata = {1: b"\x0a\x00\x00\x01", 2: b"\x02ns\xc0\x0c", 16: b"\x01x", 28: b"\x00" * 16, 5: b"\x00"}.get(t, b"")
            if draw(st.integers(0, 2)) == 0:
                rdata = b""
            body += nm() + struct.pack("!HHIH", t, c, draw(st.sampled_from([0, 0, 300, 0x80000000])), len(rdata)) + rdata
        w = struct.pack("!HHHHHH", draw(st.integers(0, 65535)), flags_, nq, *counts) + bytes(body)
        if draw(st.integers(0, 3)) == 0:
            w = draw(mutate_bytes(w))
    elif mode == 0:
        w = draw(st.binary(max_size=80))
    else:
        import dns.exception

        desc = draw(MG.message(big_ok=False, sections_max=2))
        m = MG.build(desc)
        origin = desc["origin"]
        try:
            base = m.to_wire(max_size=65535, want_shuffle=False)
        except Exception:  # seed text only; the oracle for this call is in run_*
            base = b"\x00" * 12
        if mode in (1, 2) and draw(st.booleans()):
            signed = True
            import dns.name
            import dns.tsig

            m.use_tsig(dns.tsig.Key(dns.name.from_text("key.example."), b"0123456789abcdef"))
            try:
                base = m.to_wire(max_size=65535, want_shuffle=False)
            except Exception:  # seed text only; the oracle for this call is in run_*
                pass
        w = base if mode == 5 else draw(mutate_bytes(base))
        if signed and draw(st.integers(0, 2)) == 0:
            # same-length edit of the TSIG algorithm name of the genuine signed message
            alg = b"\x0bhmac-sha256\x00"
            i = base.rfind(alg)
            if i >= 0:
                repl = draw(st.sampled_from([b"\x0bhmac-sha257\x00", b"\x0bHMAC-SHA256\x00", b"\x0bhmac-sha512\x00", b"\x0bhmac-sha1\x00\x00\x00", b"\x0cgss-tsig\x00\x00\x00\x00"]))
                w = base[:i] + repl[: len(alg)] + base[i + len(alg):]
    b = st.booleans()
    opts = {k: draw(b) for k in ("question_only", "one_rr_per_rrset", "ignore_trailing", "raise_on_truncation", "continue_on_error", "xfr", "keyring")}
    opts["keyring_form"] = draw(st.integers(0, 2))
    if signed:
        opts["keyring"] = draw(st.integers(0, 3)) != 0
    return {"wire": w.hex(), "opts": opts, "origin": origin if draw(st.booleans()) else None, "mode": mode}


# ---------------------------------------------------------------------------
# wire name / rdata


def run_wire_name(case):
    import dns.name

    buf = bytes.fromhex(case["buf"])
    off = min(case["off"], len(buf))
    try:
        n, used = dns.name.from_wire(buf, off)
    except Exception as e:
        if not _family(e):
            raise _foreign("wire_name", e, "dns.name.from_wire")
        _wire_family("wire_name", e, "dns.name.from_wire")
        return {"nontrivial": len(buf) > off, "classes": ["exc:" + type(e).__name__]}
    _usable("wire_name", lambda: (n.to_text(), n.to_wire(), n.to_unicode(), repr(n)), "rendering the decoded name")
    return {"nontrivial": True, "classes": ["parsed"]}


def run_wire_rdata(case):
    import dns.name
    import dns.rdata

    w = bytes.fromhex(case["wire"])
    pre = bytes.fromhex(case["pre"])
    origin = None if case.get("origin") is None else dns.name.Name(G.unhexl(case["origin"]))
    try:
        rd = dns.rdata.from_wire(case["rdclass"], case["rdtype"], pre + w, len(pre), len(w), origin)
    except Exception as e:
        if not _family(e):
            raise _foreign("wire_rdata", e, f"dns.rdata.from_wire({case['type']})")
        _wire_family("wire_rdata", e, f"dns.rdata.from_wire({case['type']})")
        return {"nontrivial": len(w) > 0, "classes": ["exc:" + type(e).__name__, "rej:" + case["type"]]}
    o = origin or dns.name.root
    _usable("wire_rdata", lambda: rd.to_text(), f"{case['type']}.to_text()")
    # every documented text style, not only the default one
    _usable("wire_rdata", lambda: rd.to_styled_text(dns.rdata.RdataStyle(truncate_crypto=True)), f"{case['type']}.to_styled_text(truncate_crypto)")
    _usable("wire_rdata", lambda: rd.to_styled_text(dns.rdata.RdataStyle(txt_is_utf8=True, base64_chunk_size=4, hex_chunk_size=2, omit_final_dot=True)), f"{case['type']}.to_styled_text(utf8, chunks, omit_final_dot)")
    _usable("wire_rdata", lambda: rd.to_text(chunksize=0), f"{case['type']}.to_text(chunksize=0)")
    _usable("wire_rdata", lambda: rd.to_text(origin=o, relativize=True), f"{case['type']}.to_text(origin)")
    _usable("wire_rdata", lambda: rd.to_wire(origin=o), f"{case['type']}.to_wire()")
    _usable("wire_rdata", lambda: rd.to_digestable(o), f"{case['type']}.to_digestable()")
    _usable("wire_rdata", lambda: (repr(rd), hash(rd), rd == rd, rd.to_generic(o)), f"{case['type']} repr/hash/generic")
    return {"nontrivial": True, "classes": ["parsed", "acc:" + case["type"]]}


@st.composite
def wire_rdata_cases(draw):
    name = R.type_choice(draw, R.ALL_TYPES)
    mode = draw(st.integers(0, 6))
    pre = draw(st.one_of(st.just(b""), st.just(b"\x03www\x07example\x00\x01a\xc0\x04"), st.binary(max_size=12)))
    if name == "OPT" and draw(st.booleans()):
        # hostile EDNS options: well-framed (code, length, value) triples whose VALUES break the
        # option's own rules -- ECS prefixes beyond the family's width with more or fewer address
        # octets than the prefix needs, unknown families, short cookies, odd lengths everywhere
        out = bytearray()
        for _ in range(draw(st.integers(1, 3))):
            code = draw(st.sampled_from([8, 8, 8, 10, 11, 15, 18, 3, 5, 6, 7, 9, 13, 22, 25]))
            if code == 8:
                fam = draw(st.sampled_from([1, 1, 2, 2, 0, 3, 65535]))
                src = draw(st.sampled_from([0, 8, 24, 32, 33, 40, 48, 64, 128, 129, 136, 255]))
                scope = draw(st.sampled_from([0, 32, 33, 128, 129, 255]))
                v = struct.pack("!HBB", fam, src, scope) + draw(st.binary(max_size=20))
            else:
                v = draw(st.binary(max_size=draw(st.sampled_from([0, 1, 2, 3, 7, 8, 9, 40, 41]))))
            out += struct.pack("!HH", code, len(v)) + v
        w = bytes(out)
        mode = 7
    elif mode == 0:
        w = draw(st.binary(max_size=40))
    else:
        wire, _ = R.build(draw, name, {})
        if mode == 1:
            w = wire  # well-formed as generated (boundary values come from the grammar)
        elif mode <= 3 and len(wire) >= 1:
            # keep the structure, overwrite one fixed-width field-sized slot with a boundary value:
            # reaches values a field's wire width allows but its Python type may not
            k = draw(st.sampled_from([1, 2, 2, 2, 4]))
            i = draw(st.integers(0, max(0, len(wire) - k)))
            v = draw(st.sampled_from([0, 1, 0x0F, 0x10, 0x7F, 0x80, 0xFE, 0xFF, 0x0FFF, 0x1000, 0x7FFF, 0x8000,
                                      0xFFFE, 0xFFFF, 0x7FFFFFFF, 0x80000000, 0xFFFFFFFF])) & ((1 << (8 * k)) - 1)
            w = wire[:i] + v.to_bytes(k, "big") + wire[i + k:]
        else:
            w = draw(mutate_bytes(wire))
    origin = draw(st.sampled_from([None, [b""], [b"example", b""]]))
    return {"type": name, "rdclass": R.rdclass_for(name, draw), "rdtype": R.TYPECODES[name], "wire": w.hex(), "pre": pre.hex(),
            "origin": None if origin is None else G.hexl(origin)}


# ---------------------------------------------------------------------------
# text lexicon

_LEX = [
    "\\", "\\\\", "\\.", "\\@", "\\000", "\\255", "\\256", "\\300", "\\999", "\\9", "\\99", "\\1234", "\\0", "\\\"", '"', '""', '"a b"', '"\\"',
    "(", ")", ";", "; comment", "@", ".", "..", "a..b", "*", "$", "$ORIGIN", "$TTL", "$INCLUDE", "$GENERATE", "$UNICODE", "$FOO",
    "IN", "CH", "HS", "NONE", "ANY", "CLASS1", "CLASS65535", "CLASS65536", "CLASS", "TYPE1", "TYPE65535", "TYPE65536", "TYPE",
    "A", "AAAA", "NS", "SOA", "MX", "TXT", "CNAME", "RRSIG", "NSEC", "NSEC3", "SVCB", "HTTPS", "LOC", "APL", "WKS", "OPT", "TSIG", "TKEY",
    "\\#", "\\# 0", "\\# 1 00", "\\# 2 00", "\\# -1", "0", "1", "-1", "300", "4294967295", "4294967296", "99999999999999999999", "1h", "1w2d3h4m5s", "1x", "h",
    "1.2.3.4", "256.1.1.1", "1.2.3", "::1", "::ffff:1.2.3.4", ":::", "1:2:3:4:5:6:7:8:9", "example.", "www", "www.example.", "a" * 64, ("a" * 63 + ".") * 4 + "b",
    "\t", " ", "\n", "\r\n", "٠", "١٢", "é", "。", "\ud800" if False else "�", "\x00", "\x7f",
    "alpn=h2", 'alpn="h2,h3"', "port=443", "port=65536", "key65535=a", "key65536", "mandatory=alpn", "no-default-alpn", "ipv4hint=1.2.3.4", "=x", "ech=!!!",
    "1-10", "1-10/2", "10-1", "1-", "-1-2", "1-10/0", "${0,3,d}", "${-1,0,x}", "${0,0,q}", "$", "${", "$$",
    "1" * 4400, "9" * 5000 + "h", "FLAG0", "FLAG3", "FLAG15", "FLAG16", "FLAG20", "FLAG64", "FLAG", "FLAG-1", "20200101000000", "2020010100000", "0 0 0.000 N", "90 0 0 S 180 0 0 W 0m", "AQID", "====", "00-11-22-33-44-55", "gg",
]


@st.composite
def soup(draw, base=None, max_tokens=10):
    """token soup: optionally start from a valid text and replace / insert / delete tokens"""
    if base is not None and draw(st.integers(0, 4)) != 0:
        toks = re.split(r"( +|\n)", base)
        for _ in range(draw(st.integers(1, 3))):
            if not toks:
                break
            i = draw(st.integers(0, len(toks) - 1))
            k = draw(st.integers(0, 3))
            tok = draw(st.one_of(st.sampled_from(_LEX), st.text(max_size=6)))
            if k == 0:
                toks[i] = tok
            elif k == 1:
                toks.insert(i, tok + " ")
            elif k == 2:
                del toks[i]
            else:
                toks[i] = toks[i] + tok
        return "".join(toks)
    n = draw(st.integers(0, max_tokens))
    parts = [draw(st.one_of(st.sampled_from(_LEX), st.sampled_from(_LEX), st.text(max_size=8))) for _ in range(n)]
    sep = draw(st.sampled_from([" ", " ", "\t", "\n", ""]))
    return sep.join(parts)


def run_text_name(case):
    import dns.name

    t = case["text"]
    origin = {"root": dns.name.root, "none": None, "ex": dns.name.from_text("example.")}[case["origin"]]
    out = []
    for label, fn in (
        ("from_text", lambda: dns.name.from_text(t, origin)),
        ("from_text-bytes", lambda: dns.name.from_text(t.encode("utf-8", "replace"), origin)),
        ("from_unicode", lambda: dns.name.from_unicode(t, origin)),
        ("from_unicode-2008", lambda: dns.name.from_unicode(t, origin, dns.name.IDNA_2008_UTS_46)),
    ):
        try:
            n = fn()
        except Exception as e:
            if not _family(e):
                raise _foreign("text_name", e, f"dns.name.{label}({t!r})")
            out.append("exc:" + type(e).__name__)
            continue
        out.append("parsed")
        _usable("text_name", lambda: (n.to_text(), n.to_unicode(), repr(n), n.to_wire(origin=dns.name.root)), "rendering the parsed name")
    return {"nontrivial": len(t) > 0, "classes": sorted(set(out))}


@st.composite
def text_name_cases(draw):
    k = draw(st.integers(0, 3))
    if k == 0:
        t = draw(st.text(max_size=20))
    elif k == 1:
        labs = draw(G.any_name())
        import dns.name

        base = dns.name.Name(labs).to_text()
        t = draw(soup(base))
    else:
        parts = [draw(st.one_of(st.sampled_from(["\\", "\\0", "\\25", "\\256", "\\300", "\\999", "\\1", ".", "..", "@", "a", "B", "\\.", "\\\\", "é", "。", "xn--", "xn--a", "*", " ", '"', "a" * 63, "a" * 64]), st.text(max_size=3))) for _ in range(draw(st.integers(0, 8)))]
        t = "".join(parts)
    return {"text": t, "origin": draw(st.sampled_from(["root", "none", "ex"]))}


def run_text_rdata(case):
    import dns.name
    import dns.rdata
    import dns.tokenizer

    t = case["text"]
    origin = {"root": dns.name.root, "none": None, "ex": dns.name.from_text("example.")}[case["origin"]]
    kw = dict(origin=origin, relativize=case["relativize"])
    try:
        rd = dns.rdata.from_text(case["rdclass"], case["rdtype"], t, **kw)
    except Exception as e:
        if not _family(e):
            raise _foreign("text_rdata", e, f"dns.rdata.from_text({case['type']}, {t!r})")
        return {"nontrivial": len(t.strip()) > 0, "classes": ["exc:" + type(e).__name__]}
    o = origin or dns.name.root
    _usable("text_rdata", lambda: rd.to_text(), f"{case['type']}.to_text() after from_text({t!r})")
    try:
        rd.to_wire(origin=o)
    except Exception as e:
        raise Violation("usable", f"{case['type']}: from_text accepted {t!r} but to_wire() raised {type(e).__name__}: {e}", f"text_rdata:to_wire:{case['type']}:{type(e).__name__}")
    _usable("text_rdata", lambda: (repr(rd), hash(rd), rd.to_digestable(o)), "repr/hash/digestable")
    return {"nontrivial": True, "classes": ["parsed", "acc:" + case["type"]]}


@st.composite
def text_rdata_cases(draw):
    name = R.type_choice(draw, [t for t in R.ALL_TYPES if t != "OPT"])
    rdclass = R.rdclass_for(name)
    rdtype = R.TYPECODES[name]
    base = None
    if draw(st.integers(0, 5)) != 0:
        import dns.exception
        import dns.rdata

        wire, _ = R.build(draw, name, {})
        try:
            base = dns.rdata.from_wire(rdclass, rdtype, wire, 0, len(wire)).to_text()
        except Exception:  # seed text only; the oracle for this call is in run_*
            base = None
    t = draw(soup(base))
    return {"type": name, "rdclass": rdclass, "rdtype": rdtype, "text": t, "origin": draw(st.sampled_from(["root", "none", "ex"])),
            "relativize": draw(st.booleans())}


# ---------------------------------------------------------------------------
# zone files

_ZLINES = [
    "$ORIGIN example.", "$TTL 300", "$TTL 1h", "@ 300 IN SOA ns1 hostmaster 1 2 3 4 5", "@ IN NS ns1", "ns1 A 10.0.0.1", " A 10.0.0.2", "\tAAAA ::1",
    "www 60 IN CNAME ns1", "www IN 60 A 10.0.0.3", "mx MX 10 mail", "txt TXT \"hello world\" \"x\"", "txt2 TXT ( \"a\"\n \"b\" ) ; comment", "sub NS ns.sub", "ns.sub A 10.1.1.1",
    "$GENERATE 1-3 host$ A 10.0.0.$", "$GENERATE 1-5/2 h${0,3,x} CNAME t${1,0,d}.example.", "*.w A 10.9.9.9", "other.zone. A 1.1.1.1", "$ORIGIN sub.example.", "x A 10.2.2.2",
    "$INCLUDE /nonexistent", "$UNICODE 1", "TYPE65280 \\# 2 abcd", "g CLASS1 TYPE1 \\# 4 0a000001", "a 300 A 10.0.0.1 ; trailing", "", "; just a comment", "( )",
    "$ORIGIN example", "$ORIGIN sub", "@ 300 IN SOA ns1 hostmaster ( 1 2 3 4\n 5 )", "dn DNAME target",
    # out-of-range generic mnemonics and numbers in every position of a $GENERATE line and of a record line
    "$GENERATE 1-2 g$ TYPE65536 \\# 0", "$GENERATE 1-2 g$ TYPE65535 \\# 0", "$GENERATE 1-2 g$ CLASS65536 A 10.0.0.$", "$GENERATE 1-2 g$ 4294967296 A 10.0.0.$",
    "$GENERATE 1-2 g$ IN TYPE65536 \\# 0", "$GENERATE 1-2 g$", "$GENERATE 1-2", "$GENERATE 1-2 g$ A", "$GENERATE 2-1 g$ A 10.0.0.$", "$GENERATE 1-2/0 g$ A 10.0.0.$",
    "t TYPE65536 \\# 0", "t CLASS65536 TYPE1 \\# 4 0a000001", "t 4294967296 A 10.0.0.1", "t IN 300 TYPE65536 \\# 0", "$TTL 4294967296", "$TTL", "c CNAME x", "c A 1.2.3.4", "rr RRSIG A 8 2 300 20200101000000 20190101000000 1 example. AQID",
]


def run_text_zone(case):
    import dns.btreezone
    import dns.exception
    import dns.name
    import dns.versioned
    import dns.zone
    import dns.zonefile

    t = case["text"]
    fac = {"plain": dns.zone.Zone, "versioned": dns.versioned.Zone, "btree": dns.btreezone.Zone}[case["factory"]]
    origin = {"ex": "example.", "none": None, "root": "."}[case["origin"]]
    allow = case["allow_directives"]
    if allow == "some":
        allow = {"$ORIGIN", "$TTL"}
    nlines = t.count("\n") + 1
    classes = []
    try:
        z = dns.zone.from_text(t, origin=origin, relativize=case["relativize"], zone_factory=fac, check_origin=case["check_origin"],
                               allow_include=False, allow_directives=allow)
    except Exception as e:
        if not _family(e, zone_level=True):
            raise _foreign("text_zone", e, f"dns.zone.from_text(factory={case['factory']}, relativize={case['relativize']}, check_origin={case['check_origin']}, allow_directives={case['allow_directives']})")
        classes.append("exc:" + type(e).__name__)
        if isinstance(e, dns.exception.SyntaxError) and type(e) is dns.exception.SyntaxError:
            mo = re.match(r"^(.*?):(\d+): ", str(e))
            if mo is None:
                raise Violation("location", f"zone SyntaxError without '<file>:<line>: ' prefix: {str(e)[:120]!r}", "no-location")
            ln = int(mo.group(2))
            if not (1 <= ln <= nlines + 1):
                raise Violation("location", f"zone SyntaxError reports line {ln} of a {nlines}-line input", "bad-line")
            classes.append("located")
        z = None
    if z is not None:
        classes.append("parsed")
        _usable("text_zone", lambda: z.to_text(), "Zone.to_text()")
        _usable("text_zone", lambda: z.to_text(sorted=True, relativize=False), "Zone.to_text(sorted)")
        _usable("text_zone", lambda: [(str(n), rds.to_text()) for n, rds in z.iterate_rdatasets()], "iterate_rdatasets")
    return {"nontrivial": len(t.strip()) > 0, "classes": classes}


@st.composite
def text_zone_cases(draw):
    k = draw(st.integers(0, 4))
    if k == 0:
        t = draw(soup(None, max_tokens=16))
    else:
        lines = [draw(st.sampled_from(_ZLINES)) for _ in range(draw(st.integers(1, 10)))]
        pre = draw(st.integers(0, 3))
        if pre >= 2:
            lines = _ZLINES[:5] + lines
        elif pre == 1:
            # no absolute $ORIGIN in front: the origin comes from the caller (or from nowhere)
            lines = [draw(st.sampled_from(["$ORIGIN example", "$ORIGIN sub", "$TTL 300"])), "$TTL 300"] + (_ZLINES[3:5] if draw(st.booleans()) else []) + lines
        t = "\n".join(lines)
        if k >= 2:
            t = draw(soup(t))
    # cap $GENERATE ranges: a huge legal range is slow, not a hang
    t = re.sub(r"(\d{3,})(-|/)", lambda m: m.group(1)[:2] + m.group(2), t)
    t = re.sub(r"-(\d{3,})", lambda m: "-" + m.group(1)[:2], t)
    return {"text": t, "factory": draw(st.sampled_from(["plain", "versioned", "btree"])), "origin": draw(st.sampled_from(["ex", "ex", "none", "root"])),
            "relativize": draw(st.booleans()), "check_origin": draw(st.booleans()),
            "allow_directives": draw(st.sampled_from([True, True, False, "some"]))}


def run_read_rrsets(case):
    import dns.name
    import dns.zonefile

    t = case["text"]
    kw = {}
    if case["name"] is not None:
        kw["name"] = case["name"]
    if case["ttl"] is not None:
        kw["ttl"] = case["ttl"]
    if case["rdclass"] is not None:
        kw["rdclass"] = case["rdclass"]
    if case["default_rdclass"] is not None:
        kw["default_rdclass"] = case["default_rdclass"]
    if case["rdtype"] is not None:
        kw["rdtype"] = case["rdtype"]
    if case["default_ttl"] is not None:
        kw["default_ttl"] = case["default_ttl"]
    kw["origin"] = {"ex": "example.", "none": None, "root": dns.name.root}[case["origin"]]
    kw["relativize"] = case["relativize"]
    try:
        rrsets = dns.zonefile.read_rrsets(t, **kw)
    except Exception as e:
        if not _family(e, zone_level=True):
            raise _foreign("read_rrsets", e, f"dns.zonefile.read_rrsets({kw})")
        return {"nontrivial": len(t.strip()) > 0, "classes": ["exc:" + type(e).__name__]}
    _usable("read_rrsets", lambda: [rr.to_text() for rr in rrsets], "rrset.to_text()")
    return {"nontrivial": True, "classes": ["parsed"]}


@st.composite
def read_rrsets_cases(draw):
    z = draw(text_zone_cases())
    return {"text": z["text"], "origin": z["origin"], "relativize": z["relativize"],
            "name": draw(st.sampled_from([None, None, "forced.example.", "@", "a..b", ""])),
            "ttl": draw(st.sampled_from([None, None, 300, "1h", "x", -1])),
            "rdclass": draw(st.sampled_from([None, None, "IN", "CH", 1, "BAD"])),
            "default_rdclass": draw(st.sampled_from([None, "IN", "ANY", 3])),
            "rdtype": draw(st.sampled_from([None, None, "A", "TXT", 16, "BAD"])),
            "default_ttl": draw(st.sampled_from([None, None, 60, "1d", "bad"]))}


def run_text_message(case):
    import dns.message

    t = case["text"]
    try:
        m = dns.message.from_text(t, one_rr_per_rrset=case["one_rr_per_rrset"])
    except Exception as e:
        if not _family(e):
            raise _foreign("text_message", e, "dns.message.from_text")
        return {"nontrivial": len(t.strip()) > 0, "classes": ["exc:" + type(e).__name__]}
    _usable("text_message", lambda: m.to_text(), "Message.to_text()")
    _usable("text_message", lambda: m.to_wire(max_size=65535), "Message.to_wire()")
    return {"nontrivial": True, "classes": ["parsed"]}


@st.composite
def text_message_cases(draw):
    import dns.exception

    desc = draw(MG.message(big_ok=False, sections_max=2))
    try:
        base = MG.build(desc).to_text()
    except Exception:  # seed text only; the oracle for this call is in run_*
        base = "id 1\nopcode QUERY\nrcode NOERROR\nflags RD\n;QUESTION\nexample. IN A\n"
    k = draw(st.integers(0, 4))
    t = base if k == 0 else draw(soup(base))
    if k == 3:
        t = draw(soup(None, max_tokens=14))
    if k == 4:
        # one integer token of a well-formed message text replaced by a boundary number
        nums = [mm for mm in re.finditer(r"(?<![\w.:-])\d+(?![\w.:-])", base)]
        if nums:
            mm = nums[draw(st.integers(0, len(nums) - 1))]
            v = draw(st.sampled_from(["0", "255", "256", "4095", "4096", "65535", "65536", "2147483647", "2147483648", "4294967295", "4294967296",
                                      "281474976710656", "99999999999999999999", "-1", "00", "0x10"]))
            t = base[: mm.start()] + v + base[mm.end():]
    return {"text": t, "one_rr_per_rrset": draw(st.booleans())}


def run_text_misc(case):
    import dns.grange
    import dns.rcode
    import dns.opcode
    import dns.flags
    import dns.rdataclass
    import dns.rdatatype
    import dns.ttl
    import dns.tokenizer
    import dns.ipv4
    import dns.ipv6
    import dns.edns
    import dns.e164
    import dns.name
    import dns.rdata
    import dns.rdataset
    import dns.reversename
    import dns.rrset

    t = case["text"]
    out = []
    fns = [
        ("ttl.from_text", lambda: dns.ttl.from_text(t)),
        ("rdatatype.from_text", lambda: dns.rdatatype.from_text(t)),
        ("rdataclass.from_text", lambda: dns.rdataclass.from_text(t)),
        # rcode/opcode/flags/grange/address helpers are not entry points of the property; they
        # are reached through message.from_text, zone files and rdata text
        ("tokenizer", lambda: [tok for tok in _tokens(t)]),
        # helper constructors that parse text
        ("rrset.from_text(name)", lambda: dns.rrset.from_text(t, 300, "IN", "A", "10.0.0.1")),
        ("rrset.from_text(rdata)", lambda: dns.rrset.from_text("a.", 300, "IN", "TXT", t)),
        ("rrset.from_text(ttl)", lambda: dns.rrset.from_text("a.", t, "IN", "A", "10.0.0.1")),
        ("rrset.from_text(class)", lambda: dns.rrset.from_text("a.", 300, t, "A", "10.0.0.1")),
        ("rrset.from_text(type)", lambda: dns.rrset.from_text("a.", 300, "IN", t, "10.0.0.1")),
        ("rdataset.from_text", lambda: dns.rdataset.from_text("IN", "MX", 300, t)),
        ("name.from_unicode", lambda: dns.name.from_unicode(t)),
        ("name.from_text(IDNA2008)", lambda: dns.name.from_text(t, idna_codec=dns.name.IDNA_2008)),
        ("name.to_unicode", lambda: dns.name.from_text(t).to_unicode()),
        ("reversename.from_address", lambda: dns.reversename.from_address(t)),
        ("e164.from_e164", lambda: dns.e164.from_e164(t)),
        ("rdata.from_text(IDNA2003)", lambda: dns.rdata.from_text("IN", "NS", t, idna_codec=dns.name.IDNA_2003)),
    ]
    for label, fn in fns:
        try:
            fn()
            out.append("ok:" + label)
        except Exception as e:
            # rdatatype/rdataclass.from_text document ValueError for out-of-range TYPEnnn/CLASSnnn
            documented = label in ("rdatatype.from_text", "rdataclass.from_text", "rrset.from_text(class)", "rrset.from_text(type)") and type(e) is ValueError
            if not _family(e) and not documented:
                raise _foreign("text_misc", e, f"dns.{label}({t!r})")
            out.append("exc:" + type(e).__name__)
    return {"nontrivial": len(t) > 0, "classes": sorted(set(out))}


def _tokens(t):
    import dns.tokenizer

    tok = dns.tokenizer.Tokenizer(t)
    n = 0
    while True:
        token = tok.get(want_leading=True, want_comment=True)
        if token.is_eof():
            break
        token.unescape()
        token.unescape_to_bytes()
        yield token
        n += 1
        if n > 10000:
            raise AssertionError("tokenizer does not terminate")


@st.composite
def text_misc_cases(draw):
    return {"text": draw(st.one_of(st.sampled_from(_LEX), st.text(max_size=12), soup(None, max_tokens=3)))}


@st.composite
def wire_name_cases(draw):
    from vlib.props import c01

    return draw(c01.decode_cases())


# ---------------------------------------------------------------------------
# coverage-guided campaigns (thorough tier): atheris / libFuzzer, one subprocess per campaign


def _seed_corpus(target, d):
    """a few small valid inputs taken from the repository's own test data"""
    import os

    import dns.message
    import dns.rdata
    import dns.zone

    from vlib.fuzz import driver

    repo = os.environ.get("VERIF_REPO", "/repo")
    n = 0

    def put(head, body):
        nonlocal n
        with open(os.path.join(d, f"seed{n:04d}"), "wb") as f:
            f.write(bytes(head) + body)
        n += 1

    try:
        ztext = open(os.path.join(repo, "tests", "example")).read()
    except OSError:
        ztext = "\n".join(_ZLINES)
    if target in ("text_zone", "read_rrsets"):
        put([0, 0, 3, 0], ztext[:6000].encode())
        put([1, 0, 0, 0], "\n".join(_ZLINES).encode())
        for l in _ZLINES:
            put([0, 0, 1, 0], ("$ORIGIN example.\n$TTL 300\n" + l).encode())
        return
    try:
        z = dns.zone.from_text(ztext, origin="example.", relativize=False)
        rds = [(int(rds.rdtype), rd) for _, rds in z.iterate_rdatasets() for rd in rds]
    except Exception:
        rds = []
    types = [t for t in R.ALL_TYPES if t != "OPT"]
    if target == "text_rdata":
        for rdtype, rd in rds[:150]:
            idx = [i for i, t in enumerate(types) if R.TYPECODES[t] == rdtype and t != "CH_A"]
            if idx:
                put([idx[0], 0, 0, 0], rd.to_text().encode())
    elif target == "wire_rdata":
        for rdtype, rd in rds[:150]:
            idx = [i for i, t in enumerate(R.ALL_TYPES) if R.TYPECODES[t] == rdtype and t != "CH_A"]
            if idx:
                put([idx[0], 0, 0, 0], rd.to_wire())
    elif target == "wire_message":
        q = dns.message.make_query("www.example.", "A", use_edns=0)
        put([0, 0, 0, 0], q.to_wire())
        r = dns.message.make_response(q)
        for name, rdataset in list(z.iterate_rdatasets())[:12] if rds else []:
            r.find_rrset(r.answer, name, rdataset.rdclass, rdataset.rdtype, rdataset.covers, create=True).update(rdataset)
        put([16, 0, 0, 0], r.to_wire(max_size=65535))
        put([0, 0, 0, 0], r.to_wire(max_size=65535))
    elif target == "text_message":
        q = dns.message.make_query("www.example.", "A", use_edns=0)
        put([0, 0, 0, 0], q.to_text().encode())
    elif target == "text_name":
        for t in ("www.example.", "a\\.b.c", "\\065\\066.", "@", "*.x"):
            put([0, 0, 0, 0], t.encode())
    elif target == "wire_name":
        put([0, 0, 0, 0], b"\x03www\x07example\x00\x01a\xc0\x04")
    else:
        put([0, 0, 0, 0], b"1h30m")


def run_atheris(case):
    import os
    import shutil
    import subprocess
    import sys
    import tempfile

    from vlib.fuzz import driver
    from vlib.runner import HERE, HarnessError

    target = case["target"]
    fn = globals()["run_" + target]
    if "bytes" in case:
        # replay of a saved libFuzzer input
        res = fn(driver.decode(target, bytes.fromhex(case["bytes"])))
        return res
    deps = os.path.join(HERE, ".deps")
    env = dict(os.environ)
    env["PYTHONPATH"] = HERE + os.pathsep + deps + os.pathsep + env.get("PYTHONPATH", "")
    try:
        subprocess.run([sys.executable, "-c", "import atheris"], env=env, check=True, capture_output=True)
    except subprocess.CalledProcessError:
        return {"nontrivial": False, "classes": ["atheris-unavailable"]}
    work = tempfile.mkdtemp(prefix="c04fuzz.")
    try:
        corpus = os.path.join(work, "corpus")
        arts = os.path.join(work, "art")
        os.makedirs(corpus)
        os.makedirs(arts)
        if case["corpus"] == "seeded":
            _seed_corpus(target, corpus)
        cmd = [sys.executable, "-m", "vlib.fuzz.driver", target, f"-runs={case['runs']}", f"-seed={case['seed']}", "-max_len=4096",
               "-timeout=30", "-rss_limit_mb=4096", f"-artifact_prefix={arts}/", "-print_final_stats=1", corpus]
        p = subprocess.run(cmd, env=env, cwd=HERE, capture_output=True, text=True, timeout=case.get("wall", 900))
        execs = 0
        for line in p.stderr.splitlines():
            if "stat::number_of_executed_units" in line:
                execs = int(line.split()[-1])
        found = sorted(os.listdir(arts))
        if found:
            data = open(os.path.join(arts, found[0]), "rb").read()
            sub = {"target": target, "bytes": data.hex()}
            kind = found[0].split("-")[0]
            if kind == "timeout":
                raise Violation("hang", f"libFuzzer: {target} did not finish within 30 s on a {len(data)}-octet input", f"atheris-timeout:{target}", detail={"replay_case": sub})
            try:
                fn(driver.decode(target, data))
            except Violation as v:
                v.detail = {"replay_case": sub}
                raise
            raise HarnessError(f"atheris {target}: saved input {found[0]} does not reproduce in-process:\n{p.stderr[-800:]}")
        if p.returncode != 0:
            raise HarnessError(f"atheris {target} exited {p.returncode} without an artifact:\n{p.stderr[-1500:]}")
        return {"nontrivial": execs > 1000, "classes": ["campaign:" + target, "corpus:" + case["corpus"]], "units": execs}
    except subprocess.TimeoutExpired:
        return {"nontrivial": False, "classes": ["campaign-wall-budget-hit"]}
    finally:
        shutil.rmtree(work, ignore_errors=True)


def atheris_campaigns(tier):
    from vlib.fuzz import driver
    import os

    seed = int(os.environ.get("VERIF_SEED", "1") or "1")
    runs = {"quick": 20000, "thorough": 400000}[tier]
    out = []
    for t in driver.TARGETS:
        for corpus in ("seeded", "empty"):
            out.append({"target": t, "runs": runs, "seed": seed * 1000 + len(out) + 1, "corpus": corpus, "wall": 1200})
    return out


def parts(tier):
    q = tier == "quick"
    mk = lambda a, b: {"quick": a, "thorough": b}
    return [
        Part("wire_message", run_wire_message, strategy=wire_message_cases(), n=mk(6000, 400000),
             require={"parsed": 800, "coe-errors-recorded": 100, "exc:FormError": 200, "expanding:rerender-refused": 15}, shards={"quick": 8, "thorough": 16}),
        Part("wire_name", run_wire_name, strategy=wire_name_cases(), n=mk(3000, 100000), shards={"quick": 2, "thorough": 4}),
        Part("wire_rdata", run_wire_rdata, strategy=wire_rdata_cases(), n=mk(8000, 400000),
             require={"parsed": 1500}, shards={"quick": 8, "thorough": 16}),
        Part("text_name", run_text_name, strategy=text_name_cases(), n=mk(5000, 200000),
             require={"parsed": 1000}, shards={"quick": 4, "thorough": 8}),
        Part("text_rdata", run_text_rdata, strategy=text_rdata_cases(), n=mk(10000, 500000),
             require={"parsed": 450}, shards={"quick": 8, "thorough": 16}),
        Part("text_zone", run_text_zone, strategy=text_zone_cases(), n=mk(5000, 300000),
             require={"parsed": 150, "located": 500}, shards={"quick": 8, "thorough": 16}),
        Part("read_rrsets", run_read_rrsets, strategy=read_rrsets_cases(), n=mk(3000, 150000),
             require={"parsed": 100}, shards={"quick": 4, "thorough": 8}),
        Part("text_message", run_text_message, strategy=text_message_cases(), n=mk(3000, 150000),
             require={"parsed": 300}, shards={"quick": 4, "thorough": 8}),
        Part("text_misc", run_text_misc, strategy=text_misc_cases(), n=mk(3000, 100000), shards={"quick": 2, "thorough": 4}),
    ] + ([] if q else [
        Part("atheris", run_atheris, cases=lambda: atheris_campaigns("thorough"), shards={"quick": 16, "thorough": 16},
             case_timeout_s=1500.0),
    ])
