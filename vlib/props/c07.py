"""C07  Records and record sets have value semantics and exact set algebra."""

import copy

from hypothesis import strategies as st

from vlib.gen import names as G
from vlib.gen import rdata as R
from vlib.ref import canon as C
from vlib.ref import wire as W
from vlib.runner import Part, Violation

ID = "C07"
LEVEL = "exploration"
TECHNIQUE = (
    "property-based testing: generated record pairs checked against an independent RFC 4034 "
    "canonical form (equality, hash, order, immutability walk); Hypothesis-generated operation "
    "histories over Set/Rdataset/RRset/ImmutableRdataset against an insertion-ordered set model"
)
LEVEL_TEXT = (
    "Equality/hash/order of records agree with the reference canonical encoding on generated pairs "
    "(incl. case-only differences in embedded names); every slot of every generated Name/Rdata "
    "refuses rebinding and holds no mutable container; every public set operation, in-place, "
    "copying, operator and aliased forms, agrees with a dict-based ordered-set model after every "
    "step, intruders are refused, singletons replace, TTL follows the documented min rule. "
    "Search over histories <= 40 steps, not a proof."
)
RULE = (
    "cases: (records) two records of one type where the second is an independent draw, a copy, or "
    "the first with ASCII case flipped inside embedded names; (sets) an operation list over three "
    "sets of one (class,type,covers) drawn from a pool of <= 6 records incl. case variants, with "
    "aliasing operands, intruder records and singleton types. non-trivial (sets) = history with >= 4 "
    "steps containing a duplicate insertion, an aliased operation, an intruder or a singleton "
    "replacement; (records) = records that differ only in case or are unequal with a shared prefix"
)
RULE += (
    " Round 10 added: TTL of symmetric difference (minimum of the two when the other set contributes records to a non-empty set), TTL-sensitive openings."
)
ASSUMPTIONS = [
    "reference canonical form: vlib/ref/canon.py (RFC 4034 6.2 minus NSEC); class CH 'A' is outside "
    "that list's scope and is excluded from the canonical-equality comparison",
    "documented refinement: a record containing a relative name never equals one with only absolute "
    "names; ordering is asserted for absolute-name records only",
    "TTL rule asserted for add(ttl)/update_ttl/union/update forms (documented update_ttl rule) and for symmetric difference when the other set contributes records to a non-empty set (min of the two TTLs)",
]

_MUTABLE = (list, dict, set, bytearray)


def _flip_names(draw, rdtype, wire):
    """flip ASCII case inside embedded names of an uncompressed RDATA"""
    b = bytearray(wire)
    for s, e in C.name_positions(rdtype, wire):
        pos = s
        while pos < e:
            l = b[pos]
            for i in range(pos + 1, pos + 1 + l):
                c = b[i]
                if (65 <= c <= 90 or 97 <= c <= 122) and draw(st.booleans()):
                    b[i] = c ^ 0x20
            pos += 1 + l
    return bytes(b)


def _walk_immutable(obj, path, seen, depth=0):
    """every slot refuses setattr/delattr; nothing reachable is a mutable container"""
    import dns.edns
    import dns.name
    import dns.rdata

    import enum

    if id(obj) in seen or depth > 6:
        return 0
    if obj is None or isinstance(obj, (int, float, str, bytes, bool, enum.Enum)):
        return 0  # immutable leaves (enum members are Python-level singletons)
    seen.add(id(obj))
    n = 0
    if isinstance(obj, _MUTABLE):
        raise Violation("immutable", f"{path} is a mutable {type(obj).__name__}", "container:" + path.split(".")[-1])
    if isinstance(obj, (tuple, frozenset)):
        for i, x in enumerate(obj):
            n += _walk_immutable(x, f"{path}[{i}]", seen, depth + 1)
        return n
    if isinstance(obj, dns.edns.Option):
        return 0  # leaves by the scoping decision in DESIGN section 4.3
    import dns.immutable

    if isinstance(obj, dns.immutable.Dict):
        # public surface of the immutable mapping (its private backing dict is not reachable
        # through the public API)
        for what, fn in (("setitem", lambda: obj.__setitem__("x", 1)), ("delitem", lambda: obj.__delitem__("x")),
                         ("clear", lambda: obj.clear()), ("update", lambda: obj.update({"x": 1})),
                         ("pop", lambda: obj.pop("x", None)), ("setdefault", lambda: obj.setdefault("x", 1))):
            try:
                fn()
            except (TypeError, AttributeError):
                pass
            else:
                raise Violation("immutable", f"{path}: immutable mapping accepted {what}", "mapping:" + what)
        for k in list(obj.keys()):
            n += _walk_immutable(obj[k], f"{path}[{k!r}]", seen, depth + 1)
        return n
    if isinstance(obj, (dns.name.Name, dns.rdata.Rdata)) or type(obj).__module__.startswith("dns."):
        slots = []
        for k in type(obj).__mro__:
            slots.extend(getattr(k, "__slots__", ()))
        if hasattr(obj, "__dict__"):
            slots.extend(obj.__dict__.keys())
        for s in slots:
            if not hasattr(obj, s):
                continue
            before = getattr(obj, s)
            for what, fn in (("setattr", lambda: setattr(obj, s, None)), ("delattr", lambda: delattr(obj, s))):
                try:
                    fn()
                except (TypeError, AttributeError):
                    pass
                else:
                    raise Violation("immutable", f"{what}({path}.{s}) succeeded on {type(obj).__name__}", f"{what}:{type(obj).__name__}.{s}")
            if getattr(obj, s) is not before:
                raise Violation("immutable", f"{path}.{s} changed after a refused rebinding", "changed")
            n += 1
            n += _walk_immutable(before, f"{path}.{s}", seen, depth + 1)
        if isinstance(obj, (dns.name.Name, dns.rdata.Rdata)):
            try:
                setattr(obj, "brand_new_attribute", 1)
            except (TypeError, AttributeError):
                pass
            else:
                raise Violation("immutable", f"new attribute could be bound on {type(obj).__name__}", "newattr:" + type(obj).__name__)
    elif hasattr(obj, "items") and hasattr(obj, "keys") and not isinstance(obj, dict):
        # dns.immutable.Dict and friends
        try:
            obj["x"] = 1
        except TypeError:
            pass
        else:
            raise Violation("immutable", f"{path}: mapping accepted item assignment", "mapping")
        for k in list(obj.keys()):
            n += _walk_immutable(obj[k], f"{path}[{k!r}]", seen, depth + 1)
    return n


def run_records(case):
    import dns.exception
    import dns.name
    import dns.rdata

    rdclass, rdtype, tname = case["rdclass"], case["rdtype"], case["type"]
    ws = [bytes.fromhex(case["wire"]), bytes.fromhex(case["wire2"])]
    rds = []
    for w in ws:
        try:
            rds.append(dns.rdata.from_wire(rdclass, rdtype, w, 0, len(w)))
        except dns.exception.FormError:
            return {"nontrivial": False, "classes": ["rej:" + tname]}
    a, b = rds
    classes = ["acc:" + tname]
    # 1. immutability
    nslots = _walk_immutable(a, tname, set())
    if nslots:
        classes.append("slots-walked")
    # 1b. a record built through the public constructor does not alias the containers it was given:
    # replace(field=<mutable copy>) and then mutating that copy leaves the record unchanged
    import collections.abc

    w0, h0, t0 = a.to_wire(), hash(a), a.to_text()
    for k in a._get_all_slots():
        v = getattr(a, k, None)
        mine = None
        if isinstance(v, collections.abc.Mapping) and len(v) > 0:
            mine = dict(v)
            poke = lambda m: m.pop(next(iter(m)))
        elif isinstance(v, tuple) and len(v) > 0:
            mine = list(v)
            poke = lambda m: m.pop()
        elif isinstance(v, bytes) and len(v) > 0:
            mine = bytearray(v)
            poke = lambda m: m.__setitem__(0, m[0] ^ 0xFF)
        if mine is None:
            continue
        try:
            built = a.replace(**{k: mine})
        except Exception:
            continue  # this field does not take that container type: nothing to alias
        if built != a or built.to_wire() != w0:
            continue  # the constructor normalised the argument differently; covered by C02
        poke(mine)
        if built.to_wire() != w0 or hash(built) != h0 or built.to_text() != t0 or built != a:
            raise Violation("immutable", f"{tname}: a record built with {k}=<{type(mine).__name__}> changed when the caller mutated that {type(mine).__name__} afterwards", f"ctor-alias:{tname}.{k}")
        classes.append("ctor-alias-checked")
    # 1c. equality is about class, type and canonical encoding, not about the Python class that
    # carries them: the same canonical octets held by a GenericRdata are the same record
    try:
        canon = a.to_digestable()
    except dns.name.NeedAbsoluteNameOrOrigin:
        canon = None
    if canon is not None:
        import dns.rdataset

        g = dns.rdata.GenericRdata(rdclass, rdtype, canon)
        if type(g) is not type(a):
            if not (a == g) or not (g == a) or (a != g) or (g != a):
                raise Violation("equality", f"{tname}: a record and a GenericRdata holding its canonical encoding {canon.hex()} compare unequal", "typed-vs-generic:" + tname)
            if hash(a) != hash(g):
                raise Violation("equality", f"{tname}: equal records (typed / generic) hash differently", "typed-vs-generic-hash:" + tname)
            if tname not in ("RRSIG", "SIG"):  # a GenericRdata cannot tell which type it covers
                s1 = dns.rdataset.Rdataset(rdclass, rdtype)
                s1.add(a, 300)
                s1.add(g, 300)
                if len(s1) != 1:
                    raise Violation("equality", f"{tname}: a record set keeps a record and its generic twin as two members", "typed-vs-generic-set:" + tname)
            classes.append("typed-vs-generic")
    # 2. equality <=> same reference canonical encoding of the re-encoded (normalised) wire
    if tname != "CH_A":
        ca = C.canonical_rdata(rdtype, a.to_wire())
        cb = C.canonical_rdata(rdtype, b.to_wire())
        want_eq = ca == cb
        if (a == b) != want_eq or (a != b) == want_eq:
            raise Violation(
                "equality",
                f"{tname}: a==b is {a == b} but canonical forms {'agree' if want_eq else 'differ'}: {ws[0].hex()} vs {ws[1].hex()}",
                "eq:" + tname,
            )
        if want_eq and hash(a) != hash(b):
            raise Violation("equality", f"{tname}: equal records hash differently", "hash:" + tname)
        if want_eq and {a: 1}.get(b) != 1:
            raise Violation("equality", f"{tname}: equal records not interchangeable as dict keys", "dictkey:" + tname)
        # digestable form itself
        if a.to_digestable() != ca:
            raise Violation("canonical", f"{tname}: to_digestable() {a.to_digestable().hex()} != reference canonical form {ca.hex()}", "digestable:" + tname)
        # ordering = canonical RDATA octet order
        want = (ca > cb) - (ca < cb)
        got = (a > b) - (a < b)
        if got != want or (a <= b) != (want <= 0) or (a >= b) != (want >= 0):
            raise Violation("order", f"{tname}: ordering {got} but canonical octet order {want}", "order:" + tname)
        if want_eq and ws[0] != ws[1]:
            classes.append("equal-differ-in-case")
        srt = sorted([b, a, b])
        if [C.canonical_rdata(rdtype, x.to_wire()) for x in srt] != sorted([cb, ca, cb]):
            raise Violation("order", f"{tname}: sorted() not in canonical order", "sorted:" + tname)
    # 3. relative vs absolute refinement
    if case.get("origin") is not None:
        o = dns.name.Name(G.unhexl(case["origin"]))
        ar = dns.rdata.from_wire(rdclass, rdtype, ws[0], 0, len(ws[0]), o)
        try:
            ar.to_wire()
            relative = False
        except dns.name.NeedAbsoluteNameOrOrigin:
            relative = True
        if relative:
            classes.append("relative")
            if ar == a or a == ar:
                raise Violation("equality", f"{tname}: a record with relative names equals its absolute twin", "relabs:" + tname)
            ar2 = dns.rdata.from_wire(rdclass, rdtype, ws[0], 0, len(ws[0]), o)
            if ar != ar2 or hash(ar) != hash(ar2):
                raise Violation("equality", f"{tname}: two identical relative records differ", "releq:" + tname)
            # relative records that are equal (same canonical encoding, e.g. names differing in case
            # only) hash equally and collapse in a set, exactly like absolute ones
            swapped = bytes(c ^ 0x20 if (65 <= c <= 90 or 97 <= c <= 122) else c for c in ws[0])
            try:
                tw = dns.rdata.from_wire(rdclass, rdtype, swapped, 0, len(swapped), o)
            except dns.exception.FormError:
                tw = None
            if tw is not None and tw == ar:
                if hash(tw) != hash(ar):
                    raise Violation("equality", f"{tname}: equal records holding relative names hash differently ({ar.to_text()!r} / {tw.to_text()!r})", "rel-case-twin-hash:" + tname)
                if len({ar, tw}) != 1:
                    raise Violation("equality", f"{tname}: equal relative records stay two members of a set", "rel-case-twin-set:" + tname)
                if tw.to_text() != ar.to_text():
                    classes.append("relative-case-twin")
            # the relative name "x" (under origin o) is not the absolute name "x.": rewrite the
            # first embedded name that lies strictly beneath o as <prefix>. (absolute) and decode
            # with the same origin; the two records must not compare equal
            o_l = list(o.labels)
            if len(o_l) > 1:
                pos = C.name_positions(rdtype, ws[0])
                alt = None
                for s_, e_ in pos:
                    info = W.read_name(ws[0], s_)
                    labs = list(info.labels)
                    if len(labs) > len(o_l) and [W.lower(x) for x in labs[-len(o_l):]] == [W.lower(x) for x in o_l]:
                        pre = labs[: len(labs) - len(o_l)]
                        alt = ws[0][:s_] + W.encode_name(pre + [b""]) + ws[0][e_:]
                        break
                if alt is not None:
                    try:
                        aalt = dns.rdata.from_wire(rdclass, rdtype, alt, 0, len(alt), o)
                    except dns.exception.FormError:
                        aalt = None
                    if aalt is not None and aalt.to_wire(origin=o) != ar.to_wire(origin=o):
                        classes.append("relative-vs-absolute-twin")
                        if aalt == ar or ar == aalt:
                            raise Violation(
                                "equality",
                                f"{tname}: a record holding the relative name {b'.'.join(pre)!r} equals one holding the absolute name {b'.'.join(pre)!r}. (wires {ar.to_wire(origin=o).hex()} vs {aalt.to_wire(origin=o).hex()})",
                                "rel-abs-twin:" + tname,
                            )
            _walk_immutable(ar, tname + "(rel)", set())
    # 4. a different class or type is never equal
    g = dns.rdata.GenericRdata(rdclass, 65280, a.to_wire())
    if g == a or a == g:
        raise Violation("equality", f"{tname}: equals a record of another type with the same octets", "cross-type")
    nontrivial = "equal-differ-in-case" in classes or (ws[0] != ws[1] and ws[0][:1] == ws[1][:1])
    return {"nontrivial": nontrivial, "classes": classes}


@st.composite
def record_cases(draw):
    tname = R.type_choice(draw, R.ALL_TYPES)
    origin = None
    ctx = {}
    if tname in R.NAME_TYPES and draw(st.integers(0, 2)) == 0:
        origin = draw(G.abs_name(max_wire=20))
        ctx["origin"] = origin
    case = draw(R.record(ctx=ctx, name=tname))
    w = bytes.fromhex(case["wire"])
    k = draw(st.integers(0, 3))
    if k == 0:
        w2 = w
    elif k == 1 or tname not in R.NAME_TYPES:
        w2 = bytes.fromhex(draw(R.record(ctx=ctx, name=tname))["wire"])
    else:
        try:
            w2 = _flip_names(draw, case["rdtype"], w)
        except W.WireError:
            w2 = w
    case["wire2"] = w2.hex()
    case["origin"] = None if origin is None else G.hexl(origin)
    return case


# ---------------------------------------------------------------------------
# set algebra

SET_TYPES = ["A", "TXT", "MX", "NS", "SOA", "CNAME", "RRSIG", "SRV", "DNAME", "NSEC"]
SINGLETONS = {"SOA", "CNAME", "DNAME", "NSEC"}


def _key(rdtype, rd):
    return C.canonical_rdata(rdtype, rd.to_wire())


class _M:
    """model: insertion-ordered dict canonical-key -> pool index, plus ttl"""

    def __init__(self, ttl=0):
        self.d = {}
        self.ttl = ttl

    def copy(self):
        m = _M(self.ttl)
        m.d = dict(self.d)
        return m

    def update_ttl(self, ttl):
        if len(self.d) == 0:
            self.ttl = ttl
        elif ttl < self.ttl:
            self.ttl = ttl


def run_sets(case):
    import dns.exception
    import dns.name
    import dns.rdata
    import dns.rdataset
    import dns.rrset
    import dns.set

    tname = case["type"]
    rdtype = R.TYPECODES[tname]
    rdclass = 1
    pool = []
    for h in case["pool"]:
        w = bytes.fromhex(h)
        try:
            pool.append(dns.rdata.from_wire(rdclass, rdtype, w, 0, len(w)))
        except dns.exception.FormError:
            pass
    if len(pool) < 2:
        return {"nontrivial": False, "classes": ["pool-too-small"]}
    keys = [_key(rdtype, r) for r in pool]
    singleton = tname in SINGLETONS
    covers = 0
    if tname == "RRSIG":
        nz = [r for r in pool if int(r.covers()) != 0]
        if not nz:
            return {"nontrivial": False, "classes": ["pool-too-small"]}
        # covers NONE (0) means "not set yet" for an empty rdataset: use a real covered type
        covers = int(nz[0].covers())
        keep = [i for i, r in enumerate(pool) if int(r.covers()) == covers]
        intr_cov = [r for r in pool if int(r.covers()) != covers]
        pool = [pool[i] for i in keep]
        keys = [keys[i] for i in keep]
        if len(pool) < 2:
            return {"nontrivial": False, "classes": ["pool-too-small"]}
    else:
        intr_cov = []
    intruders = [
        dns.rdata.from_text(1, "AAAA", "::1") if tname != "AAAA" else dns.rdata.from_text(1, "A", "1.2.3.4"),
        dns.rdata.GenericRdata(3, rdtype, pool[0].to_wire()),  # same type, other class
    ] + intr_cov
    kind = case["kind"]
    owner = dns.name.from_text("set.example.")

    def mk():
        if kind == "rrset":
            return dns.rrset.RRset(owner, rdclass, rdtype, covers)
        return dns.rdataset.Rdataset(rdclass, rdtype, covers)

    real = [mk(), mk(), mk()]
    model = [_M(), _M(), _M()]
    frozen = {}  # index -> (ImmutableRdataset, model snapshot)
    classes = set()
    flags = {"dup": False, "alias": False, "intruder": False, "singleton": False}

    def check(i, where):
        r, m = real[i], model[i]
        got = [_key(rdtype, x) for x in r]
        want = list(m.d.keys())
        if got != want:
            raise Violation("sets", f"{where}: set#{i} iterates {[g.hex() for g in got]} but model (first-insertion order) has {[w.hex() for w in want]}", "content:" + where.split(" ")[0])
        if len(r) != len(want):
            raise Violation("sets", f"{where}: len {len(r)} != {len(want)}", "len")
        for k, x in zip(keys, pool):
            if (x in r) != (k in m.d):
                raise Violation("sets", f"{where}: membership of pool record wrong in set#{i}", "contains")

    def model_binop(op, a, b):
        ka, kb = list(a.d.keys()), list(b.d.keys())
        if op == "union":
            out = dict(a.d)
            for k in kb:
                out.setdefault(k, b.d[k])
            return out
        if op == "intersection":
            return {k: a.d[k] for k in ka if k in b.d}
        if op == "difference":
            return {k: a.d[k] for k in ka if k not in b.d}
        if op == "symmetric_difference":
            out = {k: a.d[k] for k in ka if k not in b.d}
            for k in kb:
                if k not in a.d:
                    out[k] = b.d[k]
            return out
        raise AssertionError(op)

    def add_model(m, idx, ttl):
        if ttl is not None:
            m.update_ttl(ttl)
        k = keys[idx]
        if singleton and len(m.d) > 0:
            if k not in m.d or len(m.d) > 1:
                flags["singleton"] = True
            m.d.clear()
        if k in m.d:
            flags["dup"] = True
        else:
            m.d[k] = idx

    nsteps = 0
    for step, op in enumerate(case["ops"]):
        name = op[0]
        i = op[1] % 3
        where = f"{name} step{step}"
        r, m = real[i], model[i]
        nsteps += 1
        if name == "add":
            idx, ttl = op[2] % len(pool), op[3]
            r.add(pool[idx], ttl) if ttl is not None else r.add(pool[idx])
            add_model(m, idx, ttl)
            if ttl is not None and r.ttl != m.ttl:
                raise Violation("ttl", f"{where}: ttl {r.ttl}, documented rule gives {m.ttl}", "ttl-add")
        elif name == "intruder":
            x = intruders[op[2] % len(intruders)]
            before = list(r)
            ttl_before = r.ttl
            try:
                r.add(x, 5)
            except (dns.rdataset.IncompatibleTypes, dns.rdataset.DifferingCovers):
                classes.add("intruder-refused")
            else:
                raise Violation("sets", f"{where}: a record of another class/type/covered type was accepted: {x!r}", "intruder-accepted")
            if list(r) != before:
                raise Violation("sets", f"{where}: refused intruder changed the set", "intruder-changed")
            if r.ttl != ttl_before:
                raise Violation("sets", f"{where}: refused intruder changed the TTL from {ttl_before} to {r.ttl}", "intruder-ttl")
            flags["intruder"] = True
        elif name in ("remove", "discard"):
            idx = op[2] % len(pool)
            k = keys[idx]
            if name == "remove":
                try:
                    r.remove(pool[idx])
                except ValueError:
                    if k in m.d:
                        raise Violation("sets", f"{where}: remove of a member raised", "remove")
                else:
                    if k not in m.d:
                        raise Violation("sets", f"{where}: remove of a non-member did not raise ValueError", "remove-absent")
            else:
                r.discard(pool[idx])
            m.d.pop(k, None)
        elif name == "pop":
            if len(m.d) == 0:
                try:
                    r.pop()
                except KeyError:
                    pass
                else:
                    raise Violation("sets", f"{where}: pop from an empty set returned", "pop-empty")
            else:
                x = r.pop()
                k = _key(rdtype, x)
                if k not in m.d:
                    raise Violation("sets", f"{where}: pop returned a non-member", "pop")
                del m.d[k]
        elif name == "update_ttl":
            r.update_ttl(op[2])
            m.update_ttl(op[2])
            if r.ttl != m.ttl:
                raise Violation("ttl", f"{where}: ttl {r.ttl}, documented rule gives {m.ttl}", "ttl-update")
        elif name in ("union_update", "intersection_update", "difference_update", "symmetric_difference_update",
                      "ior", "iand", "isub", "ixor", "iadd", "update"):
            j = op[2] % 3
            if i == j:
                flags["alias"] = True
            base = {"ior": "union", "iadd": "union", "iand": "intersection", "isub": "difference",
                    "ixor": "symmetric_difference", "update": "union"}.get(name, name.replace("_update", ""))
            mj = model[j].copy()
            pre_len, pre_ttl = len(m.d), m.ttl
            contrib = any(k not in m.d for k in mj.d)
            if singleton and base in ("union", "symmetric_difference"):
                # adding several records to a singleton set keeps only the newest: model by replay
                if base == "union":
                    if i != j:
                        m.update_ttl(mj.ttl)
                        for k, idx in mj.d.items():
                            add_model(m, idx, None)
                    res = None
                else:
                    res = "skip"
            else:
                res = model_binop(base, m, mj)
            if res == "skip":
                continue
            other = real[j]
            if name == "update":
                r.update(other)
            elif name.endswith("_update"):
                getattr(r, name)(other)
            else:
                before_id = id(r)
                if name == "ior":
                    r |= other
                elif name == "iand":
                    r &= other
                elif name == "isub":
                    r -= other
                elif name == "ixor":
                    r ^= other
                else:
                    r += other
                if id(r) != before_id:
                    raise Violation("sets", f"{where}: in-place operator returned a new object", "inplace-identity")
                real[i] = r
            if res is not None:
                if base == "union" and i != j:
                    m.update_ttl(mj.ttl)
                m.d = res
            if base == "union" and r.ttl != m.ttl and i != j:
                raise Violation("ttl", f"{where}: ttl {r.ttl}, documented rule gives {m.ttl}", "ttl-union")
            if base == "symmetric_difference" and i != j and pre_len > 0 and contrib and not singleton:
                # records of the other set were merged into a non-empty set: the minimum of the two TTLs
                if r.ttl != min(pre_ttl, mj.ttl):
                    raise Violation("ttl", f"{where}: symmetric difference of a set with ttl {pre_ttl} and one with ttl {mj.ttl} (which contributes records) has ttl {r.ttl}", "ttl-symdiff")
                if pre_ttl < mj.ttl:
                    classes.add("symdiff-ttl-kept-lower")
            if base != "union":
                m.ttl = r.ttl  # TTL of the other forms is not specified by the statement
        elif name in ("union", "intersection", "difference", "symmetric_difference", "or", "and", "sub", "xor", "plus"):
            j = op[2] % 3
            if i == j:
                flags["alias"] = True
            base = {"or": "union", "plus": "union", "and": "intersection", "sub": "difference", "xor": "symmetric_difference"}.get(name, name)
            if singleton and base in ("union", "symmetric_difference"):
                continue
            other = real[j]
            snap_i, snap_j = list(r), list(other)
            if name == "or":
                out = r | other
            elif name == "plus":
                out = r + other
            elif name == "and":
                out = r & other
            elif name == "sub":
                out = r - other
            elif name == "xor":
                out = r ^ other
            else:
                out = getattr(r, name)(other)
            if out is r or out is other:
                raise Violation("sets", f"{where}: functional form returned an operand", "functional-identity")
            if list(r) != snap_i or list(other) != snap_j:
                raise Violation("sets", f"{where}: functional form modified an operand", "functional-mutates")
            want = list(model_binop(base, m, model[j]).keys())
            got = [_key(rdtype, x) for x in out]
            if got != want:
                raise Violation("sets", f"{where}: result {[g.hex() for g in got]} but set theory says {[w.hex() for w in want]}", "functional:" + base)
            if type(out) is not type(r):
                raise Violation("sets", f"{where}: result type {type(out).__name__} != {type(r).__name__}", "functional-type")
            if base == "symmetric_difference" and i != j and len(m.d) > 0 and any(k not in m.d for k in model[j].d):
                if out.ttl != min(r.ttl, other.ttl):
                    raise Violation("ttl", f"{where}: symmetric difference of a set with ttl {r.ttl} and one with ttl {other.ttl} (which contributes records) has ttl {out.ttl}", "ttl-symdiff-functional")
                if r.ttl < other.ttl:
                    classes.add("symdiff-ttl-kept-lower")
            # equality ignores order
            rev = mk()
            for x in reversed(list(out)):
                if singleton and len(rev) > 0:
                    break
                rev.add(x)
            if not singleton and not (rev == out and out == rev) or (not singleton and rev != out):
                raise Violation("sets", f"{where}: equality depends on insertion order", "eq-order")
        elif name in ("issubset", "issuperset", "isdisjoint", "eq"):
            j = op[2] % 3
            a, b = set(m.d), set(model[j].d)
            want = {"issubset": a <= b, "issuperset": a >= b, "isdisjoint": not (a & b), "eq": a == b}[name]
            got = (r == real[j]) if name == "eq" else getattr(r, name)(real[j])
            if bool(got) != want:
                raise Violation("sets", f"{where}: {name} is {got}, set theory says {want}", "predicate:" + name)
            if name == "eq" and (r != real[j]) == want:
                raise Violation("sets", f"{where}: != inconsistent with ==", "predicate:ne")
        elif name == "copy":
            j = op[2] % 3
            c = r.copy() if op[3] else copy.copy(r)
            if c is r or list(c) != list(r) or c != r or c.ttl != r.ttl:
                raise Violation("sets", f"{where}: copy differs from the original", "copy")
            real[j] = c
            model[j] = m.copy()
            frozen.pop(j, None)
        elif name == "clear":
            r.clear()
            m.d.clear()
        elif name == "getitem":
            if len(m.d):
                idx = op[2] % len(m.d)
                if _key(rdtype, r[idx]) != list(m.d)[idx]:
                    raise Violation("sets", f"{where}: [{idx}] is not the {idx}th inserted record", "getitem")
                lo = op[2] % (len(m.d) + 1)
                hi = op[3] % (len(m.d) + 1)
                if [_key(rdtype, x) for x in r[lo:hi]] != list(m.d)[lo:hi]:
                    raise Violation("sets", f"{where}: slice [{lo}:{hi}] wrong", "slice")
        elif name == "delitem":
            if len(m.d):
                idx = op[2] % len(m.d)
                del r[idx]
                del m.d[list(m.d)[idx]]
        elif name == "freeze":
            frozen[i] = (dns.rdataset.ImmutableRdataset(r), m.copy(), op[2])
            classes.add("freeze")
        else:
            raise AssertionError(name)
        for q in range(3):
            check(q, where)
        # immutable snapshots: mutators raise and change nothing; functional forms work
        for fi, (im, ms, sel) in list(frozen.items()):
            got = [_key(rdtype, x) for x in im]
            if got != list(ms.d.keys()) or im.ttl != ms.ttl:
                raise Violation("immutable-set", f"{where}: ImmutableRdataset changed", "imm-changed")
            other = real[(fi + 1) % 3]
            muts = [
                ("add", lambda: im.add(pool[sel % len(pool)], 1)),
                ("update_ttl", lambda: im.update_ttl(0)),
                ("union_update", lambda: im.union_update(other)),
                ("intersection_update", lambda: im.intersection_update(other)),
                ("update", lambda: im.update(other)),
                ("clear", lambda: im.clear()),
                ("delitem", lambda: im.__delitem__(0)),
                ("setattr-ttl", lambda: setattr(im, "ttl", 1)),
                ("setattr-items", lambda: setattr(im, "items", {})),
                ("items-setitem", lambda: im.items.__setitem__(pool[0], None)),
            ]
            if len(ms.d):
                first = im[0]
                muts += [
                    ("remove", lambda: im.remove(first)),
                    ("discard", lambda: im.discard(first)),
                    ("pop", lambda: im.pop()),
                    ("difference_update-self", lambda: im.difference_update(im)),
                ]
            nm, fn = muts[(step + sel) % len(muts)]
            try:
                fn()
            except (TypeError, AttributeError):
                classes.add("immutable-mutator-refused")
            else:
                raise Violation("immutable-set", f"{where}: ImmutableRdataset.{nm} did not raise", "imm-mutator:" + nm)
            got = [_key(rdtype, x) for x in im]
            if got != list(ms.d.keys()) or im.ttl != ms.ttl:
                raise Violation("immutable-set", f"{where}: refused {nm} changed the ImmutableRdataset", "imm-changed:" + nm)
            if not singleton:
                u = im.union(other)
                if not isinstance(u, dns.rdataset.ImmutableRdataset):
                    raise Violation("immutable-set", "functional op on ImmutableRdataset is not immutable", "imm-functional-type")
                if [_key(rdtype, x) for x in u] != list(model_binop("union", ms, model[(fi + 1) % 3]).keys()):
                    raise Violation("immutable-set", "ImmutableRdataset.union wrong", "imm-functional")
    for f in ("dup", "alias", "intruder", "singleton"):
        if flags[f]:
            classes.add(f)
    nontrivial = nsteps >= 4 and any(flags.values())
    return {"nontrivial": nontrivial, "classes": sorted(classes)}


_OPS2 = ["union_update", "intersection_update", "difference_update", "symmetric_difference_update",
         "ior", "iand", "isub", "ixor", "iadd", "update",
         "union", "intersection", "difference", "symmetric_difference", "or", "and", "sub", "xor", "plus",
         "issubset", "issuperset", "isdisjoint", "eq"]


@st.composite
def set_cases(draw):
    tname = draw(st.sampled_from(SET_TYPES))
    ctx = {"pool": draw(G.name_family(2, 3))}
    base = [bytes.fromhex(draw(R.record(ctx=ctx, name=tname))["wire"]) for _ in range(draw(st.integers(2, 4)))]
    pool = list(base)
    if tname in R.NAME_TYPES:
        for w in base[:2]:
            try:
                pool.append(_flip_names(draw, R.TYPECODES[tname], w))
            except W.WireError:
                pass
    si = st.integers(0, 2)
    ttl = st.one_of(st.none(), st.sampled_from([0, 1, 300, 3600, 2147483647]))
    op = st.one_of(
        st.tuples(st.just("add"), si, st.integers(0, 3), ttl),
        st.tuples(st.just("add"), si, st.integers(0, 3), ttl),
        st.tuples(st.just("add"), si, st.integers(0, 7), ttl),
        st.tuples(st.just("add"), st.just(0), st.integers(0, 2), ttl),
        st.tuples(st.sampled_from(["remove", "discard"]), si, st.integers(0, 7)),
        st.tuples(st.just("pop"), si),
        st.tuples(st.just("intruder"), si, st.integers(0, 3)),
        st.tuples(st.just("update_ttl"), si, st.sampled_from([0, 5, 300, 86400])),
        st.tuples(st.sampled_from(_OPS2), si, si),
        st.tuples(st.sampled_from(_OPS2), si, si),
        st.tuples(st.sampled_from(_OPS2), si, si),
        st.tuples(st.just("copy"), si, si, st.booleans()),
        st.tuples(st.just("clear"), si),
        st.tuples(st.just("getitem"), si, st.integers(0, 9), st.integers(0, 9)),
        st.tuples(st.just("delitem"), si, st.integers(0, 9)),
        st.tuples(st.just("freeze"), si, st.integers(0, 20)),
    )
    ops = draw(st.lists(op, min_size=6, max_size=40)).copy()
    if draw(st.integers(0, 2)) == 0:
        # the same records inserted in opposite orders into two sets: order-sensitive results
        ops = [("add", 0, 0, None), ("add", 0, 1, None), ("add", 0, 2, None),
               ("add", 1, 2, None), ("add", 1, 1, None), ("add", 1, 0, None)] + ops
    if draw(st.integers(0, 3)) == 0:
        # TTL-sensitive openings: a set that is a (strict) subset / superset / overlap of another one
        # with a lower or higher TTL, then one binary operation between them in either direction
        lo, hi = draw(st.sampled_from([(60, 300), (0, 5), (300, 60), (1, 2147483647)]))
        shape = draw(st.sampled_from(["subset", "subset", "overlap", "equal"]))
        pre = [("add", 0, 0, lo), ("add", 1, 0, hi), ("add", 1, 1, hi)]
        if shape == "overlap":
            pre.append(("add", 0, 2, lo))
        elif shape == "equal":
            pre.append(("add", 0, 1, lo))
        a, b = draw(st.sampled_from([(0, 1), (0, 1), (1, 0)]))
        pre.append((draw(st.sampled_from(["symmetric_difference_update", "ixor", "symmetric_difference", "xor", "union", "ior", "intersection_update"])), a, b))
        ops = pre + ops
    return {
        "type": tname,
        "kind": draw(st.sampled_from(["rdataset", "rdataset", "rrset"])),
        "pool": [w.hex() for w in pool],
        "ops": [list(o) for o in ops],
    }


def parts(tier):
    return [
        Part("records", run_records, strategy=record_cases(), n={"quick": 14000, "thorough": 400000},
             require={"equal-differ-in-case": 300, "relative": 100, "slots-walked": 5000, "ctor-alias-checked": 3000, "typed-vs-generic": 5000, "relative-vs-absolute-twin": 50, "relative-case-twin": 20},
             shards={"quick": 8, "thorough": 16}),
        Part("sets", run_sets, strategy=set_cases(), n={"quick": 6000, "thorough": 200000},
             require={"dup": 500, "alias": 500, "intruder": 300, "singleton": 100,
                      "immutable-mutator-refused": 300, "intruder-refused": 300, "symdiff-ttl-kept-lower": 100},
             shards={"quick": 8, "thorough": 16}),
    ]
