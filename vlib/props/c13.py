"""C13  Inbound AXFR/IXFR converges to the server's zone or leaves the zone untouched.

A case is a chain of zone versions V0..Vn (plain data), the version the client holds, the
way the server answers and the way the RR stream is cut into messages.  run(case) renders
every message to wire (dns.renderer, one RRset per RR, stream order), feeds the wires to the
real dns.query._inbound_xfr through a scripted socket object (TCP: any object with send/recv;
UDP: an unconnected datagram socket subclass) and compares the outcome with
vlib/ref/xfr_model.py (an RFC 1995/5936 stream interpreter that reads the SAME wire through
the independent walker of vlib/ref/wire.py).  Then every single fault (kind x position) of the
base stream is applied and checked the same way.  Base streams additionally go through
_drive(), a replica of _inbound_xfr's loop (same from_wire arguments: xfr, origin,
one_rr_per_rrset for IXFR, multi/tsig_ctx threading, end of input => EOFError inside the
`with`), which sees what process_message() returns for every message.

Parts: `transfer` (the above), `signed` (base streams, TSIG-signed per a generated sign mask,
through the real _inbound_xfr), `query` (make_query / extract_serial_from_query / Inbound
argument checks).

Replaying one fault: put "faults": [[kind, position, variant]] into the descriptor (the
violation message and `detail` name the triple); run() then applies only those.

SCOPING (decisions taken while building; each narrows the check, never the property)
  * The model decides accept/reject from the RFC grammar; where RFC text and documentation
    leave the verdict open it follows the documented transaction semantics and the decision is
    counted in evidence as model_lenient:<kind> (list and rationale: vlib/ref/xfr_model.py).
  * "Reject => the driver raised": the exception must be a dns.exception.DNSException,
    EOFError (end of input, raised by the driver as _inbound_xfr's socket read does) or
    ValueError (documented by Transaction.add for a non-origin SOA / wrong class); anything
    else is a `crash` violation.  The *kind* of error is compared with the model's reason only
    for the three documented classes callers act on (TransferError + its rcode,
    SerialWentBackwards, UseTCP -- inbound_xfr falls back to TCP on the latter), both ways.
  * A UDP IXFR is one datagram: process_message() returning False for it (the real driver would
    wait for a second datagram until its timeout) is a violation (`udp-not-done`); xfr.py
    documents that case as FormError("unexpected end of UDP IXFR").
  * "gained exactly one version": versioned zones are created with set_max_versions(None)
    so that the version list is observable; the default policy prunes to one version.
  * The "already up to date" answer commits nothing (no new version); the model reports it as
    Accept(changed=False).
  * Messages after the one that completes the transfer are never read by _inbound_xfr, so
    "surplus RRs in the NEXT message" is an accepted stream (statement: "in the same message").
  * After every transfer attempt a versioned zone must not be left with an open write
    transaction (`txn-leak`; observed through the private _write_txn attribute because asking
    for a writer would block for ever): a zone that can no longer be written is not "as it was".
  * No model-vs-implementation disagreement remained on the unchanged tree apart from D12/D12b;
    the model was written from the RFC grammar first and needed no correction afterwards.
  * D12 (final SOA commits inside process_message; RRs after it in the same message then raise
    FormError although the transfer was applied) is excluded BY CONSTRUCTION while
    EXCLUDE_D12 is True: every stream for which the model answers Reject(surplus) after a
    complete, zone-changing transfer is skipped and counted as excluded:D12 (that is the
    fault kind surplus_same plus those dup/swap/movefinal/owner/... positions that produce the
    same situation).  Flip the flag after /repo is fixed: the streams are then driven and must
    raise with the zone untouched.
  * D12b (found while building, same family, in dns/query.py and dns/asyncquery.py): the
    "missing TSIG" check of _inbound_xfr sits after the `with dns.xfr.Inbound(...)` block, so a
    transfer whose last message is unsigned is committed and then FormError("missing TSIG") is
    raised.  Excluded by construction while EXCLUDE_D12B is True (part `signed`: sign masks
    with an unsigned last message on a stream that completes and changes the zone are skipped
    and counted as excluded:D12b).  The first message is always signed in the generated masks
    (what an unsigned FIRST message means is TSIG semantics, i.e. C14).
"""

import socket
import struct

from hypothesis import strategies as st

from vlib import zoneutil as ZU
from vlib.gen import names as G
from vlib.gen import rdata as R
from vlib.ref import canon as C
from vlib.ref import wire as W
from vlib.ref import xfr_model as M
from vlib.runner import Part, Violation, exc_key, last_frame_in_dns

ID = "C13"
LEVEL = "fault_enumeration"
TECHNIQUE = (
    "property-based testing: Hypothesis-generated version chains / response styles / message "
    "cuts, every single fault (kind x position) of each stream enumerated, each stream decided "
    "by an independent RFC 1995/5936 stream interpreter reading the same wire"
)
LEVEL_TEXT = (
    "For every generated base stream all single faults (drop, duplicate, swap, truncate, SOA "
    "serial, owner, type, final-SOA position, surplus RRs, rcode, question) at every position "
    "were applied: the verdict and resulting zone content (with TTLs) match the reference "
    "interpreter, and no raised error ever left a changed zone or a new version behind. "
    "Complete over single faults of the generated streams; the streams themselves are a "
    "generated sample (2-5 versions, <= ~60 RRs), not a proof."
)
RULE = (
    "case = version chain V0..Vn (RFC 1982 increasing serials incl. 2^31/2^32 wraps; edits: "
    "add/delete RR, delete RRset/name, TTL-only change, apex NS, SOA fields) + client version "
    "(or empty zone) + response style (chain, condensed, AXFR-style, AXFR, up-to-date, UDP "
    "variants, plus wrong-base/behind/use-TCP answers) + out-of-zone RRs + message cuts + "
    "question mode + 2 (quick) or 6 (thorough) zone flavours; inside a case every (fault kind, "
    "position) is enumerated and counted once in fault:<kind> and verdict:<...>. non-trivial = "
    "stream with >= 2 messages, >= 1 deletion and >= 1 addition; distinct by SHA-1 of the case"
)
ASSUMPTIONS = [
    "vlib/ref/xfr_model.py (RFC 1995/5936 grammar + documented transaction semantics for the "
    "classes listed as model_lenient:*) is the trusted reference; it reads the rendered wire "
    "through vlib/ref/wire.py, not through dnspython",
    "streams are driven through the real (private) dns.query._inbound_xfr over a scripted socket "
    "object; base streams also through a replica of its loop that records process_message() "
    "results; part `signed` signs the messages per a generated sign mask under a pinned clock "
    "(MAC correctness itself is C14's business); dns.asyncquery's copy of the loop is not driven",
    "D12 / D12b excluded by construction while EXCLUDE_D12 / EXCLUDE_D12B are True (counted as "
    "excluded:D12, excluded:D12b)",
]

EXCLUDE_D12 = False
# D12b: dns.query._inbound_xfr raises FormError("missing TSIG") after the `with Inbound` block,
# i.e. after the zone was committed, when the last message of a TSIG transfer is unsigned
EXCLUDE_D12B = False

QID = 0x1234
T_SOA, T_A, T_NS, T_CNAME, T_RRSIG = 6, 1, 2, 5, 46
T_UNKNOWN = 65280
VALID_STYLES = (
    "chain", "condensed", "axfr_style", "axfr", "uptodate",
    "udp_chain", "udp_condensed", "udp_axfr_style", "udp_uptodate",
)
INVALID_STYLES = ("udp_usetcp", "wrong_base", "behind")
ZONE_KINDS = [[k, r] for k in ("plain", "versioned", "btree") for r in (True, False)]
FAULT_KINDS = (
    "drop", "dup", "swap", "trunc", "serial", "owner", "type", "movefinal",
    "surplus_same", "surplus_next", "rcode", "qname", "qtype",
)

# ---------------------------------------------------------------------------
# version chains (pure data, no dns)


def _labels(hl):
    return tuple(G.unhexl(hl))


def _covers(rdtype, wire):
    if rdtype == T_RRSIG and len(wire) >= 2:
        return (wire[0] << 8) | wire[1]
    return 0


class _Ver:
    def __init__(self, serial, soa, sets):
        self.serial = serial
        self.soa = soa  # dict: ttl, mname, rname (label tuples), refresh, retry, expire, minimum
        self.sets = sets  # {(name_idx, rdtype, covers): [ttl, {canon: wire}]}  insertion ordered

    def copy(self):
        return _Ver(self.serial, dict(self.soa), {k: [v[0], dict(v[1])] for k, v in self.sets.items()})

    def soa_wire(self):
        s = self.soa
        return (
            W.encode_name(s["mname"])
            + W.encode_name(s["rname"])
            + struct.pack("!IIIII", self.serial, s["refresh"], s["retry"], s["expire"], s["minimum"])
        )


def _node_kinds(sets, ni, but=None):
    return {M.kind_of(k[1], k[2]) for k in sets if k[0] == ni and k != but}


def _op_add(ver, ni, tname, ttl, wire):
    rdtype = R.TYPECODES[tname]
    key = (ni, rdtype, _covers(rdtype, wire))
    kind = M.kind_of(key[1], key[2])
    others = _node_kinds(ver.sets, ni, key)
    if kind == M.CNAME_KIND and (ni == 0 or M.REGULAR_KIND in others):
        return
    if kind == M.REGULAR_KIND and M.CNAME_KIND in others:
        return
    canon = C.canonical_rdata(rdtype, wire)
    cur = ver.sets.get(key)
    if cur is None:
        ver.sets[key] = [ttl, {canon: wire}]
    elif rdtype in M.SINGLETONS:
        cur[1] = {canon: wire}
    else:
        cur[1].setdefault(canon, wire)


def _apex_ns_guard(ver, key, nremoved):
    """the apex keeps at least one NS (so that an AXFR never degenerates to SOA SOA)"""
    return key[0] == 0 and key[1] == T_NS and len(ver.sets[key][1]) - nremoved < 1


def _apply_ops(ver, ops, nnames):
    for op in ops:
        what = op[0]
        keys = list(ver.sets)
        if what == "add":
            _op_add(ver, op[1] % nnames, op[2], op[3], bytes.fromhex(op[4]))
        elif what == "del" and keys:
            key = keys[op[1] % len(keys)]
            if _apex_ns_guard(ver, key, 1):
                continue
            rds = ver.sets[key][1]
            del rds[list(rds)[op[2] % len(rds)]]
            if not rds:
                del ver.sets[key]
        elif what == "delset" and keys:
            key = keys[op[1] % len(keys)]
            if key[0] == 0 and key[1] == T_NS:
                continue
            del ver.sets[key]
        elif what == "delname":
            ni = op[1] % nnames
            if ni == 0:
                continue
            for key in [k for k in keys if k[0] == ni]:
                del ver.sets[key]
        elif what == "ttl" and keys:
            ver.sets[keys[op[1] % len(keys)]][0] = op[2]
        elif what == "soa":
            field = ("ttl", "refresh", "retry", "expire", "minimum")[op[1] % 5]
            # TTLs above 2^31-1 are read as 0 by design (DESIGN 4.8): not this property's business
            ver.soa[field] = op[2] & 0x7FFFFFFF if field == "ttl" else op[2]


def _versions(case):
    origin = _labels(case["origin"])
    names = [_labels(n) for n in case["names"]]
    soa = dict(case["soa"])
    soa["mname"] = _labels(soa["mname"])
    soa["rname"] = _labels(soa["rname"])
    v = _Ver(case["serial0"] & 0xFFFFFFFF, soa, {})
    for ni, tname, ttl, rdatas in case["v0"]:
        for h in rdatas:
            _op_add(v, ni % len(names), tname, ttl, bytes.fromhex(h))
    if not any(k[0] == 0 and k[1] == T_NS for k in v.sets):
        raise AssertionError("generator: V0 without apex NS")
    vers = [v]
    for step in case["steps"]:
        v = v.copy()
        v.serial = (v.serial + step["delta"]) & 0xFFFFFFFF
        _apply_ops(v, step["ops"], len(names))
        vers.append(v)
    return origin, names, vers


def _content(ver, origin, names):
    """model content of a version (the format of zoneutil.extract)"""
    out = {}
    for (ni, rdtype, cov), (ttl, rds) in ver.sets.items():
        out.setdefault(W.name_key(names[ni] + origin), {})[(rdtype, cov)] = (ttl, frozenset(rds))
    out.setdefault(W.name_key(origin), {})[(T_SOA, 0)] = (
        ver.soa["ttl"],
        frozenset([C.canonical_rdata(T_SOA, ver.soa_wire())]),
    )
    return out


# ---------------------------------------------------------------------------
# RR streams.  A stream RR is (owner labels (absolute), rdtype, ttl, rdata wire, role)


def _soa_rr(ver, origin):
    return (origin, T_SOA, ver.soa["ttl"], ver.soa_wire(), "soa")


def _set_rrs(ver, key, origin, names, role, only=None):
    ttl, rds = ver.sets[key]
    return [
        (names[key[0]] + origin, key[1], ttl, w, role)
        for c, w in rds.items()
        if only is None or c in only
    ]


def _axfr_body(ver, origin, names, order):
    rrs = []
    for key in ver.sets:
        rrs += _set_rrs(ver, key, origin, names, "add")
    if rrs:
        k = order % len(rrs)
        rrs = rrs[k:] + rrs[:k]
        if order & 1:
            # keep a non-SOA RR first either way; just another order
            rrs.reverse()
    return rrs


def _diff(a, b, origin, names):
    dels, adds = [], []
    for key in a.sets:
        if key not in b.sets or a.sets[key][0] != b.sets[key][0]:
            dels += _set_rrs(a, key, origin, names, "del")
        else:
            gone = set(a.sets[key][1]) - set(b.sets[key][1])
            dels += _set_rrs(a, key, origin, names, "del", gone)
    for key in b.sets:
        if key not in a.sets or a.sets[key][0] != b.sets[key][0]:
            adds += _set_rrs(b, key, origin, names, "add")
        else:
            new = set(b.sets[key][1]) - set(a.sets[key][1])
            adds += _set_rrs(b, key, origin, names, "add", new)
    return [_soa_rr(a, origin)] + dels + [_soa_rr(b, origin)] + adds


def _base_stream(case, origin, names, vers):
    """-> (qkind, is_udp, client index or None, target index, rr list)"""
    style = case["style"]
    n = len(vers) - 1
    order = case.get("order", 0)
    client = case["client"]
    is_udp = style.startswith("udp_")
    core = style[4:] if is_udp else style
    last = vers[n]
    if core == "axfr":
        ci = None if client is None else client % (n + 1)
        rrs = [_soa_rr(last, origin)] + _axfr_body(last, origin, names, order) + [_soa_rr(last, origin)]
        return "AXFR", False, ci, n, rrs
    if core in ("uptodate",):
        return "IXFR", is_udp, n, n, [_soa_rr(last, origin)]
    if core == "behind":
        # the client is ahead of the server: the server answers with its (older) SOA
        j = (client or 0) % n
        return "IXFR", False, n, j, [_soa_rr(vers[j], origin)]
    ci = (client or 0) % n
    if core == "usetcp":
        return "IXFR", True, ci, n, [_soa_rr(last, origin)]
    if core == "axfr_style":
        rrs = [_soa_rr(last, origin)] + _axfr_body(last, origin, names, order) + [_soa_rr(last, origin)]
        return "IXFR", is_udp, ci, n, rrs
    if core == "condensed":
        return "IXFR", is_udp, ci, n, [_soa_rr(last, origin)] + _diff(vers[ci], last, origin, names) + [_soa_rr(last, origin)]
    if core == "chain":
        rrs = [_soa_rr(last, origin)]
        for k in range(ci, n):
            rrs += _diff(vers[k], vers[k + 1], origin, names)
        return "IXFR", is_udp, ci, n, rrs + [_soa_rr(last, origin)]
    if core == "wrong_base":
        # differences computed from a version the client does not hold
        j = (ci + 1) % n if n > 1 else None
        if j is None or j == ci:
            # only one older version exists: pretend the client holds a serial nobody sent
            return "IXFR", False, ci, n, [_soa_rr(last, origin)] + _diff(_reserial(vers[ci]), last, origin, names) + [_soa_rr(last, origin)]
        rrs = [_soa_rr(last, origin)]
        for k in range(j, n):
            rrs += _diff(vers[k], vers[k + 1], origin, names)
        return "IXFR", False, ci, n, rrs + [_soa_rr(last, origin)]
    raise AssertionError(f"unknown style {style}")


def _reserial(ver):
    v = ver.copy()
    v.serial = (v.serial - 1) & 0xFFFFFFFF
    return v


def _upper(labels):
    return tuple(l.upper() for l in labels)


def _with_oob(case, rrs, qkind, style):
    """insert out-of-zone RRs; never before the first SOA, after the last one, or (IXFR
    differences) as the second RR, where it would turn the answer into an AXFR-style one"""
    lo = 1
    if qkind == "IXFR" and not style.endswith("axfr_style"):
        lo = 2
    hi = len(rrs) - 1
    if hi < lo:
        return rrs
    out = list(rrs)
    for pos, owner, tname, ttl, wire in case.get("oob", []):
        p = lo + pos % (hi - lo + 1)
        out.insert(p, (_labels(owner), R.TYPECODES[tname], ttl, bytes.fromhex(wire), "oob"))
        hi += 1
    return out


def _cut(case, rrs, is_udp):
    n = len(rrs)
    mode = "none" if is_udp else case.get("cutmode", "none")
    if mode == "all":
        cuts = list(range(1, n))
    elif mode == "some":
        cuts = sorted({c % n for c in case.get("cuts", [])} - {0})
    else:
        cuts = []
    msgs, prev = [], 0
    for c in cuts + [n]:
        msgs.append(list(rrs[prev:c]))
        prev = c
    return msgs


# ---------------------------------------------------------------------------
# faults.  A message is a dict(rrs=[...], rcode=int, q=None|"ok"|"name0"|"name1"|"type0"|"type1")


def _mk_msgs(rr_msgs, qmode):
    out = []
    for i, rrs in enumerate(rr_msgs):
        q = "ok" if (qmode == 0 or (qmode == 1 and i == 0)) else None
        out.append({"rrs": list(rrs), "rcode": 0, "q": q})
    return out


def _positions(msgs):
    return [(mi, ri) for mi, m in enumerate(msgs) for ri in range(len(m["rrs"]))]


def _copy_msgs(msgs):
    return [{"rrs": list(m["rrs"]), "rcode": m["rcode"], "q": m["q"]} for m in msgs]


def _reserial_rr(rr, delta):
    wire = rr[3]
    (s,) = struct.unpack("!I", wire[-20:-16])
    s = (s + delta) & 0xFFFFFFFF
    return (rr[0], rr[1], rr[2], wire[:-20] + struct.pack("!I", s) + wire[-16:], rr[4])


def enumerate_faults(msgs):
    """every (kind, position, variant) that applies to this stream"""
    pos = _positions(msgs)
    n = len(pos)
    out = []
    for p in range(n):
        out.append(("drop", p, 0))
        out.append(("dup", p, 0))
        if p < n - 1:
            out.append(("swap", p, 0))
            out.append(("trunc", p, 0))
        mi, ri = pos[p]
        rr = msgs[mi]["rrs"][ri]
        if rr[1] == T_SOA:
            out += [("serial", p, v) for v in (0, 1, 2)]
        out += [("owner", p, v) for v in (0, 1, 2)]
        out.append(("type", p, 0))
        if 1 <= p <= n - 2:
            out.append(("movefinal", p, 0))
    out.append(("trunc", -1, 0))
    out += [("surplus_same", 0, v) for v in range(4)]
    out += [("surplus_next", 0, v) for v in range(4)]
    for j in range(len(msgs)):
        out.append(("rcode", j, 0))
        out += [("qname", j, v) for v in (0, 1)]
        out += [("qtype", j, v) for v in (0, 1)]
    return out


def apply_fault(msgs, fault, origin):
    """-> new message list, or None if the fault does not apply / changes nothing"""
    kind, p, var = fault
    msgs = _copy_msgs(msgs)
    pos = _positions(msgs)
    n = len(pos)
    if kind in ("rcode", "qname", "qtype"):
        if not 0 <= p < len(msgs):
            return None
        m = msgs[p]
        if kind == "rcode":
            m["rcode"] = (2, 5, 9, 3)[p % 4]
        elif kind == "qname":
            m["q"] = f"name{var}"
        else:
            m["q"] = f"type{var}"
        return msgs
    if kind in ("surplus_same", "surplus_next"):
        if n == 0:
            return None
        final = msgs[-1]["rrs"][-1]
        extra = _surplus_rr(var, origin, msgs, final)
        if kind == "surplus_same":
            msgs[-1]["rrs"].append(extra)
        else:
            msgs.append({"rrs": [extra], "rcode": 0, "q": msgs[-1]["q"]})
        return msgs
    if kind == "trunc":
        if not -1 <= p < n - 1:
            return None
        if p == -1:
            return []
        mi, ri = pos[p]
        del msgs[mi]["rrs"][ri + 1 :]
        del msgs[mi + 1 :]
        return msgs
    if not 0 <= p < n:
        return None
    mi, ri = pos[p]
    rr = msgs[mi]["rrs"][ri]
    if kind == "drop":
        del msgs[mi]["rrs"][ri]
    elif kind == "dup":
        msgs[mi]["rrs"].insert(ri + 1, rr)
    elif kind == "swap":
        if p >= n - 1:
            return None
        mj, rj = pos[p + 1]
        other = msgs[mj]["rrs"][rj]
        if other[:4] == rr[:4]:
            return None
        msgs[mi]["rrs"][ri], msgs[mj]["rrs"][rj] = other, rr
    elif kind == "serial":
        if rr[1] != T_SOA:
            return None
        msgs[mi]["rrs"][ri] = _reserial_rr(rr, (1, -1, -0x80000000)[var])
    elif kind == "owner":
        if var == 0:
            new = (b"zz-outside",) + tuple(origin[1:])
        elif var == 1:
            new = (b"xc",) + tuple(origin)
            if W.name_key(new) == W.name_key(rr[0]):
                new = (b"xd",) + tuple(origin)
        else:
            new = tuple(origin)
            if W.name_key(new) == W.name_key(rr[0]):
                return None
        msgs[mi]["rrs"][ri] = (new, rr[1], rr[2], rr[3], rr[4])
    elif kind == "type":
        if rr[1] == T_UNKNOWN:
            return None
        msgs[mi]["rrs"][ri] = (rr[0], T_UNKNOWN, rr[2], rr[3], rr[4])
    elif kind == "movefinal":
        if not 1 <= p <= n - 2:
            return None
        final = msgs[-1]["rrs"].pop()
        msgs[mi]["rrs"].insert(ri, final)
    else:
        raise AssertionError(f"unknown fault kind {kind}")
    return msgs


def _surplus_rr(var, origin, msgs, final):
    if var == 0:
        return ((b"surplus",) + tuple(origin), T_A, 60, b"\x7f\x00\x00\x01", "surplus")
    if var == 1:
        return ((b"zz-outside",) + tuple(origin[1:]), T_A, 60, b"\x7f\x00\x00\x02", "surplus")
    if var == 2:
        return final[:4] + ("surplus",)
    flat = [rr for m in msgs for rr in m["rrs"]]
    rr = flat[1] if len(flat) > 1 else flat[0]
    return rr[:4] + ("surplus",)


# ---------------------------------------------------------------------------
# dns-side helpers


class _Ctx:
    """per-case caches of dns objects"""

    def __init__(self, origin):
        import dns.name

        self.origin = origin
        self.origin_name = dns.name.Name(origin)
        self.rrsets = {}
        self.wires = {}
        self.model_msgs = {}
        self.rdatas = {}

    def name(self, labels):
        import dns.name

        return dns.name.Name(labels)

    def rrset(self, rr):
        import dns.rdata
        import dns.rdataclass
        import dns.rrset

        key = rr[:4]
        got = self.rrsets.get(key)
        if got is None:
            rd = dns.rdata.from_wire(dns.rdataclass.IN, rr[1], rr[3], 0, len(rr[3]))
            got = dns.rrset.from_rdata(self.name(rr[0]), rr[2], rd)
            self.rrsets[key] = got
        return got

    def zone_rdata(self, rdtype, wire, relativize):
        import dns.rdata
        import dns.rdataclass

        key = (rdtype, wire, relativize)
        got = self.rdatas.get(key)
        if got is None:
            got = dns.rdata.from_wire(
                dns.rdataclass.IN, rdtype, wire, 0, len(wire), self.origin_name if relativize else None
            )
            self.rdatas[key] = got
        return got


def _render(ctx, msg, qtype, flags, upper):
    """one message -> wire, with dns.renderer: one RRset per RR, in stream order"""
    import dns.rdataclass
    import dns.renderer

    key = (tuple(rr[:4] for rr in msg["rrs"]), msg["rcode"], msg["q"])
    wire = ctx.wires.get(key)
    if wire is not None:
        return wire
    r = dns.renderer.Renderer(id=QID, flags=(flags & ~0xF) | msg["rcode"])
    q = msg["q"]
    if q is not None:
        qname, qt = ctx.origin, qtype
        if q == "name0":
            qname = (b"zz-outside",) + tuple(ctx.origin[1:])
        elif q == "name1":
            qname = (b"www",) + tuple(ctx.origin)
        elif q == "type0":
            qt = M.AXFR if qtype == M.IXFR else M.IXFR
        elif q == "type1":
            qt = T_A
        if upper:
            qname = _upper(qname)
        r.add_question(ctx.name(qname), qt, dns.rdataclass.IN)
    for rr in msg["rrs"]:
        r.add_rrset(dns.renderer.ANSWER, ctx.rrset(rr))
    r.write_header()
    wire = r.get_wire()
    ctx.wires[key] = wire
    return wire


def _model_msg(ctx, wire):
    """the message as the independent walker sees it"""
    got = ctx.model_msgs.get(wire)
    if got is not None:
        return got
    m = W.walk_message(wire)
    question = None
    if m.questions:
        info, t, c = m.questions[0]
        question = (W.name_key(info.labels), t, c)
    rrs = []
    for rr in m.rrs:
        if rr.section != 1:
            raise AssertionError("harness: RR outside the answer section")
        rdata = W.uncompressed_rdata(rr.pieces) if rr.pieces is not None else b""
        serial = None
        if rr.rdtype == T_SOA:
            (serial,) = struct.unpack("!I", rdata[-20:-16])
        rrs.append(
            M.RR(W.name_key(rr.owner.labels), rr.rdtype, rr.rdclass, rr.ttl, C.canonical_rdata(rr.rdtype, rdata), serial)
        )
    got = M.Msg(m.flags & 0xF, question, rrs)
    ctx.model_msgs[wire] = got
    return got


def _zone_items(ctx, ver, names, relativize):
    """[(owner name, ttl, [rdata])] with the relativity the zone flavour stores"""
    import dns.name

    items = []
    for (ni, rdtype, _cov), (ttl, rds) in ver.sets.items():
        owner = dns.name.Name(names[ni]) if relativize else dns.name.Name(names[ni] + ctx.origin)
        items.append((owner, ttl, [ctx.zone_rdata(rdtype, w, relativize) for w in rds.values()]))
    apex = dns.name.empty if relativize else ctx.origin_name
    items.append((apex, ver.soa["ttl"], [ctx.zone_rdata(T_SOA, ver.soa_wire(), relativize)]))
    return items


def _build_zone(ctx, kind, relativize, items):
    import dns.btreezone
    import dns.rdataclass
    import dns.rdataset
    import dns.versioned
    import dns.zone

    cls = {"plain": dns.zone.Zone, "versioned": dns.versioned.Zone, "btree": dns.btreezone.Zone}[kind]
    zone = cls(ctx.origin_name, dns.rdataclass.IN, relativize=relativize)
    if kind != "plain":
        zone.set_max_versions(None)
    if items:
        with zone.writer(True) as txn:
            for owner, ttl, rds in items:
                txn.add(owner, dns.rdataset.from_rdata_list(ttl, rds))
    return zone


def _version_ids(zone):
    vs = getattr(zone, "_versions", None)
    if vs is None:
        return None
    return [(v.id, id(v)) for v in vs]


def _drive(zone, rdtype, serial, is_udp, wires, query):
    """replica of dns.query._inbound_xfr with the socket replaced by a list of wires.
    -> (exception or None, messages consumed, list of process_message results)"""
    import dns.message
    import dns.rdatatype
    import dns.xfr

    is_ixfr = rdtype == dns.rdatatype.IXFR
    origin = zone.from_wire_origin()
    results = []
    consumed = 0
    try:
        with dns.xfr.Inbound(zone, rdtype, serial, is_udp) as inbound:
            done = False
            tsig_ctx = None
            while not done:
                if consumed >= len(wires):
                    raise EOFError  # what _net_read raises when the peer closes the stream
                rwire = wires[consumed]
                consumed += 1
                r = dns.message.from_wire(
                    rwire,
                    keyring=query.keyring,
                    request_mac=query.mac,
                    xfr=True,
                    origin=origin,
                    tsig_ctx=tsig_ctx,
                    multi=(not is_udp),
                    one_rr_per_rrset=is_ixfr,
                )
                done = inbound.process_message(r)
                results.append(done)
                tsig_ctx = r.tsig_ctx
                if bool(done) != bool(inbound.done):
                    raise Violation("done-flag", "process_message() result differs from Inbound.done", "done")
    except Violation:
        raise
    except Exception as e:  # noqa - classified by the caller
        if not isinstance(e, EOFError) and not last_frame_in_dns(e):
            raise
        return e, consumed, results
    return None, consumed, results


def _soa_serial(zone, relativize, origin_name):
    import dns.name
    import dns.rdatatype

    with zone.reader() as txn:
        rds = txn.get(dns.name.empty if relativize else origin_name, dns.rdatatype.SOA)
        if rds is None or len(rds) != 1:
            return None
        return rds[0].serial


def _describe_fault(fault):
    return "base stream" if fault is None else f"fault {list(fault)}"


class _FromFake(Exception):
    """marker mixin: raised by a scripted socket, not by harness logic"""


class _FakeStream:
    """scripted TCP peer for the real dns.query._inbound_xfr: the answer is produced when the
    client starts reading, from the query it actually sent"""

    def __init__(self, make_wires):
        self.make_wires = make_wires
        self.sent = bytearray()
        self.data = None

    def send(self, data):
        self.sent += data
        return len(data)

    def recv(self, n):
        if self.data is None:
            wires = self.make_wires(bytes(self.sent[2:]))
            self.data = b"".join(struct.pack("!H", len(w)) + w for w in wires)
        out = self.data[:n]
        self.data = self.data[n:]
        return out  # b"" at the end: _net_read raises EOFError

    def close(self):
        pass


class _FakeDgram(socket.socket):
    """scripted UDP peer (a real, unconnected datagram socket object: _inbound_xfr decides
    "UDP" with isinstance(s, socket.socket) and s.type)"""

    def __init__(self, make_wires):
        super().__init__(socket.AF_UNIX, socket.SOCK_DGRAM)
        self._make_wires = make_wires
        self._sent = b""
        self._wires = None

    def send(self, data, *a):
        self._sent = bytes(data)
        return len(data)

    def recvfrom(self, n, *a):
        import dns.exception

        if self._wires is None:
            self._wires = list(self._make_wires(self._sent))
        if not self._wires:
            # nothing more will arrive: the real socket would run into its timeout
            class _Timeout(dns.exception.Timeout, _FromFake):
                pass

            raise _Timeout()
        return self._wires.pop(0), None


_USE_ASYNC = [False]


def _drive_real_async(zone, query, serial, is_udp, make_wires):
    """the asynchronous twin: the real dns.asyncquery._inbound_xfr over scripted backend sockets"""
    import asyncio

    import dns.asyncbackend
    import dns.asyncquery
    import dns.exception

    class Stream(dns.asyncbackend.StreamSocket):
        type = socket.SOCK_STREAM

        def __init__(self):
            self.sent = bytearray()
            self.data = None

        async def sendall(self, what, timeout):
            self.sent += what

        async def recv(self, size, timeout):
            if self.data is None:
                wires = make_wires(bytes(self.sent[2:]))
                self.data = b"".join(struct.pack("!H", len(w)) + w for w in wires)
            out = self.data[:size]
            self.data = self.data[size:]
            return out  # b"" at the end: _read_exactly raises EOFError

        async def close(self):
            pass

    class Dgram(dns.asyncbackend.DatagramSocket):
        type = socket.SOCK_DGRAM

        def __init__(self):
            self.sent = b""
            self.wires = None

        async def sendto(self, what, destination, timeout):
            self.sent = bytes(what)
            return len(what)

        async def recvfrom(self, size, timeout):
            if self.wires is None:
                self.wires = list(make_wires(self.sent))
            if not self.wires:
                class _Timeout(dns.exception.Timeout, _FromFake):
                    pass

                raise _Timeout()
            return self.wires.pop(0), None

        async def close(self):
            pass

    sock = Dgram() if is_udp else Stream()
    n = [0]

    async def go():
        async for _ in dns.asyncquery._inbound_xfr(zone, sock, query, serial, None, None):
            n[0] += 1

    loop = asyncio.new_event_loop()
    try:
        loop.run_until_complete(go())
    except Violation:
        raise
    except Exception as e:  # noqa - classified by the caller
        if not (last_frame_in_dns(e) or isinstance(e, _FromFake)):
            raise
        return e, n[0]
    finally:
        loop.close()
    return None, n[0]


def _drive_real(zone, query, serial, is_udp, make_wires):
    """the real dns.query._inbound_xfr over a scripted socket -> (exception or None, messages)"""
    import dns.query

    if _USE_ASYNC[0]:
        return _drive_real_async(zone, query, serial, is_udp, make_wires)

    sock = _FakeDgram(make_wires) if is_udp else _FakeStream(make_wires)
    n = 0
    try:
        for _ in dns.query._inbound_xfr(zone, sock, query, serial, None, None):
            n += 1
    except Violation:
        raise
    except Exception as e:  # noqa - classified by the caller
        if not (last_frame_in_dns(e) or isinstance(e, _FromFake)):
            raise
        return e, n
    finally:
        sock.close()
    return None, n


class _FixedClock:
    @staticmethod
    def time():
        return 1700000000.0


class _pinned_time:
    """TSIG signing/validation reads the clock: pin it (harness-side substitution)"""

    def __enter__(self):
        import dns.message
        import dns.renderer

        self.saved = (dns.message.time, dns.renderer.time)
        dns.message.time = dns.renderer.time = _FixedClock
        return self

    def __exit__(self, *a):
        import dns.message
        import dns.renderer

        dns.message.time, dns.renderer.time = self.saved
        return False


# ---------------------------------------------------------------------------
# the oracle


class _Prep:
    """everything run() and run_signed() share: versions, base stream, zone flavours"""

    def __init__(self, case, key=None):
        import dns.flags
        import dns.message
        import dns.rdatatype
        import dns.xfr

        self.case = case
        origin, names, vers = _versions(case)
        self.origin, self.names, self.vers = origin, names, vers
        self.style = style = case["style"]
        self.qkind, self.is_udp, self.ci, self.ti, rrs = _base_stream(case, origin, names, vers)
        rrs = _with_oob(case, rrs, self.qkind, style)
        self.upper = bool(case.get("upper"))
        if self.upper:
            rrs = [(_upper(rr[0]),) + rr[1:] for rr in rrs]
        self.rrs = rrs
        self.base = _mk_msgs(_cut(case, rrs, self.is_udp), case.get("qmode", 0))
        self.ctx = _Ctx(origin)
        self.okey = W.name_key(origin)
        self.qtype = M.IXFR if self.qkind == "IXFR" else M.AXFR
        ci, ti = self.ci, self.ti
        self.client_content = None if ci is None else _content(vers[ci], origin, names)
        self.client_serial = None if ci is None else vers[ci].serial
        self.target_content = _content(vers[ti], origin, names)
        self.target_serial = vers[ti].serial
        self.valid = style in VALID_STYLES
        self.classes = classes = [f"style:{style}"]
        self.nadd = sum(1 for rr in rrs if rr[4] == "add")
        self.ndel = sum(1 for rr in rrs if rr[4] == "del")
        self.multi = len(self.base) >= 2
        if self.multi:
            classes.append("multi_message")
        if case.get("cutmode") == "all" and not self.is_udp:
            classes.append("cut_after_every_rr")
        if any(rr[4] == "oob" for rr in rrs):
            classes.append("out_of_zone_rr")
        if self.upper:
            classes.append("case_variant_spelling")
        if ci is not None:
            a, b = vers[ci].serial, vers[-1].serial
            if b < a:
                classes.append("wrap:2^32")
            if (a < 0x80000000) != (b < 0x80000000) and b > a:
                classes.append("wrap:2^31")
        steps = list(zip(vers, vers[1:]))
        if any(v.sets != w.sets and {k: x[1] for k, x in v.sets.items()} == {k: x[1] for k, x in w.sets.items()} for v, w in steps):
            classes.append("ttl_only_step")
        if any(set(k[0] for k in v.sets) - set(k[0] for k in w.sets) for v, w in steps):
            classes.append("name_removed_step")
        if any(set(k[0] for k in w.sets) - set(k[0] for k in v.sets) for v, w in steps):
            classes.append("name_added_step")
        if any([x for k, x in v.sets.items() if k[0] == 0] != [x for k, x in w.sets.items() if k[0] == 0] for v, w in steps):
            classes.append("apex_changed_step")

        # per zone flavour: the query, as dns.query.inbound_xfr makes it
        self.flavours = []
        kw = {} if key is None else {"keyring": key}
        for kind, relativize in case["zones"]:
            items = None if ci is None else _zone_items(self.ctx, vers[ci], names, relativize)
            zone = _build_zone(self.ctx, kind, relativize, items)
            if self.qkind == "IXFR" or ci is None:
                q, s = dns.xfr.make_query(zone, **kw)
            else:
                q, s = dns.xfr.make_query(zone, serial=None, **kw)
            want_t = dns.rdatatype.IXFR if self.qkind == "IXFR" else dns.rdatatype.AXFR
            if q.question[0].rdtype != want_t or q.question[0].name != self.ctx.origin_name:
                raise Violation("make_query", f"make_query chose {q.question[0]} for a zone holding serial {self.client_serial}, style {style}", "qtype")
            if s != (self.client_serial if self.qkind == "IXFR" else None) or dns.xfr.extract_serial_from_query(q) != s:
                raise Violation("make_query", f"make_query/extract_serial gave {s} for client serial {self.client_serial}", "serial")
            q.id = QID
            got = ZU.extract(zone)
            if got != (self.client_content or {}):
                raise AssertionError(f"harness: client zone differs from its model: {ZU.diff(got, self.client_content or {})}")
            self.flavours.append((kind, relativize, items, q, s, want_t))
            classes.append(f"zone:{kind}:{'rel' if relativize else 'abs'}")
        # header of every response message: what make_response() gives for the query, plus AA
        self.flags = int(dns.message.make_response(self.flavours[0][3]).flags | dns.flags.AA)

    def verdict_for(self, msgs, fault):
        """render, read back through the independent walker, ask the model"""
        P = self
        wires = [_render(P.ctx, m, P.qtype, P.flags, P.upper) for m in msgs]
        mm = [_model_msg(P.ctx, w) for w in wires]
        if fault is None:
            want = [(W.name_key(rr[0]), rr[1], rr[2], C.canonical_rdata(rr[1], rr[3])) for m in msgs for rr in m["rrs"]]
            have = [(rr.owner, rr.rdtype, rr.ttl, rr.rdata) for m in mm for rr in m.rrs]
            if want != have or [len(m["rrs"]) for m in msgs] != [len(m.rrs) for m in mm]:
                raise AssertionError("harness: rendered wire does not carry the intended RR stream")
        verdict = M.interpret(P.okey, P.client_content, P.client_serial, P.qtype, P.is_udp, mm)
        if fault is None:
            if P.valid and not (verdict.ok and verdict.content == P.target_content and verdict.serial == P.target_serial):
                raise AssertionError(f"harness: model does not accept the valid base stream: {verdict!r}")
            if not P.valid and verdict.ok:
                raise AssertionError(f"harness: model accepts the invalid base stream of style {P.style}")
        return wires, mm, verdict


_DOCUMENTED = (("rcode", "TransferError"), ("backwards", "SerialWentBackwards"), ("use_tcp", "UseTCP"))


def _judge(P, verdict, fault, flavour, zone, before, vbefore, exc, consumed, results, mm, driver):
    """oracles 1-3 for one driven transfer.  results is None for the real driver (it does not
    expose process_message's return values)"""
    import dns.exception
    import dns.xfr

    kind, relativize = flavour[0], flavour[1]
    after = ZU.extract(zone)
    vafter = _version_ids(zone)
    where = f"{_describe_fault(fault)}, zone {kind}/{'relativized' if relativize else 'absolute'}, style {P.style}{driver}"
    detail = {"fault": None if fault is None else list(fault), "zone": [kind, relativize], "model": repr(verdict)}
    if getattr(zone, "_write_txn", None) is not None:
        raise Violation("txn-leak", f"{where}: the write transaction is still open after the transfer ended ({exc!r})", "write_txn", detail)
    if P.is_udp and ((results and not results[0]) or (isinstance(exc, _FromFake) and consumed >= 1)):
        raise Violation("udp-not-done", f"{where}: the UDP IXFR datagram was processed without finishing and without an error: the client goes on waiting for a second datagram", "udp", detail)
    if exc is not None:
        ek = exc_key(exc) if last_frame_in_dns(exc) else f"{type(exc).__name__}@driver"
        # (2) atomicity, unconditional
        if after != before:
            raise Violation(
                "atomicity",
                f"{where}: {type(exc).__name__}({exc}) was raised but the zone changed: {ZU.diff(before, after)}",
                ek, detail,
            )
        if vafter != vbefore:
            raise Violation("atomicity", f"{where}: {type(exc).__name__}({exc}) was raised but the version list changed {vbefore} -> {vafter}", ek + ":versions", detail)
        if not isinstance(exc, (dns.exception.DNSException, EOFError, ValueError)):
            raise Violation("crash", f"{where}: foreign exception {type(exc).__name__}: {exc}", ek, detail)
        if verdict.ok:
            clause = "valid-stream" if fault is None else "spurious-reject"
            raise Violation(clause, f"{where}: the reference accepts this stream ({verdict!r}) but the transfer raised {type(exc).__name__}({exc})", ek, detail)
        # the three documented error classes carry a meaning callers act on (inbound_xfr
        # retries over TCP on UseTCP): they must match the reason, both ways
        for reason, cname in _DOCUMENTED:
            if (verdict.reason == reason) != isinstance(exc, getattr(dns.xfr, cname)):
                raise Violation(
                    "error-kind",
                    f"{where}: the reference says {verdict!r}, the transfer raised {type(exc).__name__}({exc})",
                    f"{reason}:{type(exc).__name__}", detail,
                )
        if verdict.reason == "rcode" and exc.rcode != [m.rcode for m in mm if m.rcode][0]:
            raise Violation("error-kind", f"{where}: TransferError.rcode is {exc.rcode}", "rcode-value", detail)
        return
    # no exception
    if not verdict.ok:
        changed = "zone changed: " + "; ".join(ZU.diff(before, after)) if after != before else "zone unchanged"
        raise Violation(
            "missed-reject",
            f"{where}: the reference rejects this stream ({verdict!r}) but the transfer completed without error ({changed})",
            verdict.reason, detail,
        )
    if after != verdict.content:
        raise Violation("content", f"{where}: zone after the transfer differs from the reference: {ZU.diff(after, verdict.content)}", "content", detail)
    got_serial = _soa_serial(zone, relativize, P.ctx.origin_name)
    if got_serial != verdict.serial:
        raise Violation("content", f"{where}: SOA serial {got_serial}, reference {verdict.serial}", "serial", detail)
    if consumed != verdict.final_msg + 1 or (results is not None and results != [False] * (consumed - 1) + [True]):
        raise Violation("done-flag", f"{where}: done after {consumed} message(s) {results}, the final SOA is in message {verdict.final_msg}", "done-at", detail)
    if vbefore is not None:
        if verdict.changed:
            ok = len(vafter) == len(vbefore) + 1 and vafter[:-1] == vbefore and vafter[-1][0] == vbefore[-1][0] + 1
        else:
            ok = vafter == vbefore
        if not ok:
            raise Violation("versions", f"{where}: version list {vbefore} -> {vafter} (changed={verdict.changed})", "versions", detail)


def run(case):
    _USE_ASYNC[0] = bool(case.get("async_twin"))
    P = _Prep(case)
    classes = P.classes
    if not P.valid:
        faults = []
    elif case.get("faults") is not None:
        faults = [tuple(f) for f in case["faults"]]
    else:
        faults = enumerate_faults(P.base)

    def check_stream(msgs, fault):
        wires, mm, verdict = P.verdict_for(msgs, fault)
        for l in verdict.lenient:
            classes.append(f"model_lenient:{l}")
        if fault is not None:
            classes.append(f"fault:{fault[0]}")
        if not verdict.ok and verdict.reason == "surplus" and verdict.after_complete_transfer and EXCLUDE_D12:
            classes.append("excluded:D12")
            return
        if verdict.ok:
            classes.append("verdict:accept" if fault is None else "verdict:accept-after-fault")
        else:
            classes.append(f"verdict:reject:{verdict.reason}")
        for flavour in P.flavours:
            kind, relativize, items, q, s, want_t = flavour
            # every stream goes through the real dns.query._inbound_xfr (scripted socket) ...
            zone = _build_zone(P.ctx, kind, relativize, items)
            before = ZU.extract(zone)
            vbefore = _version_ids(zone)
            exc, consumed = _drive_real(zone, q, s, P.is_udp, lambda _qwire: wires)
            _judge(P, verdict, fault, flavour, zone, before, vbefore, exc, consumed, None, mm, "")
            if fault is None:
                # ... and base streams also through the replica of its loop, which sees what
                # process_message() returns for every message ("done exactly at the final SOA")
                zone = _build_zone(P.ctx, kind, relativize, items)
                vbefore = _version_ids(zone)
                exc, consumed, results = _drive(zone, want_t, s, P.is_udp, wires, q)
                _judge(P, verdict, fault, flavour, zone, before, vbefore, exc, consumed, results, mm, " (replica driver)")
                classes.append("replica_driver")

    check_stream(P.base, None)
    for fault in faults:
        msgs = apply_fault(P.base, fault, P.origin)
        if msgs is None:
            classes.append("fault-not-applicable")
            continue
        check_stream(msgs, fault)

    nontrivial = P.valid and P.multi and P.nadd >= 1 and P.ndel >= 1
    return {"nontrivial": nontrivial, "classes": classes}


# ---------------------------------------------------------------------------
# TSIG-signed transfers through the real dns.query._inbound_xfr: the "missing TSIG" verdict
# comes after the loop, so oracle 2 (atomicity) has to be asked there as well


def run_signed(case):
    _USE_ASYNC[0] = bool(case.get("async_twin"))
    import dns.message
    import dns.name
    import dns.renderer
    import dns.tsig

    key = dns.tsig.Key(dns.name.from_text("xfr-key.test."), b"0123456789abcdef0123456789abcdef", dns.tsig.HMAC_SHA256)
    with _pinned_time():
        P = _Prep(case, key)
        classes = P.classes
        wires, mm, verdict = P.verdict_for(P.base, None)
        n = len(P.base)
        mid = case["sign_mid"]
        mask = [True] + [bool(mid[i % len(mid)]) for i in range(1, n)]
        if n > 1:
            mask[-1] = bool(case["sign_last"])
        elif not case["sign_last"]:
            mask[0] = False
        last_signed = mask[-1]
        if not all(mask[1:-1]):
            classes.append("unsigned_middle")
        classes.append("last_signed" if last_signed else "last_unsigned")

        def make_wires(qwire):
            request_mac = dns.message.from_wire(qwire, keyring=key).mac
            out = []
            tctx = None
            for m, sign in zip(P.base, mask):
                r = dns.renderer.Renderer(id=QID, flags=P.flags)
                if m["q"] is not None:
                    r.add_question(P.ctx.name(_upper(P.origin) if P.upper else P.origin), P.qtype, 1)
                for rr in m["rrs"]:
                    r.add_rrset(dns.renderer.ANSWER, P.ctx.rrset(rr))
                r.write_header()  # before signing: the MAC covers the header (as Message.to_wire does)
                if sign:
                    tctx = r.add_multi_tsig(tctx, key.name, key, 300, QID, 0, b"", request_mac, key.algorithm)
                w = r.get_wire()
                if not sign and tctx is not None:
                    tctx.update(w)
                out.append(w)
            return out

        if not last_signed and verdict.ok and verdict.changed and EXCLUDE_D12B:
            classes.append("excluded:D12b")
            return {"nontrivial": False, "classes": classes}
        for flavour in P.flavours:
            kind, relativize, items, q, s, want_t = flavour
            zone = _build_zone(P.ctx, kind, relativize, items)
            before = ZU.extract(zone)
            vbefore = _version_ids(zone)
            exc, consumed = _drive_real(zone, q, s, P.is_udp, make_wires)
            if last_signed:
                _judge(P, verdict, None, flavour, zone, before, vbefore, exc, consumed, None, mm, " (TSIG-signed, real _inbound_xfr)")
                classes.append("signed_transfer_checked")
                continue
            # the last message carries no TSIG: RFC 8945 5.3.1 wants the transfer refused
            where = f"style {P.style}, zone {kind}/{'relativized' if relativize else 'absolute'}, sign mask {mask}"
            after = ZU.extract(zone)
            if exc is None:
                raise Violation("missed-reject", f"{where}: the last message is unsigned but the transfer completed without error", "unsigned-last")
            if after != before or _version_ids(zone) != vbefore:
                raise Violation(
                    "atomicity",
                    f"{where}: {type(exc).__name__}({exc}) was raised but the zone changed: {ZU.diff(before, after)}",
                    exc_key(exc) if last_frame_in_dns(exc) else type(exc).__name__,
                )
            if getattr(zone, "_write_txn", None) is not None:
                raise Violation("txn-leak", f"{where}: write transaction left open", "write_txn")
            classes.append("last_unsigned_refused")
    return {"nontrivial": P.valid and P.multi and last_signed, "classes": classes}


# ---------------------------------------------------------------------------
# (4) make_query / extract_serial_from_query / Inbound argument checks


def run_query(case):
    import dns.message
    import dns.name
    import dns.rdataclass
    import dns.rdataset
    import dns.rdatatype
    import dns.tsig
    import dns.tsigkeyring
    import dns.update
    import dns.xfr

    origin = _labels(case["origin"])
    ctx = _Ctx(origin)
    kind, relativize = case["zone"]
    classes = [f"zone:{kind}"]
    items = None
    zserial = case["zone_serial"]
    if zserial is not None:
        wire = W.encode_name((b"ns",) + origin) + W.encode_name((b"admin",) + origin) + struct.pack("!IIIII", zserial, 1, 2, 3, 4)
        apex = dns.name.empty if relativize else ctx.origin_name
        items = [(apex, 300, [ctx.zone_rdata(T_SOA, wire, relativize)])]
        classes.append("zone_with_soa")
    else:
        classes.append("zone_without_soa")
    zone = _build_zone(ctx, kind, relativize, items)
    arg = case["serial"]
    kw = {}
    if arg != "default":
        kw["serial"] = arg
    if case["use_edns"] != "unset":
        kw["use_edns"] = case["use_edns"]
    if case["payload"] is not None:
        kw["payload"] = case["payload"]
    key = None
    if case["tsig"]:
        key = dns.tsig.Key(dns.name.from_text("key.test."), b"0123456789abcdef0123456789abcdef", dns.tsig.HMAC_SHA256)
        kw["keyring"] = key
        classes.append("keyring")
    invalid = (isinstance(arg, int) and not isinstance(arg, bool) and (arg < 0 or arg > 0xFFFFFFFF)) or (isinstance(arg, (str, float)) and arg != "default")
    try:
        q, s = dns.xfr.make_query(zone, **kw)
    except ValueError:
        if not invalid:
            raise Violation("make_query", f"make_query(serial={arg!r}) raised ValueError", "valueerror")
        classes.append("invalid_serial_refused")
        return {"nontrivial": True, "classes": classes}
    if invalid:
        raise Violation("make_query", f"make_query(serial={arg!r}) accepted an invalid serial", "accepted-invalid")
    if arg is None:
        want_t, want_s = dns.rdatatype.AXFR, None
        classes.append("forced_axfr")
    elif arg == "default" or arg == 0:
        if zserial is None:
            want_t, want_s = dns.rdatatype.AXFR, None
            classes.append("axfr_without_soa")
        else:
            want_t, want_s = dns.rdatatype.IXFR, zserial
            classes.append("ixfr_from_zone_serial")
    else:
        want_t, want_s = dns.rdatatype.IXFR, arg
        classes.append("ixfr_explicit_serial")
    if s != want_s:
        raise Violation("make_query", f"make_query(serial={arg!r}) on a zone with serial {zserial} returned serial {s}, expected {want_s}", "serial")
    if len(q.question) != 1 or q.question[0].rdtype != want_t or q.question[0].name != ctx.origin_name or q.question[0].rdclass != dns.rdataclass.IN:
        raise Violation("make_query", f"make_query(serial={arg!r}) on a zone with serial {zserial}: question {q.question}", "question")
    if dns.xfr.extract_serial_from_query(q) != want_s:
        raise Violation("make_query", f"extract_serial_from_query gives {dns.xfr.extract_serial_from_query(q)} for serial {want_s}", "extract")
    # on the wire, through the independent walker
    q.id = QID
    wire = q.to_wire()
    m = W.walk_message(wire)
    if (m.questions[0][1], W.name_key(m.questions[0][0].labels)) != (int(want_t), W.name_key(origin)):
        raise Violation("make_query", "rendered query has another question", "wire-question")
    auth = [rr for rr in m.rrs if rr.section == 2]
    if want_s is None:
        if auth:
            raise Violation("make_query", "AXFR query carries an authority section", "wire-authority")
    else:
        if len(auth) != 1 or auth[0].rdtype != T_SOA or W.name_key(auth[0].owner.labels) != W.name_key(origin):
            raise Violation("make_query", "IXFR query lacks the SOA in the authority section", "wire-authority")
        rdata = W.uncompressed_rdata(auth[0].pieces)
        if struct.unpack("!I", rdata[-20:-16])[0] != want_s:
            raise Violation("make_query", f"IXFR query carries serial {struct.unpack('!I', rdata[-20:-16])[0]}, not {want_s}", "wire-serial")
    back = dns.message.from_wire(wire, keyring=key)
    if dns.xfr.extract_serial_from_query(back) != want_s:
        raise Violation("make_query", "serial lost in a wire round trip of the query", "extract-wire")
    # passthrough of the other arguments
    ue = case["use_edns"]
    if ue == "unset" or ue is None:
        want_edns = 0 if case["payload"] is not None else -1
    elif ue is False:
        want_edns = -1
    else:  # True or level 0
        want_edns = 0
    if q.edns != want_edns:
        raise Violation("make_query", f"use_edns={ue!r} payload={case['payload']!r} gives edns {q.edns}, expected {want_edns}", "edns")
    if want_edns == 0 and case["payload"] is not None and q.payload != case["payload"]:
        raise Violation("make_query", f"payload {case['payload']} not passed through ({q.payload})", "payload")
    has_tsig = any(rr.rdtype == 250 for rr in m.rrs)
    if bool(key) != has_tsig or (key is not None and q.keyring is not key):
        raise Violation("make_query", f"keyring passthrough: tsig={case['tsig']} but signed={has_tsig}", "keyring")
    # the documented refusals
    for bad, what in (
        (dns.message.make_query(ctx.origin_name, "A"), "an A query"),
        (dns.update.UpdateMessage(ctx.origin_name), "an update message"),
    ):
        try:
            dns.xfr.extract_serial_from_query(bad)
        except ValueError:
            pass
        else:
            raise Violation("make_query", f"extract_serial_from_query accepted {what}", "extract-refuse")
    for args, what in (
        ((zone, dns.rdatatype.IXFR), "IXFR without a serial"),
        ((zone, dns.rdatatype.AXFR, None, True), "AXFR over UDP"),
        ((zone, dns.rdatatype.A), "rdtype A"),
    ):
        try:
            dns.xfr.Inbound(*args)
        except ValueError:
            pass
        else:
            raise Violation("make_query", f"Inbound() accepted {what}", "inbound-args")
    return {"nontrivial": want_s is not None, "classes": classes}


@st.composite
def query_cases(draw):
    arg = draw(
        st.one_of(
            st.just("default"), st.none(), st.just(0),
            st.integers(1, 0xFFFFFFFF),
            st.sampled_from([1, 0x7FFFFFFF, 0x80000000, 0xFFFFFFFF, 0xFFFFFFFE]),
            st.sampled_from([-1, 0x100000000, "hi", -0x80000000, 1 << 40]),
        )
    )
    return {
        "origin": G.hexl(draw(st.sampled_from(_ORIGINS))),
        "zone": draw(st.sampled_from(ZONE_KINDS)),
        "zone_serial": draw(st.one_of(st.none(), st.integers(0, 0xFFFFFFFF), st.sampled_from([0, 1, 0x80000000, 0xFFFFFFFF]))),
        "serial": arg,
        "use_edns": draw(st.sampled_from(["unset", None, False, True, 0])),
        "payload": draw(st.sampled_from([None, None, 1232, 4096])),
        "tsig": draw(st.booleans()),
    }


# ---------------------------------------------------------------------------
# strategies

_ORIGINS = [
    [b"example", b""],
    [b"Example", b"COM", b""],
    [b"a", b"b", b"c", b""],
    [b"xn--zone", b"test", b""],
    [b"\x00x\xff", b"odd", b""],
]
_REL_NAMES = [
    [b"www"], [b"a"], [b"b", b"a"], [b"*"], [b"ns1"], [b"sub"], [b"ns", b"sub"], [b"MiXed"],
    [b"mail"], [b"c", b"b", b"a"], [b"\\.;", b"odd"], [b"*", b"sub"],
]
_STYLE_MIX = (
    ["chain"] * 7 + ["condensed"] * 4 + ["axfr_style"] * 2 + ["axfr"] * 3 + ["uptodate"]
    + ["udp_chain", "udp_condensed", "udp_axfr_style", "udp_uptodate", "udp_usetcp", "wrong_base", "behind"]
)
_TYPES = ["A", "A", "A", "AAAA", "TXT", "TXT", "MX", "NS", "NS", "CNAME", "SRV", "RRSIG", "CAA"]
_TTLS = [0, 1, 60, 300, 300, 3600, 3600, 86400, 0x7FFFFFFF]


def _rdata(draw, tname, ctx):
    rec = draw(R.record(name=tname, ctx=ctx))
    wire = bytes.fromhex(rec["wire"])
    if len(wire) > 300:
        # keep messages and descriptors small: the property is not about big RDATA
        rec = draw(R.record(name="A", ctx=ctx))
        return "A", rec["wire"]
    return tname, rec["wire"]


def _pick(draw, n):
    """uniform-ish choice: Hypothesis' own small-integer bias would starve the larger values"""
    return draw(st.integers(0, 1 << 20)) % n


@st.composite
def _op(draw, nnames, ctx):
    k = _pick(draw, 12)
    big = st.integers(0, 1 << 16)
    if k <= 4:
        tname = draw(st.sampled_from(_TYPES))
        tname, wire = _rdata(draw, tname, ctx)
        return ["add", draw(st.integers(0, nnames - 1)), tname, draw(st.sampled_from(_TTLS)), wire]
    if k <= 7:
        return ["del", draw(big), draw(st.integers(0, 7))]
    if k == 8:
        return ["delset", draw(big)]
    if k == 9:
        return ["delname", draw(st.integers(1, nnames - 1))]
    if k == 10:
        return ["ttl", draw(big), draw(st.sampled_from(_TTLS))]
    return ["soa", draw(st.integers(0, 4)), draw(st.sampled_from([0, 1, 300, 7200, 0xFFFFFFFF]))]


@st.composite
def transfer_cases(draw, tier):
    # drawn first and through an integer: Hypothesis biases sampled_from drawn late / often
    style = _STYLE_MIX[draw(st.integers(0, 1 << 20)) % len(_STYLE_MIX)]
    origin = draw(st.sampled_from(_ORIGINS))
    nn = draw(st.integers(2, 5))
    rel = draw(st.lists(st.sampled_from(_REL_NAMES), min_size=nn, max_size=nn, unique_by=lambda n: W.name_key(n)))
    names = [[]] + rel
    nnames = len(names)
    pool = [n + origin for n in names]
    ctx = {"origin": origin, "pool": pool}
    # V0: apex NS + a handful of RRsets
    v0 = []
    ns = [_rdata(draw, "NS", ctx)[1] for _ in range(draw(st.integers(1, 2)))]
    v0.append([0, "NS", draw(st.sampled_from(_TTLS)), ns])
    for _ in range(2 + _pick(draw, 7)):
        tname = draw(st.sampled_from(_TYPES))
        rds = []
        for _ in range(draw(st.sampled_from([1, 1, 2, 3]))):
            t, w = _rdata(draw, tname, ctx)
            if t == tname:
                rds.append(w)
        if rds:
            v0.append([draw(st.integers(0, nnames - 1)), tname, draw(st.sampled_from(_TTLS)), rds])
    # serial chain: strictly increasing in RFC 1982 arithmetic from V0 to Vn
    nsteps = 1 + _pick(draw, 4)
    if style in ("wrong_base",):
        nsteps = max(nsteps, 2)
    serial0 = draw(
        st.one_of(
            st.sampled_from([0, 1, 0x7FFFFFFD, 0x7FFFFFFF, 0x80000000, 0xFFFFFFFC, 0xFFFFFFFE, 0xFFFFFFFF]),
            st.sampled_from([0x7FFFFFFD, 0xFFFFFFFC, 0xFFFFFFFE]),
            st.integers(0, 0xFFFFFFFF),
        )
    )
    remaining = 0x7FFFFFFF
    steps = []
    for i in range(nsteps):
        room = remaining - (nsteps - i - 1)
        delta = draw(st.one_of(st.integers(1, 4), st.integers(1, 4), st.integers(1, room), st.just(room)))
        delta = min(delta, room)
        remaining -= delta
        ops = [draw(_op(nnames, ctx)) for _ in range((0, 1, 2, 2, 3, 3, 4, 6)[_pick(draw, 8)])]
        steps.append({"delta": delta, "ops": ops})
    oob = []
    for _ in range(draw(st.sampled_from([0, 0, 1, 2]))):
        owner = draw(
            st.sampled_from(
                [[b"zz-outside"] + origin[1:], [b"ns", b"zz-outside"] + origin[1:], origin[1:], [b"glue", b"elsewhere", b""]]
            )
        )
        tname = draw(st.sampled_from(["A", "NS", "AAAA", "SOA"]))
        if tname == "SOA":
            wire = (W.encode_name(owner) * 2 + struct.pack("!IIIII", draw(st.integers(0, 0xFFFFFFFF)), 1, 2, 3, 4)).hex()
        else:
            wire = _rdata(draw, tname, ctx)[1]
        oob.append([draw(st.integers(0, 1 << 16)), G.hexl(owner), tname, 300, wire])
    cutmode = ("none", "all", "some", "some", "some", "some")[_pick(draw, 6)]
    zones = ZONE_KINDS if tier == "thorough" else draw(st.lists(st.sampled_from(ZONE_KINDS), min_size=2, max_size=2, unique_by=tuple))
    return {
        "origin": G.hexl(origin),
        "names": [G.hexl(n) for n in names],
        "soa": {
            "mname": G.hexl(draw(st.sampled_from(pool))),
            "rname": G.hexl([b"Host.Master"] + origin),
            "ttl": draw(st.sampled_from(_TTLS)),
            "refresh": draw(st.sampled_from([0, 3600, 0xFFFFFFFF])),
            "retry": 600,
            "expire": 604800,
            "minimum": draw(st.sampled_from([0, 300, 0x7FFFFFFF])),
        },
        "serial0": serial0,
        "v0": v0,
        "steps": steps,
        "client": draw(st.one_of(st.none(), st.integers(0, 8))) if style == "axfr" else draw(st.integers(0, 8)),
        "style": style,
        "order": draw(st.integers(0, 7)),
        "oob": oob,
        "cutmode": cutmode,
        "cuts": draw(st.lists(st.integers(1, 1 << 16), min_size=1, max_size=6)) if cutmode == "some" else [],
        "qmode": (0, 0, 1, 1, 2)[_pick(draw, 5)],
        "upper": draw(st.sampled_from([False, False, True])),
        "zones": [list(z) for z in zones],
        "faults": None,
        # the synchronous or the asynchronous implementation of the transfer loop
        "async_twin": draw(st.integers(0, 2)) == 0,
    }


@st.composite
def signed_cases(draw, tier):
    case = draw(transfer_cases(tier))
    case["sign_mid"] = draw(st.lists(st.booleans(), min_size=1, max_size=4))
    case["sign_last"] = _pick(draw, 3) != 0
    if tier != "thorough":
        case["zones"] = case["zones"][:1]
    return case


def parts(tier):
    req = {
        "__nontrivial__": 20,
        "multi_message": 40,
        "cut_after_every_rr": 10,
        "out_of_zone_rr": 20,
        "wrap:2^32": 5,
        "wrap:2^31": 5,
        "ttl_only_step": 3,
        "name_removed_step": 10,
        "name_added_step": 10,
        "apex_changed_step": 10,
        "verdict:accept": 60,
        "verdict:accept-after-fault": 500,
        "verdict:reject:ends_early": 500,
        "verdict:reject:malformed": 300,
        "verdict:reject:out_of_order": 100,
        "verdict:reject:different_serial": 100,
        "verdict:reject:backwards": 20,
        "verdict:reject:use_tcp": 3,
        "verdict:reject:rcode": 100,
        "verdict:reject:question": 200,
    }
    if EXCLUDE_D12:
        req["excluded:D12"] = 100
    else:
        req["verdict:reject:surplus"] = 100
    for s in VALID_STYLES + INVALID_STYLES:
        req[f"style:{s}"] = 2
    for s in ("chain", "condensed", "axfr_style", "axfr", "uptodate"):
        req[f"style:{s}"] = 5
    for k, r in ZONE_KINDS:
        req[f"zone:{k}:{'rel' if r else 'abs'}"] = 10
    for k in FAULT_KINDS:
        req[f"fault:{k}"] = 100
    qreq = {
        "zone_with_soa": 50, "zone_without_soa": 50, "forced_axfr": 20, "axfr_without_soa": 10,
        "ixfr_from_zone_serial": 20, "ixfr_explicit_serial": 50, "invalid_serial_refused": 20, "keyring": 50,
    }
    return [
        Part(
            "transfer", run, strategy=transfer_cases(tier),
            n={"quick": 400, "thorough": 8000}, require=req, case_timeout_s=120.0,
            shards={"quick": 16, "thorough": 16},
        ),
        Part(
            "signed", run_signed, strategy=signed_cases(tier),
            n={"quick": 320, "thorough": 6400},
            require={
                "signed_transfer_checked": 50, "unsigned_middle": 20, "multi_message": 50,
                ("excluded:D12b" if EXCLUDE_D12B else "last_unsigned_refused"): 20,
            },
        ),
        Part("query", run_query, strategy=query_cases(), n={"quick": 800, "thorough": 16000}, require=qreq),
    ]
