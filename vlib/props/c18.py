"""C18  A network exchange returns only a genuine response; stream framing is exact.

Scripted sockets are handed to dns.query / dns.asyncquery through the public ``sock=``
parameters; ``dns.query._wait_for`` and the ``time`` names of both modules are rebound for
the duration of a case.  No real socket, no real sleeping, a fresh asyncio loop per case.
See DESIGN.md section C18.

SCOPING (decisions taken while making the check quiet on the unchanged tree)

* Acceptance is judged by vlib/ref/net_model.py (own header+question decoder, own
  interpreter of the script), never by dns.message.  "rcode" in the empty-question
  exception is the full rcode (header bits + OPT extended bits).
* ``receive_udp`` only verifies the source (and, with ignore_errors=True *and* query given,
  the response predicate) -- that is its documented contract -- so the full "never a
  decoy" predicate is required of ``udp()``/``tcp()`` in every mode and of ``receive_udp``
  only in that mode.  In every mode a datagram that does not parse must not be returned.
  ``receive_tcp`` verifies nothing but framing + parse.
* raise_on_truncation without ignore_errors reports *any* datagram from the right source
  whose header has TC (documented: "raise an exception if the TC bit is set"); with
  ignore_errors a TC header that is not a response to the query is passed over.
* UPDATE (opcode 5) is not generated, neither as query (is_response documents that the
  question is not compared for updates) nor as decoy (different section grammar).
* IPv6 flowinfo / scope-id are always 0 in scripted source addresses.
* "The returned message is the parse of exactly the datagram/frame octets" compares id,
  flags, question (octet-exact) and the *set* of RRs per section: identical RRs inside one
  datagram merge (an rrset is a set) -- first thorough run flagged that; oracle over-reach,
  fixed in the oracle, and the generators no longer emit duplicate RDATA.
* A would-block that escapes to the caller, a wait in the wrong direction, a wait without a
  preceding would-block and a deadline that is not handed down unchanged are reported as
  violations (clauses wouldblock / io-contract): with real sockets they are hangs or lost
  deadlines, i.e. "an expired deadline is an error" would not hold.
* D19 (genuine defect, reproduced standalone): dns.asyncquery.receive_udp/receive_tcp pass
  continue_on_error=ignore_errors to from_wire, so with ignore_errors=True a malformed
  datagram whose header and (partial) question match is RETURNED (with .errors set) where
  the sync path skips it.  While EXCLUDE_D19 is True the generators switch the async twin
  off for exactly the scripts that reach such a datagram (class "excluded:D19"); flip the
  flag once /repo is fixed.
"""

import asyncio
import itertools
import socket
import struct

from hypothesis import strategies as st

from vlib.ref import net_model as NM
from vlib.ref import wire as W
from vlib.runner import Part, Violation

ID = "C18"
LEVEL = "fault_enumeration"
TECHNIQUE = (
    "property-based testing / fault enumeration: Hypothesis-generated datagram scripts and "
    "stream chunkings played through scripted sockets into dns.query and dns.asyncquery; "
    "independent decoder + script interpreter as oracle; sync/async differential; exhaustive "
    "split-point sets for small frames"
)
LEVEL_TEXT = (
    "Every decoy kind x option combination x would-block/deadline placement that the "
    "generators produce, and every split-point set of small frames (all 2^18 for a 19-octet "
    "stream in the thorough tier), gave the outcome computed by the independent interpreter, "
    "in the sync and the async implementation.  Not a proof: scripts are bounded (<= 7 "
    "datagrams, <= 3 frames) and real sockets / OS timing are outside the model."
)
RULE = (
    "udp: a query + destination (IPv4/IPv6/alternate IPv6 spellings/multicast) + a script of "
    "0-6 decoys (wrong source address/port, wrong id, QR clear, other opcode, other question "
    "name/type/class, garbage, cut in the middle, TC forged, trailing octets, empty-question "
    "replies, unsigned-query TSIG) then optionally a genuine reply (plain, alternate source "
    "spelling, case-variant question, empty-question FORMERR/SERVFAIL/NOTIMP/REFUSED, TC), "
    "interleaved with would-block and deadline events, under every combination of "
    "ignore_unexpected/ignore_errors/raise_on_truncation/ignore_trailing/one_rr_per_rrset; "
    "non-trivial = >= 2 decoys of different kinds were passed over before the datagram that "
    "decided the outcome.  stream: 0-3 length-prefixed frames delivered through recv in a "
    "generated chunking with would-block/EOF/deadline events and partial sends; non-trivial "
    "= a frame arrived in >= 3 chunks with a would-block in between.  splits: enumerated "
    "split-point sets and fault positions of fixed small frames.  distinct by SHA-1 of the case"
    ' Part backend_deadline: the real asyncio backend socket wrappers over an in-memory transport under expired/zero/none/far deadlines (49 enumerated cases).'
)
RULE += (
    " Rounds 9-10 added: frames of 32767..65535 octets; every udp case replayed through sync and async udp_with_fallback (scripted UDP socket + one-frame TCP socket)."
)
ASSUMPTIONS = [
    "vlib/ref/net_model.py + vlib/ref/wire.py (independent encoder/decoder/interpreter) are "
    "the trusted base; the scripted socket layer stands in for the OS (real sockets, "
    "TLS/DoH/DoQ transports and OS timing are out of scope)",
    "receive_udp is held to its documented contract (source check always, response "
    "predicate only with ignore_errors and a query); udp()/tcp() to the full predicate",
    "UPDATE opcode, IPv6 flowinfo/scope ids and TSIG-signed queries are not generated",
    "D19 (async continue_on_error=ignore_errors) is excluded by construction while "
    "EXCLUDE_D19 is True; counted as excluded:D19",
]

EXCLUDE_D19 = False

T0 = 4096.0
DT = 0.25
MAX_OPS = 20000

GENUINE_KINDS = frozenset(
    ["genuine", "alt_text_src", "case_variant", "special_empty_q", "tc_genuine", "mcast_any_src"]
)


class _Hang(BaseException):
    """the script says: nothing more ever arrives and there is no deadline"""


class _Runaway(BaseException):
    """the code under test keeps calling the socket without making progress"""


class _FakeTime:
    def __init__(self, now):
        self.now = now

    def time(self):
        return self.now

    def monotonic(self):
        return self.now

    def sleep(self, _):
        raise AssertionError("real sleep requested")


# ---------------------------------------------------------------------------
# glue between descriptors and dns objects


def _mk_query(qd):
    import dns.message
    import dns.name

    labels = [bytes.fromhex(h) for h in qd["name"]]
    assert W.wire_len(labels) <= 255, "generator: query name longer than 255 octets"
    q = dns.message.make_query(
        dns.name.Name(labels),
        qd["rdtype"],
        qd["rdclass"],
        use_edns=0 if qd["edns"] else None,
        id=qd["id"],
    )
    if not qd["rd"]:
        q.flags = q.flags & ~0x0100
    if qd["opcode"] != 0:
        q.set_opcode(qd["opcode"])
    q.id = qd["id"]
    return q


def _model_query(qd):
    return {
        "id": qd["id"],
        "opcode": qd["opcode"],
        "questions": [
            (tuple(bytes.fromhex(h) for h in qd["name"]), qd["rdtype"], qd["rdclass"])
        ],
    }


def _ll(dest):
    """low-level destination tuple as the library is expected to build it"""
    if dest["fam"] == 4:
        return (dest["where"], dest["port"])
    return (dest["where"], dest["port"], 0, 0)


def _family(dest):
    return socket.AF_INET if dest["fam"] == 4 else socket.AF_INET6


def _classify_exc(e):
    import dns.exception
    import dns.message
    import dns.query

    if isinstance(e, _Hang):
        return "hang"
    if isinstance(e, dns.exception.Timeout):
        return "Timeout"
    if isinstance(e, dns.query.UnexpectedSource):
        return "UnexpectedSource"
    if isinstance(e, dns.query.BadResponse):
        return "BadResponse"
    if isinstance(e, dns.message.Truncated):
        return "Truncated"
    if isinstance(e, EOFError):
        return "EOFError"
    if isinstance(e, dns.exception.DNSException):
        return "ParseError"
    return None


def _section_rrs(section):
    out = []
    for rrset in section:
        for rd in rrset:
            out.append(
                (
                    tuple(W.lower(l) for l in rrset.name.labels),
                    int(rrset.rdtype),
                    int(rrset.rdclass),
                    int(rrset.ttl),
                    rd.to_wire(),
                )
            )
    return sorted(out)


def _check_identity(r, d, orr, where):
    """r (returned by the library) must be the parse of exactly the octets d.raw"""
    if not hasattr(r, "id") or not hasattr(r, "question"):
        raise Violation("identity", f"{where}: returned object is not a message: {r!r}", "not-a-message")
    if r.id != d.id or int(r.flags) != d.flags:
        raise Violation(
            "identity",
            f"{where}: returned message has id/flags {r.id}/{int(r.flags):#x}, the datagram "
            f"it came from has {d.id}/{d.flags:#x}",
            "header",
        )
    got_q = [(tuple(rr.name.labels), int(rr.rdtype), int(rr.rdclass)) for rr in r.question]
    if got_q != list(d.questions):
        raise Violation(
            "identity", f"{where}: question {got_q!r} is not the datagram's {d.questions!r}", "question"
        )
    for secno, sec in enumerate((r.answer, r.authority, r.additional)):
        want = sorted(
            (tuple(W.lower(l) for l in o), t, c, ttl, rd) for (o, t, c, ttl, rd) in d.sections[secno]
        )
        got = _section_rrs(sec)
        nrr = len(want)
        # an rrset is a set: identical RRs in one datagram merge (unless one_rr_per_rrset)
        want = sorted(set(want))
        if sorted(set(got)) != want or (len(got) != len(want) and not orr):
            raise Violation(
                "identity",
                f"{where}: section {secno + 1} holds {got!r}, the datagram holds {want!r}",
                "records",
            )
        nsets = nrr if orr else len({(o, t, c) for (o, t, c, _, _) in want})
        if len(sec) != nsets:
            raise Violation(
                "identity",
                f"{where}: section {secno + 1} has {len(sec)} rrsets, expected {nsets} "
                f"(one_rr_per_rrset={orr})",
                "one_rr_per_rrset",
            )


def _mismatch_reason(mq, d):
    if not d.qr:
        return "qr-clear"
    if d.id != mq["id"]:
        return "id"
    if d.opcode != mq["opcode"]:
        return "opcode"
    return "question"


def _check_sent_query(data, mq, where):
    d = NM.decode(data)
    if not (
        d.header_ok
        and d.complete
        and not d.trailing
        and not d.qr
        and d.id == mq["id"]
        and d.opcode == mq["opcode"]
        and [NM.question_key(x) for x in d.questions] == [NM.question_key(x) for x in mq["questions"]]
    ):
        raise Violation("send", f"{where}: what was sent is not the query: {d!r}", "sent-not-query")


def _run_coro(coro):
    loop = asyncio.new_event_loop()
    try:
        return loop.run_until_complete(coro)
    finally:
        loop.close()


# ---------------------------------------------------------------------------
# UDP: scripted sockets


class _IoBase:
    def __init__(self, clock, variant):
        self.clock = clock
        self.variant = variant
        self.deadline = None  # absolute expiration the library is expected to use
        self.pending = None
        self.problems = []
        self.ops = 0
        self.sock = None
        self.peer = None

    def op(self):
        self.ops += 1
        if self.ops > MAX_OPS:
            raise _Runaway()

    def problem(self, key, msg):
        if not any(k == key for k, _ in self.problems):
            self.problems.append((key, msg))

    # sync side -------------------------------------------------------------
    def wait_for(self, fd, readable, writable, _, expiration):
        import dns.exception

        self.op()
        if fd is not self.sock:
            self.problem("wait-fd", "_wait_for called with something that is not the socket")
        if expiration != self.deadline:
            self.problem(
                "deadline", f"waited with expiration {expiration!r}, expected {self.deadline!r}"
            )
        pend, self.pending = self.pending, None
        if pend is None:
            self.problem("wait-without-wouldblock", "waited although the socket was ready")
            return
        kind, direction = pend
        if direction == "r" and not (readable and not writable):
            self.problem("wait-direction", "would-block on receive but did not wait for readability")
        if direction == "w" and not (writable and not readable):
            self.problem("wait-direction", "would-block on send but did not wait for writability")
        if kind == "ready":
            self.clock.now += DT
            return
        if self.deadline is None:
            raise _Hang()
        self.clock.now = self.deadline + 1.0
        raise dns.exception.Timeout



class _UdpState(_IoBase):
    def __init__(self, case, clock, variant):
        super().__init__(clock, variant)
        self.script = case["script"]
        self.i = 0
        self.send_wb = case["send_wb"]
        self.send_expire = case["send_expire"]
        self.delivered = []
        self.sent = []

    def next_for_sync(self):
        """returns a datagram event index or raises BlockingIOError after arming pending"""
        self.op()
        if self.i >= len(self.script):
            self.pending = ("fault", "r")
            raise BlockingIOError
        ev = self.script[self.i]
        self.i += 1
        if ev[0] == "wb":
            self.pending = ("ready", "r")
            raise BlockingIOError
        if ev[0] == "expire":
            self.pending = ("fault", "r")
            raise BlockingIOError
        self.delivered.append(self.i - 1)
        return ev


class _SyncDgram:
    def __init__(self, st, family):
        self.st = st
        self.family = family
        self.type = socket.SOCK_DGRAM
        self.closed = 0

    def sendto(self, data, dest):
        st = self.st
        st.op()
        if st.send_wb > 0:
            st.send_wb -= 1
            st.pending = ("ready", "w")
            raise BlockingIOError
        if st.send_expire:
            st.pending = ("fault", "w")
            raise BlockingIOError
        st.sent.append((bytes(data), dest))
        return len(data)

    def send(self, data):
        self.st.problem("send-no-destination", "send() used instead of sendto(destination)")
        return len(data)

    def recvfrom(self, size):
        if size < 512:
            self.st.problem("recv-size", f"recvfrom({size})")
        ev = self.st.next_for_sync()
        return (bytes.fromhex(ev[3]), tuple(ev[2]))

    def close(self):
        self.closed += 1

    def __enter__(self):
        return self

    def __exit__(self, *a):
        self.close()

    def setblocking(self, flag):
        pass

    def bind(self, addr):
        pass

    def fileno(self):
        return -1

    def getsockname(self):
        return ("0.0.0.0", 0) if self.family == socket.AF_INET else ("::", 0, 0, 0)


_async_classes = {}


def _async_cls():
    if _async_classes:
        return _async_classes
    import dns.asyncbackend
    import dns.exception

    class AsyncDgram(dns.asyncbackend.DatagramSocket):
        def __init__(self, st, family):
            super().__init__(family, socket.SOCK_DGRAM)
            self.st = st
            self.closed = 0

        def _check_timeout(self, timeout):
            st = self.st
            want = None if st.deadline is None else max(st.deadline - st.clock.now, 0)
            if timeout != want:
                st.problem("deadline", f"socket operation given timeout {timeout!r}, expected {want!r}")

        async def sendto(self, what, destination, timeout):
            st = self.st
            st.op()
            self._check_timeout(timeout)
            if st.send_expire:
                st.clock.now = st.deadline + 1.0
                raise dns.exception.Timeout
            st.sent.append((bytes(what), destination))
            return len(what)

        async def recvfrom(self, size, timeout):
            st = self.st
            if size < 512:
                st.problem("recv-size", f"recvfrom({size})")
            self._check_timeout(timeout)
            while True:
                st.op()
                if st.i >= len(st.script):
                    ev = ("expire",)
                else:
                    ev = st.script[st.i]
                    st.i += 1
                if ev[0] == "wb":
                    st.clock.now += DT
                    await asyncio.sleep(0)
                    continue
                if ev[0] == "expire":
                    if st.deadline is None:
                        raise _Hang()
                    st.clock.now = st.deadline + 1.0
                    raise dns.exception.Timeout
                st.delivered.append(st.i - 1)
                return (bytes.fromhex(ev[3]), tuple(ev[2]))

        async def close(self):
            self.closed += 1

        async def getpeername(self):
            return self.st.peer

        async def getsockname(self):
            return ("0.0.0.0", 0)

    class AsyncStream(dns.asyncbackend.StreamSocket):
        def __init__(self, st, family):
            super().__init__(family, socket.SOCK_STREAM)
            self.st = st
            self.closed = 0

        def _check_timeout(self, timeout):
            st = self.st
            want = None if st.deadline is None else max(st.deadline - st.clock.now, 0)
            if timeout != want:
                st.problem("deadline", f"socket operation given timeout {timeout!r}, expected {want!r}")

        async def sendall(self, what, timeout):
            st = self.st
            st.op()
            self._check_timeout(timeout)
            what = bytes(what)
            st.send_calls.append(what)
            off = 0
            while off < len(what):
                st.op()
                if st.si >= len(st.send_events):
                    st.accepted += what[off:]
                    return
                ev = st.send_events[st.si]
                st.si += 1
                if ev[0] == "acc":
                    k = min(ev[1], len(what) - off)
                    st.accepted += what[off : off + k]
                    off += k
                elif ev[0] == "wb":
                    st.clock.now += DT
                    await asyncio.sleep(0)
                else:
                    st.clock.now = st.deadline + 1.0
                    raise dns.exception.Timeout

        async def recv(self, size, timeout):
            st = self.st
            self._check_timeout(timeout)
            while True:
                r = st.recv_step(size)
                if r[0] == "data":
                    return r[1]
                if r[0] == "wb":
                    st.clock.now += DT
                    await asyncio.sleep(0)
                    continue
                if st.deadline is None:
                    raise _Hang()
                st.clock.now = st.deadline + 1.0
                raise dns.exception.Timeout

        async def close(self):
            self.closed += 1

        async def getpeername(self):
            return self.st.peer

        async def getsockname(self):
            return ("0.0.0.0", 0)

    class StubBackend(dns.asyncbackend.Backend):
        def __init__(self, sock):
            self.sock = sock
            self.calls = []

        def name(self):
            return "scripted"

        async def make_socket(self, af, socktype, proto=0, source=None, destination=None,
                              timeout=None, ssl_context=None, server_hostname=None):
            self.calls.append((af, socktype, proto, source, destination, timeout))
            return self.sock

        def datagram_connection_required(self):
            return False

        async def sleep(self, interval):
            raise AssertionError("backend.sleep called")

    _async_classes["dgram"] = AsyncDgram
    _async_classes["stream"] = AsyncStream
    _async_classes["backend"] = StubBackend
    return _async_classes


# ---------------------------------------------------------------------------
# UDP: drivers


class _MiniStream:
    """connected stream socket of the TCP leg of udp_with_fallback: accepts every write, delivers one
    prepared frame (the stream machinery proper is the subject of the `stream` part)"""

    def __init__(self, data):
        self.buf = data
        self.sent = b""

    def send(self, data):
        self.sent += bytes(data)
        return len(data)

    def sendall(self, data):
        self.sent += bytes(data)

    def recv(self, count):
        out, self.buf = self.buf[:count], self.buf[count:]
        return out

    def fileno(self):
        return 98

    def getpeername(self):
        return ("192.0.2.1", 53)

    def close(self):
        pass


class _MiniAsyncStream:
    def __init__(self, data):
        self.buf = data
        self.sent = b""

    async def sendall(self, data, timeout):
        self.sent += bytes(data)

    async def recv(self, count, timeout):
        out, self.buf = self.buf[:count], self.buf[count:]
        return out

    async def getpeername(self):
        return ("192.0.2.1", 53)

    async def close(self):
        pass

    async def __aenter__(self):
        return self

    async def __aexit__(self, *a):
        pass


def _tcp_reply(q):
    """the answer the scripted TCP leg gives to q (input construction only)"""
    import dns.message
    import dns.rrset

    r = dns.message.make_response(q)
    if q.question:
        r.answer.append(dns.rrset.from_text(q.question[0].name, 777, "IN", "TXT", '"over tcp"'))
    w = r.to_wire()
    return len(w).to_bytes(2, "big") + w, w


def _udp_call(case, variant):
    """Play the script into the sync or async implementation.  Returns (obs, st)."""
    import dns.asyncquery
    import dns.exception
    import dns.query

    q = _mk_query(case["q"])
    dest = case["dest"]
    o = case["opts"]
    timeout = case["timeout"]
    clock = _FakeTime(T0)
    st = _UdpState(case, clock, variant)
    st.deadline = None if timeout is None else T0 + timeout
    st.peer = _ll(dest)
    fam = _family(dest)
    api = case["api"]
    rdest = _ll(dest) if case.get("dest_given", True) else None
    rquery = q if case.get("query_given", True) else None
    obs = {"outcome": None, "result": None, "exc": None, "backend": None}
    saved = (dns.query._wait_for, dns.query.time, dns.asyncquery.time)
    dns.query.time = clock
    dns.asyncquery.time = clock
    try:
        try:
            if variant == "sync":
                sock = _SyncDgram(st, fam)
                st.sock = sock
                dns.query._wait_for = st.wait_for
                if api == "udp_fb":
                    frame, obs["tcp_wire"] = _tcp_reply(q)
                    obs["tcp_sock"] = _MiniStream(frame)
                    obs["result"], obs["used_tcp"] = dns.query.udp_with_fallback(
                        q, dest["where"], timeout, dest["port"],
                        ignore_unexpected=o["iu"], one_rr_per_rrset=o["orr"], ignore_trailing=o["it"],
                        udp_sock=sock, tcp_sock=obs["tcp_sock"], ignore_errors=o["ie"],
                    )
                elif api == "udp":
                    obs["result"] = dns.query.udp(
                        q, dest["where"], timeout, dest["port"],
                        ignore_unexpected=o["iu"], one_rr_per_rrset=o["orr"],
                        ignore_trailing=o["it"], raise_on_truncation=o["rot"],
                        sock=sock, ignore_errors=o["ie"],
                    )
                else:
                    what = q if case["send_what"] == "msg" else q.to_wire()
                    n, _t = dns.query.send_udp(sock, what, _ll(dest), st.deadline)
                    obs["send_n"] = n
                    obs["result"] = dns.query.receive_udp(
                        sock, rdest, st.deadline, o["iu"], o["orr"], None, b"",
                        o["it"], o["rot"], o["ie"], rquery,
                    )
            else:
                C = _async_cls()
                sock = C["dgram"](st, fam)
                st.sock = sock
                if api == "udp_fb":
                    frame, obs["tcp_wire"] = _tcp_reply(q)
                    obs["tcp_sock"] = _MiniAsyncStream(frame)
                    obs["result"], obs["used_tcp"] = _run_coro(
                        dns.asyncquery.udp_with_fallback(
                            q, dest["where"], timeout, dest["port"],
                            ignore_unexpected=o["iu"], one_rr_per_rrset=o["orr"], ignore_trailing=o["it"],
                            udp_sock=sock, tcp_sock=obs["tcp_sock"], ignore_errors=o["ie"],
                        )
                    )
                elif api == "udp":
                    kw = {"sock": sock}
                    if case.get("via") == "backend":
                        be = C["backend"](sock)
                        obs["backend"] = be
                        kw = {"backend": be}
                    obs["result"] = _run_coro(
                        dns.asyncquery.udp(
                            q, dest["where"], timeout, dest["port"],
                            ignore_unexpected=o["iu"], one_rr_per_rrset=o["orr"],
                            ignore_trailing=o["it"], raise_on_truncation=o["rot"],
                            ignore_errors=o["ie"], **kw,
                        )
                    )
                else:
                    what = q if case["send_what"] == "msg" else q.to_wire()

                    async def both():
                        n, _t = await dns.asyncquery.send_udp(sock, what, _ll(dest), st.deadline)
                        obs["send_n"] = n
                        return await dns.asyncquery.receive_udp(
                            sock, rdest, st.deadline, o["iu"], o["orr"], None, b"",
                            o["it"], o["rot"], o["ie"], rquery,
                        )

                    obs["result"] = _run_coro(both())
            obs["outcome"] = "return"
        except (dns.exception.DNSException, EOFError, _Hang) as e:
            obs["outcome"] = _classify_exc(e)
            obs["exc"] = e
        except BlockingIOError:
            raise Violation("wouldblock", f"{variant}: a would-block condition escaped to the caller", f"{variant}:blockingioerror")
        except _Runaway:
            raise Violation("hang", f"{variant}: the exchange keeps polling the socket without end", f"{variant}:runaway")
    finally:
        dns.query._wait_for, dns.query.time, dns.asyncquery.time = saved
    obs["sock"] = sock
    return obs, st


def _judge_udp(case, variant, obs, st, model, mq):
    o = case["opts"]
    api = case["api"]
    script = case["script"]
    dest_ll = _ll(case["dest"])
    where = f"{variant} {api}"
    for key, msg in st.problems:
        raise Violation("io-contract", f"{where}: {msg}", f"{variant}:{key}")
    # what went out
    if case["send_expire"]:
        if st.sent:
            raise Violation("send", f"{where}: datagram sent although the send never became possible", "sent-after-expiry")
    else:
        if len(st.sent) != 1:
            raise Violation("send", f"{where}: {len(st.sent)} datagrams sent, expected exactly 1", "send-count")
        data, d_used = st.sent[0]
        _check_sent_query(data, mq, where)
        if tuple(d_used) != tuple(dest_ll):
            raise Violation("send", f"{where}: sent to {d_used!r}, expected {dest_ll!r}", "send-destination")
        if api == "receive_udp" and obs.get("send_n") is not None and obs["send_n"] != len(data):
            raise Violation("send", f"{where}: send_udp reported {obs['send_n']} octets, sent {len(data)}", "send-n")
    got_index = None
    if obs["outcome"] == "return":
        res = obs["result"]
        if api == "udp":
            r = res
        else:
            want_len = 3 if (variant == "async" or not case.get("dest_given", True)) else 2
            if not isinstance(res, tuple) or len(res) != want_len:
                raise Violation("shape", f"{where}: returned {res!r}, expected a {want_len}-tuple", "tuple-shape")
            r = res[0]
        if not st.delivered:
            raise Violation("safety", f"{where}: returned a message without reading any datagram", f"{variant}:nothing-read")
        got_index = st.delivered[-1]
        ev = script[got_index]
        d = NM.decode(bytes.fromhex(ev[3]))
        status = NM.parse_status(d, o["it"])
        rdest = dest_ll if case.get("dest_given", True) else None
        if status is not None:
            raise Violation(
                "safety",
                f"{where}: returned a message built from datagram #{got_index} ({ev[1]}) which does "
                f"not parse ({status}: {d.error or 'trailing octets'}); errors attribute: "
                f"{getattr(r, 'errors', None)!r}",
                f"{variant}:unparseable-returned",
            )
        if not NM.source_acceptable(rdest, ev[2]):
            raise Violation(
                "safety",
                f"{where}: returned datagram #{got_index} that came from {ev[2]!r}, queried {rdest!r}",
                f"{variant}:wrong-source-returned",
            )
        full = api == "udp" or (o["ie"] and case.get("query_given", True))
        if full and not NM.is_response_to(mq, d):
            raise Violation(
                "safety",
                f"{where}: returned datagram #{got_index} ({ev[1]}) which is not a response to the "
                f"query: {d!r}",
                f"{variant}:decoy-returned:{_mismatch_reason(mq, d)}",
            )
        _check_identity(r, d, o["orr"], where)
        if api == "receive_udp" and len(res) == 3 and tuple(res[2]) != tuple(ev[2]):
            raise Violation("shape", f"{where}: from_address {res[2]!r} is not the datagram's source {ev[2]!r}", "from-address")
    want = (model["outcome"], model["index"] if model["outcome"] == "return" else None)
    got = (obs["outcome"], got_index)
    if got != want:
        kind = script[model["index"]][1] if model["index"] is not None else "-"
        raise Violation(
            "outcome",
            f"{where}: expected {want}, observed {got} ({obs['exc']!r}); deciding datagram kind "
            f"{kind}; options {o}",
            f"{variant}:{want[0]}->{got[0]}",
        )
    if st.delivered != model["consumed"]:
        raise Violation(
            "outcome",
            f"{where}: read datagrams {st.delivered}, expected {model['consumed']}",
            f"{variant}:consumed",
        )
    if obs["backend"] is not None:
        be = obs["backend"]
        if len(be.calls) != 1 or be.calls[0][0] != _family(case["dest"]) or be.calls[0][1] != socket.SOCK_DGRAM:
            raise Violation("io-contract", f"{where}: backend.make_socket calls {be.calls!r}", "backend-make-socket")
        if obs["sock"].closed != 1:
            raise Violation("io-contract", f"{where}: socket made by the backend closed {obs['sock'].closed} times", "backend-close")
    elif obs["sock"].closed != 0:
        raise Violation("io-contract", f"{where}: caller-supplied socket was closed", "closed-callers-socket")
    return got


def run_udp(case):
    mq = _model_query(case["q"])
    has_deadline = case["timeout"] is not None
    for ev in case["script"]:
        assert ev[0] != "expire" or has_deadline, "generator: expire without deadline"
    assert not case["send_expire"] or has_deadline
    api = case["api"]
    rdest = _ll(case["dest"]) if case.get("dest_given", True) else None
    rquery = mq if case.get("query_given", True) else None
    model = NM.interpret_udp(
        case["script"], rdest, case["opts"], rquery, api, has_deadline, case["send_expire"]
    )
    # generator self-check: labels agree with the independent classification
    for ev in case["script"]:
        if ev[0] == "dg" and ev[1] in GENUINE_KINDS:
            d = NM.decode(bytes.fromhex(ev[3]))
            assert NM.is_response_to(mq, d) and NM.source_acceptable(_ll(case["dest"]), ev[2]), ev
        elif ev[0] == "dg" and ev[1] in _NEVER_GENUINE:
            d = NM.decode(bytes.fromhex(ev[3]))
            assert not (
                NM.parse_status(d, True) is None
                and NM.is_response_to(mq, d)
                and NM.source_acceptable(_ll(case["dest"]), ev[2])
            ), ev
    results = {}
    obs, stt = _udp_call(case, "sync")
    results["sync"] = _judge_udp(case, "sync", obs, stt, model, mq)
    classes = set()
    if case.get("run_async", True):
        obs, stt = _udp_call(case, "async")
        results["async"] = _judge_udp(case, "async", obs, stt, model, mq)
        if results["async"] != results["sync"]:
            raise Violation("differential", f"sync {results['sync']} vs async {results['async']}", "sync-async")
        classes.add("async-twin")
    # udp_with_fallback: the same exchange with truncation asked for; a genuine truncated reply
    # (cleanly cut or chopped mid-record) makes it retry over TCP, anything else is udp()'s outcome
    if api == "udp" and case.get("via") != "backend" and not case.get("excluded"):
        fb_case = dict(case, opts=dict(case["opts"], rot=True))
        fb_model = NM.interpret_udp(case["script"], rdest, fb_case["opts"], rquery, "udp", has_deadline, case["send_expire"])
        for variant in ("sync", "async") if case.get("run_async", True) else ("sync",):
            obs, stt = _udp_call(dict(fb_case, api="udp_fb"), variant)
            if fb_model["outcome"] == "Truncated":
                if obs["outcome"] != "return":
                    raise Violation("truncation", f"{variant} udp_with_fallback: the genuine truncated reply ({case['script'][fb_model['index']][1]}) did not lead to a TCP retry: {obs['outcome']} ({obs['exc']!r})", f"{variant}:fallback-not-taken:{obs['outcome']}")
                import dns.message

                if not obs["used_tcp"] or obs["result"].to_wire() != dns.message.from_wire(obs["tcp_wire"]).to_wire():
                    raise Violation("truncation", f"{variant} udp_with_fallback: after a truncated reply the result is not the TCP answer (used_tcp={obs['used_tcp']})", f"{variant}:fallback-result")
                if len(obs["tcp_sock"].sent) < 14:
                    raise Violation("truncation", f"{variant} udp_with_fallback: nothing was sent over TCP", f"{variant}:fallback-nothing-sent")
                classes.add("fallback-to-tcp:" + case["script"][fb_model["index"]][1])
            else:
                _judge_udp(fb_case, variant + "-fallback", obs, stt, fb_model, mq)
                if obs["outcome"] == "return" and obs.get("used_tcp"):
                    raise Violation("truncation", f"{variant} udp_with_fallback: used TCP although the UDP reply was complete", f"{variant}:fallback-spurious")
                classes.add("fallback-not-needed")
    if case.get("excluded"):
        classes.add("excluded:" + case["excluded"])
    elif model["d19"] and not EXCLUDE_D19:
        classes.add("d19-class-included")
    for k in ("iu", "ie", "rot", "it", "orr"):
        classes.add(f"{k}={int(case['opts'][k])}")
    classes.add("api:" + api)
    if api == "receive_udp":
        classes.add("dest_given=%d" % case.get("dest_given", True))
        classes.add("query_given=%d" % case.get("query_given", True))
    if case.get("via") == "backend" and api == "udp":
        classes.add("via-backend")
    classes.add("dest:" + case["dest"]["tag"])
    classes.add("outcome:" + model["outcome"])
    if model["index"] is not None:
        classes.add(f"decided-by:{case['script'][model['index']][1]}")
    for k in model["skipped"]:
        classes.add("skipped:" + k)
    for i in model["consumed"]:
        classes.add("dg:" + case["script"][i][1])
    if model["wb"]:
        classes.add("would-block")
    if case["send_wb"]:
        classes.add("send-would-block")
    if case["send_expire"]:
        classes.add("send-expire")
    if case["timeout"] is None:
        classes.add("no-deadline")
    if case["q"]["opcode"] != 0:
        classes.add("query-opcode-nonzero")
    nontrivial = len(set(model["skipped"])) >= 2
    if nontrivial and model["outcome"] == "return":
        classes.add("nontrivial-then-returned")
    return {"nontrivial": nontrivial, "classes": sorted(classes)}


# ---------------------------------------------------------------------------
# streams: scripted sockets


class _StreamState(_IoBase):
    def __init__(self, case, clock, variant, stream):
        super().__init__(clock, variant)
        self.S = stream
        self.pos = 0
        self.left = 0
        self.events = case["recv"]
        self.ri = 0
        self.tail = case["tail"]
        self.send_events = case["send"]
        self.si = 0
        self.accepted = bytearray()
        self.send_calls = []
        self.send_offsets = []
        self.recv_counts = []
        self.eof = False

    def recv_step(self, count):
        """("data", bytes) | ("wb",) | ("fault",)"""
        self.op()
        self.recv_counts.append(count)
        if count <= 0:
            self.problem("recv-nonpositive", f"recv({count})")
            return ("data", b"")
        while True:
            if self.eof:
                return ("data", b"")
            if self.left > 0 and self.pos < len(self.S):
                k = min(count, self.left, len(self.S) - self.pos)
                chunk = self.S[self.pos : self.pos + k]
                self.pos += k
                self.left -= k
                return ("data", chunk)
            self.left = 0
            if self.ri >= len(self.events):
                if self.pos < len(self.S):
                    self.left = len(self.S) - self.pos
                    continue
                if self.tail == "eof":
                    self.eof = True
                    continue
                return ("fault",)
            ev = self.events[self.ri]
            self.ri += 1
            if ev[0] == "data":
                if self.pos < len(self.S):
                    self.left = ev[1]
                continue
            if ev[0] == "wb":
                return ("wb",)
            if ev[0] == "eof":
                self.eof = True
                continue
            return ("fault",)


class _SyncStream:
    def __init__(self, st, family):
        self.st = st
        self.family = family
        self.type = socket.SOCK_STREAM
        self.closed = 0

    def send(self, data):
        st = self.st
        st.op()
        data = bytes(data)
        if st.si >= len(st.send_events):
            ev = ("acc", len(data))
        else:
            ev = st.send_events[st.si]
            st.si += 1
        if ev[0] == "acc":
            st.send_calls.append(data)
            st.send_offsets.append(len(st.accepted))
            k = min(ev[1], len(data))
            st.accepted += data[:k]
            return k
        st.pending = ("ready" if ev[0] == "wb" else "fault", "w")
        raise BlockingIOError

    def sendall(self, data):
        self.st.problem("sendall-on-nonblocking", "blocking sendall() used on the nonblocking socket")
        self.st.accepted += bytes(data)

    def recv(self, count):
        r = self.st.recv_step(count)
        if r[0] == "data":
            return r[1]
        self.st.pending = ("ready" if r[0] == "wb" else "fault", "r")
        raise BlockingIOError

    def close(self):
        self.closed += 1

    def __enter__(self):
        return self

    def __exit__(self, *a):
        self.close()

    def fileno(self):
        return -1

    def getpeername(self):
        return self.st.peer


def _stream_of(case):
    s = b"".join(NM.frame(bytes.fromhex(f[1])) for f in case["frames"])
    if case.get("cut") is not None:
        s = s[: case["cut"]]
    return s


def _stream_call(case, variant):
    import dns.asyncquery
    import dns.exception
    import dns.query

    q = _mk_query(case["q"])
    o = case["opts"]
    timeout = case["timeout"]
    api = case["api"]
    clock = _FakeTime(T0)
    S = _stream_of(case)
    st = _StreamState(case, clock, variant, S)
    st.deadline = None if timeout is None else T0 + timeout
    st.peer = ("192.0.2.1", 53)
    obs = {"reads": [], "outcome": None, "exc": None, "send_ret": None}
    if api == "send_tcp":
        what = q if case["what"] == "msg" else bytes.fromhex(case["payload"])
    nreads = len(case["frames"]) + 1
    saved = (dns.query._wait_for, dns.query.time, dns.asyncquery.time)
    dns.query.time = clock
    dns.asyncquery.time = clock
    try:
        try:
            if variant == "sync":
                sock = _SyncStream(st, socket.AF_INET)
                st.sock = sock
                dns.query._wait_for = st.wait_for
                if api == "send_tcp":
                    obs["send_ret"] = dns.query.send_tcp(sock, what, st.deadline)
                elif api == "tcp":
                    r = dns.query.tcp(
                        q, "192.0.2.1", timeout, 53, one_rr_per_rrset=o["orr"],
                        ignore_trailing=o["it"], sock=sock,
                    )
                    obs["reads"].append((r, st.pos))
                else:
                    for _ in range(nreads):
                        r, _t = dns.query.receive_tcp(sock, st.deadline, o["orr"], None, b"", o["it"])
                        obs["reads"].append((r, st.pos))
            else:
                C = _async_cls()
                sock = C["stream"](st, socket.AF_INET)
                st.sock = sock
                if api == "send_tcp":
                    obs["send_ret"] = _run_coro(dns.asyncquery.send_tcp(sock, what, st.deadline))
                elif api == "tcp":
                    r = _run_coro(
                        dns.asyncquery.tcp(
                            q, "192.0.2.1", timeout, 53, one_rr_per_rrset=o["orr"],
                            ignore_trailing=o["it"], sock=sock,
                        )
                    )
                    obs["reads"].append((r, st.pos))
                else:
                    ie = bool(case.get("ie_async"))

                    async def loop_reads():
                        for _ in range(nreads):
                            if ie:
                                r, _t = await dns.asyncquery.receive_tcp(
                                    sock, st.deadline, o["orr"], None, b"", o["it"], True
                                )
                            else:
                                r, _t = await dns.asyncquery.receive_tcp(
                                    sock, st.deadline, o["orr"], None, b"", o["it"]
                                )
                            obs["reads"].append((r, st.pos))

                    _run_coro(loop_reads())
            obs["outcome"] = "done"
        except (dns.exception.DNSException, EOFError, _Hang) as e:
            obs["outcome"] = _classify_exc(e)
            obs["exc"] = e
        except BlockingIOError:
            raise Violation("wouldblock", f"{variant}: a would-block condition escaped to the caller", f"{variant}:blockingioerror")
        except _Runaway:
            raise Violation("hang", f"{variant}: the exchange keeps polling the socket without end", f"{variant}:runaway")
    finally:
        dns.query._wait_for, dns.query.time, dns.asyncquery.time = saved
    obs["sock"] = sock
    return obs, st, q


def _stream_model(case, qwire_len):
    """Expected observable behaviour: dict(send=(kind, accepted), reads=[...], final=...)"""
    has_deadline = case["timeout"] is not None
    api = case["api"]
    mq = _model_query(case["q"])
    o = case["opts"]
    S = _stream_of(case)
    out = {"send": None, "reads": [], "final": "done", "sm": None}
    if api in ("send_tcp", "tcp"):
        if api == "send_tcp" and case["what"] == "bytes":
            total = 2 + len(bytes.fromhex(case["payload"]))
        else:
            total = 2 + qwire_len
        out["send"] = NM.send_model(total, case["send"], has_deadline)
        if out["send"][0] == "Timeout":
            out["final"] = "Timeout"
            return out
        if api == "send_tcp":
            return out
    sm = NM.StreamModel(len(S), case["recv"], case["tail"], has_deadline)
    out["sm"] = sm
    nreads = 1 if api == "tcp" else len(case["frames"]) + 1
    for kind, start, wire in sm.read_frames(S, nreads):
        if kind != "frame":
            out["final"] = kind
            out["fault_start"] = start
            break
        d = NM.decode(wire)
        status = NM.parse_status(d, o["it"])
        if status is not None:
            out["final"] = "ParseError"
            out["bad"] = (start, d, status)
            break
        if api == "tcp" and not NM.is_response_to(mq, d):
            out["final"] = "BadResponse"
            out["bad"] = (start, d, "decoy")
            break
        out["reads"].append((start, start + 2 + len(wire), d))
    return out


def _judge_stream(case, variant, obs, st, q, model):
    import dns.message

    api = case["api"]
    o = case["opts"]
    where = f"{variant} {api}"
    mq = _model_query(case["q"])
    for key, msg in st.problems:
        raise Violation("io-contract", f"{where}: {msg}", f"{variant}:{key}")
    # --- what was written
    if model["send"] is not None:
        if api == "send_tcp" and case["what"] == "bytes":
            body = bytes.fromhex(case["payload"])
        else:
            body = q.to_wire()
        expected = struct.pack("!H", len(body)) + body
        kind, nacc = model["send"]
        want = expected if kind == "ok" else expected[:nacc]
        got = bytes(st.accepted)
        if got != want:
            key = "no-length-prefix" if got == body else ("sent-twice" if got.startswith(expected) else "stream-content")
            raise Violation(
                "framing",
                f"{where}: octets written to the stream are {got.hex()}, expected "
                f"{want.hex()} ({'complete frame' if kind == 'ok' else 'prefix before the deadline'})",
                f"{variant}:send:{key}",
            )
        if variant == "sync":
            for off, data in zip(st.send_offsets, st.send_calls):
                if data != expected[off:]:
                    raise Violation(
                        "framing",
                        f"{where}: send() offered {data.hex()} at stream offset {off}, the unsent "
                        f"remainder is {expected[off:].hex()}",
                        f"{variant}:send:offered",
                    )
        elif st.send_calls != [expected]:
            raise Violation("framing", f"{where}: sendall calls {[c.hex() for c in st.send_calls]}", f"{variant}:send:sendall")
        if api != "send_tcp" or case["what"] == "msg":
            _check_sent_query(body, mq, where)
        if api == "send_tcp" and kind == "ok":
            ret = obs["send_ret"]
            if not isinstance(ret, tuple) or len(ret) != 2 or ret[0] != len(expected):
                raise Violation("framing", f"{where}: send_tcp returned {ret!r}, expected ({len(expected)}, time)", f"{variant}:send:return")
    elif st.accepted or st.send_calls:
        raise Violation("framing", f"{where}: wrote to the stream while only receiving", f"{variant}:send:unexpected")
    # --- what was read
    want_final = model["final"]
    got_final = obs["outcome"]
    if len(obs["reads"]) > len(model["reads"]):
        r, pos = obs["reads"][len(model["reads"])]
        nread = len(model["reads"])
        if want_final in ("EOFError", "Timeout", "hang"):
            raise Violation(
                "framing",
                f"{where}: read #{nread} returned a message although the stream faults with "
                f"{want_final} before that frame is complete (message built from a short read): {r!r}",
                f"{variant}:short-read-message",
            )
        if want_final == "ParseError":
            start, d, status = model["bad"]
            raise Violation(
                "safety",
                f"{where}: read #{nread} returned a message for a frame that does not parse "
                f"({status}: {d.error or 'trailing octets'}); errors attribute {getattr(r, 'errors', None)!r}",
                f"{variant}:unparseable-returned",
            )
        if want_final == "BadResponse":
            start, d, status = model["bad"]
            raise Violation(
                "safety",
                f"{where}: returned a frame that is not a response to the query: {d!r}",
                f"{variant}:decoy-returned:{_mismatch_reason(mq, d)}",
            )
        raise Violation("framing", f"{where}: more messages read than frames exist", f"{variant}:extra-read")
    for k, (r, pos) in enumerate(obs["reads"]):
        start, end, d = model["reads"][k]
        if pos != end:
            raise Violation(
                "framing",
                f"{where}: after read #{k} the stream position is {pos}, the frame ends at {end}",
                f"{variant}:position",
            )
        _check_identity(r, d, o["orr"], f"{where} read #{k}")
    if len(obs["reads"]) < len(model["reads"]) or got_final != want_final:
        raise Violation(
            "outcome",
            f"{where}: expected {len(model['reads'])} message(s) then {want_final}; observed "
            f"{len(obs['reads'])} then {got_final} ({obs['exc']!r})",
            f"{variant}:{want_final}->{got_final}",
        )
    if obs["sock"].closed != 0:
        raise Violation("io-contract", f"{where}: caller-supplied socket was closed", "closed-callers-socket")
    return (len(obs["reads"]), got_final)


def _expand(case):
    if "enum" in case:
        return _expand_enum(case)
    return case


def run_stream(case):
    case = _expand(case)
    has_deadline = case["timeout"] is not None
    for ev in itertools.chain(case["recv"], case["send"]):
        assert ev[0] != "expire" or has_deadline, "generator: expire without deadline"
        assert ev[0] != "data" or ev[1] >= 1
    obs, stt, q = _stream_call(case, "sync")
    model = _stream_model(case, len(q.to_wire()))
    res = {"sync": _judge_stream(case, "sync", obs, stt, q, model)}
    classes = set()
    if case.get("run_async", True):
        obs, stt, q = _stream_call(case, "async")
        res["async"] = _judge_stream(case, "async", obs, stt, q, model)
        if res["async"] != res["sync"]:
            raise Violation("differential", f"sync {res['sync']} vs async {res['async']}", "sync-async")
        classes.add("async-twin")
    if case.get("excluded"):
        classes.add("excluded:" + case["excluded"])
    api = case["api"]
    classes.add("api:" + api)
    classes.add("final:" + model["final"])
    for k in ("it", "orr"):
        classes.add(f"{k}={int(case['opts'][k])}")
    nontrivial = False
    if model["send"] is not None:
        ev_kinds = {e[0] for e in case["send"]}
        if any(e[0] == "acc" and e[1] < 2 + len(q.to_wire()) for e in case["send"][:1]):
            classes.add("partial-send")
        if "wb" in ev_kinds:
            classes.add("send-would-block")
        if model["send"][0] == "Timeout":
            classes.add("send-timeout")
            if model["send"][1] > 0:
                classes.add("send-timeout-mid-frame")
        if api == "send_tcp":
            classes.add("send-what:" + case["what"])
            if case["what"] == "bytes":
                n = len(case["payload"]) // 2
                classes.add("payload>255" if n > 255 else ("payload-empty" if n == 0 else "payload-small"))
    sm = model["sm"]
    if sm is not None:
        for k, f in enumerate(case["frames"][: len(model["reads"])]):
            classes.add("frame-read:" + f[0])
        if len(model["reads"]) >= 2:
            classes.add("pipelined>=2")
        for start, end, d in model["reads"]:
            if end - start - 2 > 255:
                classes.add("frame>255")
            inside = [c for c in sm.data_cuts if start < c < end]
            wbs = [p for p in sm.wb_positions if start < p < end]
            if start + 1 in sm.data_cuts:
                classes.add("split-in-length-prefix")
            if start + 2 not in sm.data_cuts and any(c > start + 2 for c in sm.data_cuts) and any(c <= start for c in sm.data_cuts | {0}):
                classes.add("event-spans-prefix")
            if len(inside) >= 2 and wbs:
                nontrivial = True
            if len(inside) >= end - start - 1:
                classes.add("one-octet-chunks")
        if sm.wb_positions:
            classes.add("would-block")
        if model["final"] in ("EOFError", "Timeout", "hang"):
            fpos = sm.fault[0]
            start = model.get("fault_start", 0)
            tag = {"EOFError": "eof", "Timeout": "timeout", "hang": "hang"}[model["final"]]
            if fpos == start:
                classes.add(tag + "-at-boundary")
            elif fpos < start + 2:
                classes.add(tag + "-in-length-prefix")
            else:
                classes.add(tag + "-mid-frame")
        if model["final"] in ("ParseError", "BadResponse"):
            start, d, status = model["bad"]
            k = len(model["reads"])
            classes.add("frame-bad:" + case["frames"][k][0])
            if len(d.raw) == 0:
                classes.add("zero-length-frame")
    return {"nontrivial": nontrivial, "classes": sorted(classes)}


# ---------------------------------------------------------------------------
# generators: queries, destinations, datagrams

import ipaddress  # noqa: E402

_LETTERS = list(b"abcxyzABCXYZ")
_label = st.one_of(
    st.lists(st.sampled_from(_LETTERS), min_size=1, max_size=6).map(bytes),
    st.lists(st.sampled_from(_LETTERS), min_size=1, max_size=6).map(bytes),
    st.lists(st.sampled_from(list(b"aZ@`[{-_09\x00\xc1\xe1.")), min_size=1, max_size=5).map(bytes),
    st.binary(min_size=1, max_size=12),
    st.sampled_from([b"a" * 63, b"www", b"example", b"*"]),
)
_qname = st.one_of(
    st.lists(_label, min_size=0, max_size=4),
    st.lists(_label, min_size=1, max_size=3),
).map(lambda ls: ls + [b""]).filter(lambda ls: W.wire_len(ls) <= 255)


@st.composite
def _query(draw):
    return {
        "name": [l.hex() for l in draw(_qname)],
        "rdtype": draw(st.sampled_from([1, 1, 28, 15, 16, 2, 255, 6, 65, 12, 65280])),
        "rdclass": draw(st.sampled_from([1, 1, 1, 1, 3, 255])),
        "id": draw(st.one_of(st.integers(0, 65535), st.sampled_from([0, 1, 0xFFFF, 0x0100, 0x8000, 0x00FF]))),
        "opcode": draw(st.sampled_from([0, 0, 0, 0, 0, 2, 4, 1])),
        "rd": draw(st.booleans()),
        "edns": draw(st.integers(0, 3)) == 0,
    }


_DESTS = [
    (4, "127.0.0.1", 53, "v4"),
    (4, "10.53.0.1", 5300, "v4"),
    (4, "192.0.2.53", 53, "v4"),
    (6, "::1", 53, "v6"),
    (6, "2001:db8::53", 53, "v6"),
    (6, "0:0:0:0:0:0:0:1", 53, "v6-alt-spelling"),
    (6, "2001:0DB8:0:0:0:0:0:53", 853, "v6-alt-spelling"),
    (6, "::ffff:10.0.0.1", 53, "v6-mapped"),
    (6, "fe80::1", 53, "v6"),
    (4, "224.0.0.251", 5353, "mcast"),
    (4, "239.255.255.250", 53, "mcast"),
    (6, "ff02::fb", 5353, "mcast"),
    (6, "FF02:0:0:0:0:0:0:FB", 5353, "mcast"),
]


def _spellings(text):
    a = ipaddress.ip_address(text)
    if a.version == 4:
        return [str(a)]
    hexs = [int.from_bytes(a.packed[i : i + 2], "big") for i in range(0, 16, 2)]
    forms = {
        a.compressed,
        a.exploded,
        a.exploded.upper(),
        ":".join(f"{h:x}" for h in hexs),
        ":".join(f"{h:X}" for h in hexs),
    }
    if a.packed[:12] == b"\x00" * 10 + b"\xff\xff":
        forms.add("::ffff:" + ".".join(str(b) for b in a.packed[12:]))
        forms.add("::ffff:%x:%x" % (hexs[6], hexs[7]))
    return sorted(forms)


def _src(text, port, fam):
    return [text, port] if fam == 4 else [text, port, 0, 0]


@st.composite
def _source(draw, dest, kind):
    """kind: same | alt | wrong_addr | wrong_port | wrong_both | mcast_any | mcast_wrong_port"""
    fam, where, port = dest["fam"], dest["where"], dest["port"]
    a = ipaddress.ip_address(where)
    if kind == "same":
        return _src(draw(st.sampled_from([where, a.compressed])), port, fam)
    if kind == "alt":
        forms = [f for f in _spellings(where) if f != where] or [where]
        return _src(draw(st.sampled_from(forms)), port, fam)
    wrong_port = draw(st.sampled_from([port + 1, port - 1, 0, 65535, port ^ 0x0100, 53 if port != 53 else 5353]))
    if wrong_port == port:
        wrong_port = port + 2
    if kind == "wrong_port":
        return _src(draw(st.sampled_from(_spellings(where))), wrong_port, fam)
    p = bytearray(a.packed)
    bi = draw(st.sampled_from([0, 1, len(p) // 2, len(p) - 2, len(p) - 1]))
    p[bi] ^= draw(st.sampled_from([1, 2, 0x10, 0x80, 0xFF]))
    if kind in ("mcast_any", "mcast_wrong_port"):
        p[0] = 10 if fam == 4 else 0x20  # some unicast address
    other = ipaddress.ip_address(bytes(p))
    text = other.compressed if fam == 6 else str(other)
    if kind == "wrong_addr":
        return _src(text, port, fam)
    if kind == "wrong_both":
        return _src(text, wrong_port, fam)
    if kind == "mcast_any":
        return _src(text, port, fam)
    if kind == "mcast_wrong_port":
        return _src(text, wrong_port, fam)
    raise AssertionError(kind)


def _flip_case(label):
    return bytes(c ^ 0x20 if (65 <= c <= 90 or 97 <= c <= 122) else c for c in label)


@st.composite
def _answers(draw, qlabels, ttl, big=False, need=0):
    """answer RRs for a reply (distinct RDATA, one marker TTL)"""
    mode = draw(st.integers(1 if need else 0, 5))
    owner = draw(st.sampled_from([[("ptr", 12)], list(qlabels)]))
    rrs = []
    if big:
        n = draw(st.integers(2, 4))
        for i in range(n):
            s = bytes([65 + i]) * draw(st.sampled_from([120, 200, 255]))
            rrs.append((owner, NM.T_TXT, NM.C_IN, ttl, bytes([len(s)]) + s))
        return rrs
    if mode == 0:
        return []
    if mode in (1, 2):
        n = draw(st.integers(1, 3))
        return [(owner, NM.T_A, NM.C_IN, ttl, bytes([10, 0, draw(st.integers(0, 255)), i])) for i in range(n)]
    if mode == 3:
        tgt = [b"t", b"Example", b""]
        rd = draw(st.sampled_from([NM.enc_name(tgt), NM.enc_name([b"alias", ("ptr", 12)])]))
        return [
            (owner, NM.T_CNAME, NM.C_IN, ttl, rd),
            (tgt, NM.T_A, NM.C_IN, ttl, bytes([10, 1, 1, 1])),
            (tgt, NM.T_A, NM.C_IN, ttl, bytes([10, 1, 1, 2])),
        ]
    if mode == 4:
        return [
            (owner, NM.T_A, NM.C_IN, ttl, bytes([192, 0, 2, 1])),
            (owner, NM.T_AAAA, NM.C_IN, ttl, bytes(15) + b"\x01"),
            (owner, NM.T_MX, NM.C_IN, ttl, b"\x00\x0a" + NM.enc_name([b"mx", ("ptr", 12)])),
        ]
    s = draw(st.binary(min_size=0, max_size=20))
    s2 = s + b"!"  # distinct RDATA: an rrset is a set, duplicates would merge
    return [(owner, NM.T_TXT, NM.C_IN, ttl, bytes([len(s)]) + s), (owner, NM.T_TXT, NM.C_IN, ttl, bytes([len(s2)]) + s2)]


_CONTENT_DECOYS = [
    "wrong_id", "qr_clear", "other_opcode", "other_name", "other_type", "other_class",
    "nonalpha_case", "extra_question", "parent_name", "nonspecial_empty_q",
    "special_rcode_other_q", "ext_rcode_empty_q", "garbage_short", "garbage_hdr",
    "trunc_mid_q", "trunc_mid_an", "tc_forged", "tc_trunc_mid_q", "tc_trunc_mid_an",
    "trailing", "tsig_signed", "empty_datagram",
]
_NEVER_GENUINE = frozenset(
    [k for k in _CONTENT_DECOYS if k != "trailing"]
    + ["wrong_addr", "wrong_port", "wrong_both", "mcast_wrong_port"]
)
_GENUINE_CONTENT = ["genuine", "genuine", "case_variant", "special_empty_q", "tc_genuine"]


@st.composite
def _wire(draw, q, kind, marker):
    """assemble the datagram of the given kind for query q; returns bytes"""
    qlabels = [bytes.fromhex(h) for h in q["name"]]
    qt, qc, qid, op = q["rdtype"], q["rdclass"], q["id"], q["opcode"]
    ttl = 1000 + marker
    rcode = draw(st.sampled_from([0, 0, 0, 3, 2, 5]))
    aa = draw(st.booleans())
    add = [NM.opt_rr()] if (q["edns"] and draw(st.booleans())) else []

    def reply(mid=qid, opcode=op, qr=True, tc=False, questions=None, rc=rcode, answers=None, additional=None, need=0, big=False):
        qs = [(qlabels, qt, qc)] if questions is None else questions
        an = draw(_answers(qlabels, ttl, big=big, need=need)) if answers is None else answers
        return NM.build_message(
            mid, NM.flags_for(opcode, rc, qr=qr, tc=tc, rd=q["rd"], aa=aa), qs, an, (),
            add if additional is None else additional,
        )

    if kind in ("genuine", "alt_text_src", "mcast_any_src", "wrong_src"):
        return reply()
    if kind == "big":
        return reply(big=True)
    if kind == "huge":
        # a frame whose length needs the top bit of the 2-octet prefix (and the largest one): one TXT
        # record sized so that the whole message is exactly L octets
        L = draw(st.sampled_from([32767, 32768, 32769, 40000, 65535, 65535]))
        base = reply(answers=[])
        room = L - len(base) - 12  # owner pointer (2) + type/class/ttl/rdlength (10)
        rd = bytearray()
        while room - len(rd) > 256:
            rd += bytes([255]) + bytes([66]) * 255
        r = room - len(rd)
        if r >= 1:
            rd += bytes([r - 1]) + bytes([67]) * (r - 1)
        return reply(answers=[([("ptr", 12)], NM.T_TXT, NM.C_IN, ttl, bytes(rd))])
    if kind == "case_variant":
        mode = draw(st.integers(0, 2))
        if mode == 0:
            labs = [_flip_case(l) for l in qlabels]
        elif mode == 1:
            labs = [l.upper() for l in qlabels]
        else:
            labs = [bytes(_flip_case(bytes([c]))[0] if draw(st.booleans()) else c for c in l) for l in qlabels]
        return reply(questions=[(labs, qt, qc)])
    if kind == "special_empty_q":
        return reply(questions=[], rc=draw(st.sampled_from([1, 2, 4, 5])), answers=[])
    if kind == "tc_genuine":
        return reply(tc=True)
    if kind == "trailing":
        return reply() + draw(st.binary(min_size=1, max_size=6))
    if kind == "wrong_id":
        cands = [(qid + 1) & 0xFFFF, (qid - 1) & 0xFFFF, qid ^ 0x8000, qid ^ 0x0001, qid ^ 0x0100,
                 ((qid & 0xFF) << 8) | (qid >> 8)]
        cands = [c for c in cands if c != qid]
        return reply(mid=draw(st.sampled_from(cands)))
    if kind == "qr_clear":
        return reply(qr=False, answers=draw(st.sampled_from([[], None])))
    if kind == "other_opcode":
        return reply(opcode=draw(st.sampled_from([o for o in (0, 1, 2, 3, 4, 6, 8, 15) if o != op])))
    if kind == "other_name":
        mode = draw(st.integers(0, 3))
        labs = list(qlabels)
        if len(labs) == 1:
            labs = [draw(st.sampled_from([b"other", b"a", b"com"])), b""]
        elif mode == 0:
            labs = [b"other"] + labs[1:]
        elif mode == 1:
            labs = [b"www"] + labs if W.wire_len(labs) < 240 else labs[1:]
        elif mode == 2:
            l0 = bytearray(labs[0])
            i = draw(st.integers(0, len(l0) - 1))
            l0[i] = (l0[i] + 1) & 0xFF
            labs = [bytes(l0)] + labs[1:]
        else:
            labs = labs[:-1] + [b"com", b""]
        if W.name_key(labs) == W.name_key(qlabels):
            labs = [b"zz"] + list(qlabels)
            if W.wire_len(labs) > 255:
                labs = [b"zz", b""]
        return reply(questions=[(labs, qt, qc)])
    if kind == "nonalpha_case":
        # differs from the query name only by 0x20 in an octet that is NOT a letter
        spots = [
            (i, j)
            for i, l in enumerate(qlabels)
            for j, c in enumerate(l)
            if not (65 <= c <= 90 or 97 <= c <= 122)
        ]
        if not spots:
            labs = [b"@"] + list(qlabels) if W.wire_len(qlabels) < 250 else [b"@", b""]
        else:
            i, j = draw(st.sampled_from(spots))
            l = bytearray(qlabels[i])
            l[j] ^= 0x20
            labs = list(qlabels)
            labs[i] = bytes(l)
        return reply(questions=[(labs, qt, qc)])
    if kind == "other_type":
        return reply(questions=[(qlabels, draw(st.sampled_from([t for t in (1, 28, 5, 255, qt ^ 1, (qt + 256) & 0xFFFF) if t != qt and t not in (41, 250)])), qc)])
    if kind == "other_class":
        return reply(questions=[(qlabels, qt, draw(st.sampled_from([c for c in (1, 3, 4, 255, 254) if c != qc])))])
    if kind == "extra_question":
        extra = ([b"extra", b""], qt, qc)
        if W.name_key(extra[0]) == W.name_key(qlabels):
            extra = ([b"extra2", b""], qt, qc)
        qs = [(qlabels, qt, qc), extra]
        if draw(st.booleans()):
            qs.reverse()
        return reply(questions=qs)
    if kind == "parent_name":
        if len(qlabels) <= 1:
            return reply(questions=[([b"sub", b""], qt, qc)])
        return reply(questions=[(qlabels[1:], qt, qc)])
    if kind == "nonspecial_empty_q":
        return reply(questions=[], rc=draw(st.sampled_from([0, 3, 6, 9])), answers=draw(st.sampled_from([[], None])))
    if kind == "special_rcode_other_q":
        return reply(questions=[([b"not-asked", b""], qt, qc)], rc=draw(st.sampled_from([1, 2, 4, 5])), answers=[])
    if kind == "ext_rcode_empty_q":
        return reply(questions=[], rc=draw(st.sampled_from([1, 2, 4, 5])), answers=[], additional=[NM.opt_rr(ext_rcode=draw(st.sampled_from([1, 2, 0x80])))])
    if kind == "empty_datagram":
        return b""
    if kind == "garbage_short":
        full = reply()
        return draw(st.one_of(st.binary(min_size=0, max_size=11), st.integers(1, 11).map(lambda n: full[:n])))
    if kind == "garbage_hdr":
        hdr = struct.pack("!HHHHHH", qid, NM.flags_for(op, 0, rd=q["rd"]), 1, 0, 0, 0)
        tailb = draw(st.sampled_from([
            b"\x40abc\x00\x00\x01\x00\x01", b"\x80", b"\xbf\x00\x00\x01\x00\x01", b"\x3fshort", b"\x05ab",
            b"\x03abc", b"\x03abc\x00\x00\x01", b"\xc0", b"\x07example\xc0",
        ]))
        return hdr + tailb
    if kind in ("trunc_mid_q", "tc_trunc_mid_q"):
        full = reply(tc=kind.startswith("tc_"), need=0)
        qend = 12 + len(NM.enc_name(qlabels)) + 4
        return full[: draw(st.integers(12, qend - 1))]
    if kind in ("trunc_mid_an", "tc_trunc_mid_an"):
        full = reply(tc=kind.startswith("tc_"), need=1, additional=[])
        qend = 12 + len(NM.enc_name(qlabels)) + 4
        return full[: draw(st.integers(qend, len(full) - 1))]
    if kind == "tc_forged":
        mode = draw(st.integers(0, 2))
        if mode == 0:
            return reply(mid=qid ^ draw(st.sampled_from([1, 0x8000, 0x0100])), tc=True)
        if mode == 1:
            return reply(tc=True, questions=[([b"forged", b""], qt, qc)])
        return reply(tc=True, qr=False)
    if kind == "tsig_signed":
        return reply(additional=add + [NM.tsig_rr(mid=qid)])
    raise AssertionError(kind)


@st.composite
def udp_cases(draw):
    q = draw(_query())
    fam, where, port, tag = draw(st.sampled_from(_DESTS))
    dest = {"fam": fam, "where": where, "port": port, "tag": tag}
    mcast = tag == "mcast"
    opts = {k: draw(st.booleans()) for k in ("iu", "ie", "rot", "it", "orr")}
    api = draw(st.sampled_from(["udp", "udp", "udp", "receive_udp"]))
    timeout = draw(st.sampled_from([None, 8.0, 8.0, 64.0]))
    case = {
        "api": api, "q": q, "dest": dest, "opts": opts, "timeout": timeout,
        "send_wb": draw(st.sampled_from([0, 0, 0, 1, 2])),
        "send_expire": False,
        "send_what": draw(st.sampled_from(["msg", "bytes"])),
        "via": draw(st.sampled_from(["sock", "sock", "backend"])),
    }
    if api == "receive_udp":
        case["dest_given"] = draw(st.integers(0, 4)) != 0
        case["query_given"] = draw(st.integers(0, 3)) != 0
    if timeout is not None and draw(st.integers(0, 29)) == 0:
        case["send_expire"] = True
    # source kinds that count as decoys for this destination
    src_decoys = ["mcast_wrong_port"] if mcast else ["wrong_addr", "wrong_port", "wrong_both"]
    script = []
    marker = 0

    def wbs():
        for _ in range(draw(st.sampled_from([0, 0, 0, 1, 1, 2]))):
            script.append(["wb"])

    def datagram(kind):
        nonlocal marker
        marker += 1
        if kind in src_decoys:
            content = draw(st.sampled_from(["genuine", "genuine", "genuine", "wrong_id", "garbage_short", "tc_genuine"]))
            src = draw(_source(dest, kind))
            wire = draw(_wire(q, content, marker))
            label = kind
        else:
            if kind == "alt_text_src":
                src = draw(_source(dest, "alt"))
            elif kind == "mcast_any_src":
                src = draw(_source(dest, "mcast_any"))
            elif mcast:
                src = draw(_source(dest, draw(st.sampled_from(["same", "mcast_any"]))))
            else:
                src = draw(_source(dest, draw(st.sampled_from(["same", "same", "alt"])) if fam == 6 else "same"))
            wire = draw(_wire(q, kind, marker))
            label = kind
        script.append(["dg", label, src, wire.hex()])

    ndecoys = draw(st.sampled_from([0, 1, 2, 2, 3, 3, 4, 5, 6]))
    for _ in range(ndecoys):
        wbs()
        # prefer decoys that the chosen options pass over, so that scripts get deep
        skippable = []
        if opts["iu"] and case.get("dest_given", True):
            skippable += src_decoys * 3
        if opts["ie"] and case.get("query_given", True):
            skippable += _CONTENT_DECOYS
        if skippable and draw(st.integers(0, 9)) < 8:
            kind = draw(st.sampled_from(skippable))
        else:
            kind = draw(st.sampled_from(_CONTENT_DECOYS + src_decoys * 4))
        datagram(kind)
    wbs()
    if draw(st.integers(0, 9)) < 8:
        kinds = list(_GENUINE_CONTENT)
        if fam == 6 and not mcast and len(_spellings(where)) > 1:
            kinds += ["alt_text_src", "alt_text_src"]
        if mcast:
            kinds += ["mcast_any_src", "mcast_any_src"]
        kinds += ["trailing"]
        datagram(draw(st.sampled_from(kinds)))
        wbs()
    if timeout is not None and draw(st.integers(0, 5)) == 0:
        script.insert(draw(st.integers(0, len(script))), ["expire"])
    case["script"] = script
    # D19: exclude by construction (switch the async twin off for exactly that class)
    mq = _model_query(q)
    model = NM.interpret_udp(
        script,
        _ll(dest) if case.get("dest_given", True) else None,
        opts,
        mq if case.get("query_given", True) else None,
        api,
        timeout is not None,
        case["send_expire"],
    )
    if model["d19"] and EXCLUDE_D19:
        case["run_async"] = False
        case["excluded"] = "D19"
    return case


# ---------------------------------------------------------------------------
# generators: streams

_FRAME_KINDS_OK = ["genuine", "genuine", "genuine", "big", "big", "case_variant", "tc_genuine", "special_empty_q", "huge"]
_FRAME_KINDS_BAD = [
    "wrong_id", "qr_clear", "other_name", "other_type", "other_opcode", "garbage_short",
    "garbage_hdr", "trunc_mid_q", "trunc_mid_an", "trailing", "tsig_signed", "empty_datagram",
    "extra_question", "empty_datagram", "garbage_short", "trailing",
]


@st.composite
def _recv_events(draw, slen, timeout):
    mode = draw(st.sampled_from(["whole", "ones", "random", "random", "random", "prefix", "prefix"]))
    if slen > 5000 and mode == "ones":
        mode = "random"
    ev = []
    if mode == "ones":
        ev = [["data", 1] for _ in range(slen)]
    elif mode == "random":
        total = 0
        while total < slen and len(ev) < 400:
            n = draw(st.sampled_from([1, 1, 2, 3, 5, 8, 13, 40, 300] + ([4000, 20000, 32767] if slen > 5000 else [])))
            ev.append(["data", n])
            total += n
    elif mode == "prefix":
        first = draw(st.sampled_from([1, 1, 2, 3, 3, 4]))
        ev = [["data", first]]
        total = first
        while total < slen and len(ev) < 100:
            n = draw(st.sampled_from([1, 2, 3, 7, 50]))
            ev.append(["data", n])
            total += n
    # would-block events anywhere
    nwb = draw(st.sampled_from([0, 1, 2, 3, 6]))
    for _ in range(nwb):
        ev.insert(draw(st.integers(0, len(ev))), ["wb"])
    if mode == "ones" and draw(st.booleans()):
        # a would-block between every pair of octets
        ev = [x for e in ev for x in (e, ["wb"])]
    # a fault anywhere
    f = draw(st.integers(0, 11))
    if f < 2:
        ev.insert(draw(st.integers(0, len(ev))), ["eof"])
    elif f < 4 and timeout is not None:
        ev.insert(draw(st.integers(0, len(ev))), ["expire"])
    return ev


@st.composite
def _send_events(draw, timeout):
    mode = draw(st.integers(0, 5))
    ev = []
    if mode == 0:
        return ev
    if mode == 1:
        ev = [["acc", 1] for _ in range(draw(st.integers(1, 40)))]
    else:
        for _ in range(draw(st.integers(1, 12))):
            k = draw(st.integers(0, 9))
            if k < 6:
                ev.append(["acc", draw(st.sampled_from([0, 1, 1, 2, 3, 5, 17, 100]))])
            else:
                ev.append(["wb"])
    if timeout is not None and draw(st.integers(0, 5)) == 0:
        ev.insert(draw(st.integers(0, len(ev))), ["expire"])
    return ev


@st.composite
def stream_cases(draw):
    q = draw(_query())
    api = draw(st.sampled_from(["receive_tcp", "receive_tcp", "tcp", "tcp", "send_tcp"]))
    timeout = draw(st.sampled_from([None, 64.0, 64.0, 8.0]))
    opts = {"it": draw(st.booleans()), "orr": draw(st.booleans())}
    case = {
        "api": api, "q": q, "opts": opts, "timeout": timeout, "frames": [], "cut": None,
        "recv": [], "send": [], "tail": draw(st.sampled_from(["eof", "block"])),
    }
    if api == "send_tcp":
        case["what"] = draw(st.sampled_from(["msg", "bytes", "bytes"]))
        if case["what"] == "bytes":
            n = draw(st.sampled_from([0, 1, 2, 17, 255, 256, 257, 300, 513, 1000]))
            case["payload"] = draw(st.binary(min_size=n, max_size=n)).hex()
        case["send"] = draw(_send_events(timeout))
        return case
    if api == "tcp":
        case["send"] = draw(_send_events(timeout))
    nframes = draw(st.sampled_from([0, 1, 1, 1, 2, 2, 3]))
    for k in range(nframes):
        if draw(st.integers(0, 9)) < (6 if api == "tcp" else 7):
            kind = draw(st.sampled_from(_FRAME_KINDS_OK))
        else:
            kind = draw(st.sampled_from(_FRAME_KINDS_BAD))
        wire = draw(_wire(q, kind, k + 1))
        case["frames"].append([kind, wire.hex()])
    slen = len(_stream_of(case))
    if slen and draw(st.integers(0, 7)) == 0:
        case["cut"] = draw(st.integers(0, slen - 1))
        slen = case["cut"]
    case["recv"] = draw(_recv_events(slen, timeout))
    if api == "receive_tcp":
        case["ie_async"] = draw(st.integers(0, 3)) == 0
        if case["ie_async"]:
            # D19 twin on streams: async receive_tcp(ignore_errors=True) returns a frame
            # that does not parse (continue_on_error); excluded by construction
            sm = NM.StreamModel(slen, case["recv"], case["tail"], timeout is not None)
            hit = False
            for kind, _start, wire in sm.read_frames(_stream_of(case), nframes + 1):
                if kind != "frame":
                    break
                status = NM.parse_status(NM.decode(wire), opts["it"])
                if status is not None:
                    hit = status in ("form", "tsig")
                    break
            if hit and EXCLUDE_D19:
                case["ie_async"] = False
                case["excluded"] = "D19"
    return case


# ---------------------------------------------------------------------------
# enumerated split-point sets / fault positions for fixed small frames

_ENUM_Q = {"name": [b"".hex()], "rdtype": 1, "rdclass": 1, "id": 0x1234, "opcode": 0, "rd": True, "edns": False}
_ENUM_Q2 = {"name": [b"a".hex(), b"ex".hex(), b"".hex()], "rdtype": 1, "rdclass": 1, "id": 0x0102, "opcode": 0, "rd": True, "edns": False}


def _enum_frames():
    # A: reply to "." A, no answers: 17 octets (19 with the length prefix)
    a = NM.build_message(0x1234, NM.flags_for(0, 0), [([b""], 1, 1)])
    # B: reply to "a.ex." A with one compressed-owner A record: 38 octets (40 framed)
    b = NM.build_message(
        0x0102, NM.flags_for(0, 0), [([b"a", b"ex", b""], 1, 1)],
        [([("ptr", 12)], NM.T_A, NM.C_IN, 7, bytes([10, 9, 8, 7]))],
    )
    assert len(a) == 17 and len(b) == 38
    return a, b


def _events_from_cuts(n, cuts, fault=None):
    """chunks of a stream of n octets cut at the given offsets; fault = (kind, pos) inserts
    a wb/eof/expire event after pos delivered octets (splitting a chunk there)"""
    bounds = sorted(set(cuts) | ({fault[1]} if fault and 0 < fault[1] < n else set()))
    ev = []
    prev = 0
    if fault and fault[1] == 0:
        ev.append([fault[0]])
    for b in bounds + [n]:
        if b > prev:
            ev.append(["data", b - prev])
        prev = b
        if fault and fault[1] == b and 0 < b < n:
            ev.append([fault[0]])
    return ev


def _expand_enum(case):
    which, mask, fault = case["enum"]
    a, b = _enum_frames()
    if which == "A":
        q, frames = _ENUM_Q, [a]
    elif which == "B":
        q, frames = _ENUM_Q2, [b]
    else:  # "AA": two frames back to back
        q, frames = _ENUM_Q, [a, a]
    n = sum(len(f) + 2 for f in frames)
    cuts = [i + 1 for i in range(n - 1) if mask >> i & 1]
    return {
        "api": case.get("api", "receive_tcp"), "q": q, "opts": {"it": False, "orr": False},
        "timeout": 64.0, "frames": [["genuine", f.hex()] for f in frames], "cut": None,
        "recv": _events_from_cuts(n, cuts, tuple(fault) if fault else None),
        "send": [], "tail": "block", "ie_async": False,
    }


def _masks_upto(n, k):
    out = []
    for r in range(k + 1):
        for comb in itertools.combinations(range(n - 1), r):
            m = 0
            for i in comb:
                m |= 1 << i
            out.append(m)
    return out


def split_cases_for(tier):
    a, b = _enum_frames()
    na, nb = len(a) + 2, len(b) + 2

    def fn():
        out = []
        if tier == "thorough":
            out += [{"enum": ["A", m, None]} for m in range(1 << (na - 1))]
            out += [{"enum": ["B", m, None]} for m in _masks_upto(nb, 3)]
        else:
            out += [{"enum": ["A", m, None]} for m in _masks_upto(na, 3)]
            out += [{"enum": ["B", m, None]} for m in _masks_upto(nb, 2)]
        # every fault kind at every position, under a few chunkings
        for which, n in (("A", na), ("B", nb), ("AA", 2 * na)):
            chunkings = [0, (1 << (n - 1)) - 1, 1, 2, 4, 1 | 2 | 4]
            for pos in range(n):
                for kind in ("eof", "expire", "wb"):
                    for m in chunkings:
                        out.append({"enum": [which, m, [kind, pos]]})
        # tcp() reads its reply under every single and double split as well
        out += [{"enum": ["A", m, None], "api": "tcp"} for m in _masks_upto(na, 2)]
        return out

    return fn


# ---------------------------------------------------------------------------


def _udp_require():
    req = {"__nontrivial__": 1000, "async-twin": 7000, "nontrivial-then-returned": 500,
           "would-block": 3000, "send-would-block": 1500, "send-expire": 100, "no-deadline": 2000,
           "api:udp": 6000, "api:receive_udp": 1500, "via-backend": 1000,
           "dest_given=0": 150, "query_given=0": 200, "query-opcode-nonzero": 1500,
           "fallback-not-needed": 2500, "fallback-to-tcp:tc_genuine": 100, "fallback-to-tcp:tc_trunc_mid_an": 80,
           "fallback-to-tcp:tc_trunc_mid_q": 30}
    for o in ("iu", "ie", "rot", "it", "orr"):
        req[f"{o}=0"] = 3000
        req[f"{o}=1"] = 3000
    for k in _CONTENT_DECOYS + ["wrong_addr", "wrong_port", "wrong_both", "mcast_wrong_port"]:
        req["skipped:" + k] = 60
        req["dg:" + k] = 100
    for k in ("genuine", "alt_text_src", "case_variant", "special_empty_q", "tc_genuine",
              "mcast_any_src", "trailing"):
        req["decided-by:" + k] = 80
    for k in ("wrong_id", "qr_clear", "other_opcode", "other_name", "other_type", "other_class",
              "garbage_short", "trunc_mid_an", "tc_forged", "tsig_signed", "wrong_addr", "wrong_port"):
        req["decided-by:" + k] = 25
    for k, v in (("return", 3000), ("UnexpectedSource", 300), ("ParseError", 300), ("Truncated", 300),
                 ("BadResponse", 500), ("Timeout", 1000), ("hang", 150)):
        req["outcome:" + k] = v
    for k, v in (("v4", 2000), ("v6", 1000), ("v6-alt-spelling", 800), ("v6-mapped", 200), ("mcast", 1500)):
        req["dest:" + k] = v
    if EXCLUDE_D19:
        req["excluded:D19"] = 300
    return req


def _stream_require():
    req = {"__nontrivial__": 400, "async-twin": 6500, "api:receive_tcp": 2000, "api:tcp": 1800,
           "api:send_tcp": 800, "would-block": 2000, "partial-send": 1000, "send-would-block": 1200,
           "send-timeout": 150, "send-timeout-mid-frame": 60, "send-what:msg": 250,
           "send-what:bytes": 400, "payload>255": 150, "payload-empty": 30,
           "eof-mid-frame": 200, "eof-in-length-prefix": 30, "eof-at-boundary": 1000,
           "timeout-mid-frame": 100, "timeout-at-boundary": 300, "hang-mid-frame": 10,
           "split-in-length-prefix": 300, "event-spans-prefix": 500, "one-octet-chunks": 100,
           "zero-length-frame": 50, "frame>255": 200, "pipelined>=2": 200,
           "final:done": 1000, "final:EOFError": 1500, "final:Timeout": 800, "final:ParseError": 200,
           "final:BadResponse": 60, "it=0": 2000, "it=1": 2000, "orr=0": 2000, "orr=1": 2000}
    for k in ("genuine", "big", "case_variant", "tc_genuine", "special_empty_q", "huge"):
        req["frame-read:" + k] = 80
    for k in ("garbage_short", "garbage_hdr", "trunc_mid_q", "trunc_mid_an", "trailing", "tsig_signed",
              "empty_datagram"):
        req["frame-bad:" + k] = 10
    for k in ("wrong_id", "qr_clear", "other_name", "other_opcode"):
        req["frame-bad:" + k] = 8
    if EXCLUDE_D19:
        req["excluded:D19"] = 10
    return req


_SPLITS_REQUIRE = {
    "__nontrivial__": 300, "async-twin": 3600, "eof-mid-frame": 400, "eof-in-length-prefix": 20,
    "eof-at-boundary": 20, "timeout-mid-frame": 400, "timeout-in-length-prefix": 20,
    "split-in-length-prefix": 500, "one-octet-chunks": 100, "pipelined>=2": 200,
    "would-block": 500, "api:tcp": 150, "frame-read:genuine": 2500,
}



# ---------------------------------------------------------------------------
# the real asyncio backend sockets under an expired deadline ("an expired deadline is an error, never
# a short message"): the other parts replace the backend by scripted sockets, this one keeps the
# library's own socket wrappers and replaces only the transport beneath them


def backend_deadline_cases():
    out = []
    for api in ("dgram.recvfrom", "stream.recv", "receive_udp", "receive_tcp"):
        for deadline in ("timeout0", "expired", "none", "far"):
            for data in ("never", "late", "late-fragmented", "buffered"):
                if api in ("dgram.recvfrom", "stream.recv") and deadline == "expired":
                    continue  # these take a timeout, not an expiration
                if deadline in ("none", "far") and data == "never":
                    continue  # would (rightly) wait
                out.append({"api": api, "deadline": deadline, "data": data})
    return out


def run_backend_deadline(case):
    import socket
    import time

    import dns._asyncio_backend as B
    import dns.asyncquery
    import dns.exception
    import dns.message

    q = dns.message.make_query("www.example.", "A", id=4660)
    r = dns.message.make_response(q)
    wire = r.to_wire()
    frame = len(wire).to_bytes(2, "big") + wire
    peer = ("192.0.2.1", 53)
    api, deadline, data = case["api"], case["deadline"], case["data"]
    expired = deadline in ("timeout0", "expired")

    class Transport:
        def get_extra_info(self, what):
            return peer if what == "peername" else ("192.0.2.9", 5353)

        def close(self):
            pass

    class Writer(Transport):
        def write(self, b):
            pass

        async def drain(self):
            pass

    async def main():
        loop = asyncio.get_running_loop()
        if api in ("dgram.recvfrom", "receive_udp"):
            proto = B._DatagramProtocol()
            sock = B._DatagramSocket(socket.AF_INET, Transport(), proto)

            def deliver(piece=None):
                proto.datagram_received(wire, peer)
        else:
            reader = asyncio.StreamReader()
            sock = B._StreamSocket(socket.AF_INET, reader, Writer())

            def deliver(piece=None):
                reader.feed_data(frame if piece is None else piece)
        if data == "buffered":
            deliver()
        elif data == "late":
            loop.call_later(0.05, deliver)
        elif data == "late-fragmented":
            if api in ("dgram.recvfrom", "receive_udp"):
                loop.call_later(0.05, deliver)
            else:
                loop.call_later(0.03, deliver, frame[:1])
                loop.call_later(0.06, deliver, frame[1:7])
                loop.call_later(0.09, deliver, frame[7:])
        timeout = {"timeout0": 0, "none": None, "far": 30.0}.get(deadline)
        expiration = {"timeout0": time.time() - 0.001, "expired": time.time() - 10.0, "none": None, "far": time.time() + 30.0}[deadline]
        if api == "dgram.recvfrom":
            return await sock.recvfrom(65535, timeout)
        if api == "stream.recv":
            return await sock.recv(2, timeout)
        if api == "receive_udp":
            return await dns.asyncquery.receive_udp(sock, peer, expiration, query=q)
        return await dns.asyncquery.receive_tcp(sock, expiration)

    async def guarded():
        # the watchdog only ends a wait the library should never have started
        return await asyncio.wait_for(main(), 10.0)

    loop = asyncio.new_event_loop()
    try:
        try:
            res = loop.run_until_complete(guarded())
            outcome = "returned"
        except dns.exception.Timeout:
            outcome = "Timeout"
        except asyncio.TimeoutError:
            outcome = "waits-forever"
    finally:
        loop.close()
    classes = ["bd:" + api, "bd:" + deadline, "bd:" + outcome]
    if expired and outcome != "Timeout":
        raise Violation("deadline", f"asyncio backend, {api}, deadline {deadline}, data {data}: the deadline has expired but the call {'returned ' + repr(res)[:80] if outcome == 'returned' else 'kept waiting'}", f"backend-deadline:{api}:{outcome}")
    if not expired and outcome != "returned":
        raise Violation("deadline", f"asyncio backend, {api}, deadline {deadline}, data {data}: data arrives within the deadline but the call ended as {outcome}", f"backend-live:{api}:{outcome}")
    return {"nontrivial": True, "classes": classes}


def parts(tier):
    return [
        Part(
            "udp", run_udp, strategy=udp_cases(),
            n={"quick": 12000, "thorough": 16 * 40000},
            case_timeout_s=10.0,
            require=_udp_require(),
        ),
        Part(
            "stream", run_stream, strategy=stream_cases(),
            n={"quick": 9000, "thorough": 16 * 30000},
            case_timeout_s=10.0,
            require=_stream_require(),
        ),
        Part(
            "splits", run_stream, cases=split_cases_for(tier),
            shards={"quick": 4, "thorough": 16},
            case_timeout_s=10.0,
            require=_SPLITS_REQUIRE,
        ),
        Part(
            "backend_deadline", run_backend_deadline, cases=backend_deadline_cases,
            shards={"quick": 8, "thorough": 8}, case_timeout_s=40.0,
            require={"bd:Timeout": 10, "bd:returned": 10},
        ),
    ]
