"""C11  Versioned-zone readers see one immutable snapshot; version retention is sound.

A case is an operation list interpreted single-threaded against a dns.versioned.Zone or a
dns.btreezone.Zone (relativize on/off): open/close readers (latest, by id, by serial, incl.
ids/serials that never existed or were pruned), committing / rolling back / empty write
transactions, set_max_versions, set_pruning_policy with pure logged policies, probes and
attacks on the snapshots.  Content is modelled by vlib/ref/zone_model.py.  See DESIGN.md C11.

SCOPING (decisions that keep the oracle sound on the unchanged tree)

* "every mutating call raises" = every call that changes a mutable twin (DESIGN 4.3): a call that
  is a no-op on the twin may return normally; in all cases the snapshot must be unchanged.
* the mutator surface of an object = the public callables (dir(), no leading underscore) of its
  MUTABLE base class plus the in-place protocol methods __setitem__/__delitem__/__ior__/
  __iand__/__iadd__/__isub__/__ixor__, plus setattr/delattr on every slot / instance attribute.
  Private attributes are not followed (dns.immutable.Dict._odict, BTree nodes below ``root``).
* the Transaction object itself is a handle, not snapshot data: its write API must raise
  (ReadOnly), but rebinding its attributes (txn.version = ...) is not attacked; version.zone is
  the live zone and is not part of the snapshot.
* a commit of a transaction whose changed() is False creates no version (DESIGN C11: "an empty
  commit must not create a version"); changed() itself is held to the C10 bounds.
* retention is checked as invariants at every rule against the policy in force, which the
  harness knows as a pure function f(id, number_of_versions): dropped versions form a prefix of
  the retained run, each dropped id is below the pin floor and had f true at its turn; if the
  oldest retained id is below the floor, f is false for it; additionally the calls a logged
  policy actually received are exactly those (documented: "checking proceeds from the least
  version and stops the first time the function returns False").
* reader(serial=s) is modelled as "the newest retained version whose SOA serial is s".

KNOWN DEFECT CLASS, excluded by construction behind a flag (counted as excluded:*):

* EXCLUDE_BTREE_SETATTR: the maps of a committed B-tree version (version.nodes: BTreeDict,
  version.delegations: Delegations) accept attribute rebinding -- e.g.
  ``reader.version.nodes.size = 0``, ``.root = other``, ``._immutable = False`` -- which changes
  what the snapshot shows / re-opens it for writes.  Excluded = setattr/delattr is not attacked
  on these two objects.
"""

import io

from hypothesis import strategies as st

from vlib import zoneutil as ZU
from vlib.ref import wire as W
from vlib.ref import zone_model as ZM
from vlib.runner import Part, Violation

ID = "C11"
LEVEL = "exploration"
TECHNIQUE = (
    "property-based testing: Hypothesis-generated operation lists (rule-based machine as data) over "
    "dns.versioned.Zone / dns.btreezone.Zone against a content model per version, retention "
    "invariants against pure logged pruning policies, and a mechanically enumerated mutator "
    "surface applied to snapshot objects and to mutable twins"
)
LEVEL_TEXT = (
    "In every explored history each open reader returned exactly the model content of its version "
    "after every rule, version ids strictly increased, the retained versions were a contiguous run "
    "containing the newest and every pinned version and otherwise exactly what the policy allowed, "
    "ids/serials that were pruned or never existed raised KeyError, and every call of the "
    "enumerated mutator surface that changed a mutable twin raised on the snapshot and changed "
    "nothing.  Search over histories <= 40 rules; not a proof."
)
RULE = (
    "case = zone kind (versioned | btree) x relativize + 6-40 (thorough: 60) rules out of open_reader(latest | "
    "id=k | serial=s), close_reader, write_commit(ops), write_rollback(ops), set_max_versions, "
    "set_pruning_policy(default | keep-all | drop-all | keep-if-id-multiple-of-k | len>n | "
    "returns-None), probe_id(k), probe_snapshot, attack_snapshot(object class, index, selector); "
    "non-trivial = >= 2 effective commits while >= 1 reader stayed open and a non-default policy "
    "was in force at a prune point, or an attack that exercised >= 20 distinct (class, method) "
    "pairs; distinct by SHA-1 of the case"
    ' Rdataset objects handed to replace() are mutated by their owner after the transaction ends.'
)
RULE += (
    " Rounds 8-10 added: replacement writers (commit_repl); max_versions / policy changes while a writer is open."
)
ASSUMPTIONS = [
    "content model vlib/ref/zone_model.py and the canonical RDATA form (vlib/zoneutil.py) are the "
    "trusted base; zone._versions is read white-box and cross-checked through reader(id=k)",
    "'mutating call' = a call that changes a mutable twin built from the snapshot's content",
    "the mutator surface is enumerated from dir() of dict, dns.node.Node/dns.btreezone.Node, "
    "dns.rdataset.Rdataset, dns.btree.BTreeDict and dns.btreezone.Delegations; private attributes "
    "are not followed",
    "attribute rebinding on a committed B-tree map is a known defect class, excluded behind "
    "EXCLUDE_BTREE_SETATTR and counted",
]

EXCLUDE_BTREE_SETATTR = True

ORIGIN_LABELS = (b"example", b"")
ORIGIN_KEY = W.name_key(ORIGIN_LABELS)
NAMES = [(), (b"www",), (b"sub",), (b"ns", b"sub"), (b"cn",), (b"a", b"ent"),
         # enough further names for a B-tree with branching factor 3 to have internal nodes, so that
         # node splits, merges and steals happen between versions that share structure
         (b"b1",), (b"b2",), (b"m",), (b"zz",), (b"b", b"ent")]
ABSENT_NAME = (b"nothere",)

# record pool: (type text, rdata text)
POOL = [
    ("A", "192.0.2.1"), ("A", "192.0.2.2"), ("A", "192.0.2.3"),
    ("TXT", '"one"'), ("TXT", '"two" "parts"'),
    ("MX", "10 mail"), ("MX", "20 mail2.example."),
    ("NS", "ns.sub"), ("NS", "ns2.elsewhere."),
    ("CNAME", "www"), ("CNAME", "target.example.net."),
    ("NSEC", "www A TXT NSEC"),
    ("RRSIG", "A 8 2 300 20300101000000 20200101000000 12345 example. AAAA"),
    ("AAAA", "2001:db8::1"),
]
TYPECODE = {"A": 1, "TXT": 16, "MX": 15, "NS": 2, "CNAME": 5, "NSEC": 47, "RRSIG": 46, "AAAA": 28, "SOA": 6}

INIT = """$ORIGIN example.
$TTL 3600
@ SOA ns1 hostmaster 1 7200 3600 1209600 300
@ NS ns1
www 300 A 192.0.2.1
www 300 TXT "one"
sub 300 NS ns.sub
ns.sub 300 A 192.0.2.2
cn 120 CNAME www
"""

MUT_DUNDER = ("__setitem__", "__delitem__", "__ior__", "__iand__", "__iadd__", "__isub__", "__ixor__")
DICT_PARAMS = {"clear": [], "copy": [], "items": [], "keys": [], "values": [], "pop": ["key"], "update": ["other"]}
VARIANTS = 3


def surface(cls):
    """public callables of cls plus the in-place protocol methods -> [(name, [params])]"""
    import inspect

    out = []
    for m in dir(cls):
        if m.startswith("_") and m not in MUT_DUNDER:
            continue
        f = getattr(cls, m)
        if not callable(f):
            continue
        try:
            sig = inspect.signature(f)
            params = []
            for i, (pn, p) in enumerate(sig.parameters.items()):
                if i == 0 and pn == "self":
                    continue
                if p.kind in (p.VAR_POSITIONAL, p.VAR_KEYWORD):
                    continue
                params.append((pn, p.default is p.empty))
        except (ValueError, TypeError):
            if cls is dict and m in DICT_PARAMS:
                params = [(pn, True) for pn in DICT_PARAMS[m]]
            else:
                raise AssertionError(f"no signature for {cls.__name__}.{m}")
        out.append((m, params))
    return out


def surfaces(kind):
    """the attacked surfaces of one zone kind: {class label: (mutable base, [(method, params)])}"""
    import dns.btree
    import dns.btreezone
    import dns.node
    import dns.rdataset
    import dns.zone

    s = {
        "rdataset": (dns.rdataset.Rdataset, surface(dns.rdataset.Rdataset)),
        "items": (dict, surface(dict)),
    }
    if kind == "btree":
        s["node"] = (dns.btreezone.Node, surface(dns.btreezone.Node))
        s["nodes"] = (dns.btree.BTreeDict, surface(dns.btree.BTreeDict))
        s["delegations"] = (dns.btreezone.Delegations, surface(dns.btreezone.Delegations))
        s["version"] = (dns.btreezone.ImmutableVersion, surface(dns.btreezone.ImmutableVersion))
    else:
        s["node"] = (dns.zone.VersionedNode, surface(dns.zone.VersionedNode))
        s["nodes"] = (dict, surface(dict))
        s["version"] = (dns.zone.Version, surface(dns.zone.Version))
    return s


# ---------------------------------------------------------------------------
# extraction (vlib.zoneutil per-record functions, memoised per object within a case)

_memo = {}


def _rk(rd, origin):
    e = _memo.get(id(rd))
    if e is None or e[0] is not rd:
        e = (rd, ZU.rdata_key(rd, origin))
        _memo[id(rd)] = e
    return e[1]


def _ok(name, origin):
    e = _memo.get(id(name))
    if e is None or e[0] is not name:
        e = (name, ZU.owner_key(name, origin))
        _memo[id(name)] = e
    return e[1]


def _x_rdataset(rds, origin):
    return (int(rds.ttl), frozenset(_rk(rd, origin) for rd in rds))


def _x_pairs(pairs, origin):
    out = {}
    for name, rds in pairs:
        node = out.setdefault(_ok(name, origin), {})
        tk = (int(rds.rdtype), int(rds.covers))
        if tk in node:
            raise Violation("snapshot", f"two rdatasets of type {tk} at {name}", "duplicate-rdataset")
        node[tk] = _x_rdataset(rds, origin)
    return out


def _x_node(node, origin):
    return {(int(r.rdtype), int(r.covers)): _x_rdataset(r, origin) for r in node.rdatasets}


# ---------------------------------------------------------------------------
# policies: pure functions of (version id, number of retained versions)


def _policy_fn(spec):
    kind = spec[0]
    if kind in ("default", "drop_all"):
        return lambda vid, n: True
    if kind == "keep_all":
        return lambda vid, n: False
    if kind == "none":
        return lambda vid, n: None
    if kind == "mult":
        k = spec[1]
        return lambda vid, n: vid % k != 0
    if kind in ("len", "max"):
        k = spec[1]
        return lambda vid, n: n > k
    raise AssertionError(spec)


class _World:
    """the zone under test, the per-version model and the bookkeeping of one case"""

    def __init__(self, case):
        import dns.btreezone
        import dns.name
        import dns.rdata
        import dns.versioned
        import dns.zone

        self.kind = case["kind"]
        self.rel = case["relativize"]
        factory = dns.btreezone.Zone if self.kind == "btree" else dns.versioned.Zone
        init = INIT
        if self.kind == "btree" and case.get("small_t"):
            import dns.btree

            class SmallTZone(dns.btreezone.Zone):
                map_factory = staticmethod(lambda: dns.btree.BTreeDict(t=3))

            factory = SmallTZone
            # start with several leaves
            init = INIT + "b1 300 A 192.0.2.9\nb2 300 A 192.0.2.9\nm 300 A 192.0.2.9\nzz 300 A 192.0.2.9\nb.ent 300 A 192.0.2.9\na.ent 300 A 192.0.2.9\n"
        self.zone = dns.zone.from_text(init, origin="example.", relativize=self.rel, zone_factory=factory)
        self.origin = dns.name.Name(ORIGIN_LABELS)
        self.rds = []
        for t, text in POOL:
            rd = dns.rdata.from_text("IN", t, text, origin=self.origin, relativize=self.rel)
            self.rds.append((t, rd))
        self.log = []  # calls received by the policy in force: (version id, result, len(_versions))
        self.policy = ("default",)
        self.policy_logged = False

    def name(self, labels):
        import dns.name

        if not self.rel:
            labels = tuple(labels) + ORIGIN_LABELS
        return dns.name.Name(labels)

    def ids(self):
        return [v.id for v in self.zone._versions]

    def wrap_policy(self):
        """harness-side logging wrapper around whatever policy callable is installed"""
        cur = self.zone._pruning_policy
        if getattr(cur, "_c11_logged", False):
            return
        log = self.log

        def logged(zone, version):
            r = cur(zone, version)
            log.append((version.id, bool(r), len(zone._versions)))
            return r

        logged._c11_logged = True
        self.zone._pruning_policy = logged

    def make_policy(self, spec):
        f = _policy_fn(spec)
        log = self.log

        def policy(zone, version):
            r = f(version.id, len(zone._versions))
            log.append((version.id, bool(r), len(zone._versions)))
            return r

        policy._c11_logged = True
        return policy


# ---------------------------------------------------------------------------
# attacks


def _twin_rdataset(rds):
    import dns.rdataset

    t = dns.rdataset.Rdataset(rds.rdclass, rds.rdtype, rds.covers, rds.ttl)
    for rd in rds:
        t.add(rd)
    return t


def _state_rdataset(rds, origin):
    return (int(rds.rdclass), int(rds.rdtype), int(rds.covers), int(rds.ttl), frozenset(_rk(rd, origin) for rd in rds))


def _state_node(node, origin):
    return frozenset(_state_rdataset(r, origin) for r in node.rdatasets)


class _Attack:
    def __init__(self, world, reader, classes, counters):
        self.w = world
        self.r = reader
        self.txn = reader["txn"]
        self.classes = classes
        self.counters = counters
        self.origin = world.origin

    # -- snapshot-wide state

    def snapshot_state(self):
        txn = self.txn
        st_ = [_x_pairs(txn.iterate_rdatasets(), self.origin), frozenset(_ok(n, self.origin) for n in txn.iterate_names())]
        v = txn.version
        st_.append((v.id, len(v.nodes)))
        if self.w.kind == "btree":
            st_.append(tuple(_ok(n, self.origin) for n in v.delegations))
            st_.append((v.nodes.size, v.delegations.size))
        return st_

    def expect_unchanged(self, before, what, key):
        after = self.snapshot_state()
        if after != before or after[0] != self.r["content"]:
            raise Violation("immutable", f"{what} changed the snapshot (reader of version {self.r['id']})", "changed:" + key)

    # -- argument worlds

    def run_surface(self, label, obj, make_twin, state_of, argctx, sel):
        """apply every method of the mutable base class to a twin and to the snapshot object"""
        base, methods = self.w.surfaces[label]
        for m, params in methods:
            for v in range(VARIANTS):
                var = (sel + v) % VARIANTS
                twin = make_twin()
                tb = state_of(twin)
                try:
                    targs = argctx(m, params, var, twin)
                    sargs = argctx(m, params, var, obj)
                except _NoArgs:
                    self.classes.add(f"attack-unsupported:{label}.{m}")
                    break
                key = f"{label}.{m}"
                try:
                    getattr(twin, m)(*targs)
                except Exception:  # noqa: BLE001 - the twin call only decides "is mutating"
                    pass
                mutating = state_of(twin) != tb
                before = self.snapshot_state()
                raised = None
                try:
                    getattr(obj, m)(*sargs)
                except Exception as e:  # noqa: BLE001 - any exception counts as a refusal
                    raised = e
                if mutating and raised is None:
                    raise Violation(
                        "immutable",
                        f"{type(obj).__name__}.{m}{tuple(sargs)!r} on an object of the snapshot did not raise although the same call changes a mutable {base.__name__}",
                        "no-raise:" + key,
                    )
                self.expect_unchanged(before, f"{type(obj).__name__}.{m}", key)
                self.counters[key] = self.counters.get(key, 0) + 1
                if mutating:
                    self.classes.add("mutating-call-refused")
                elif raised is None:
                    self.classes.add("noop-call-returned")

    def setattr_attack(self, label, obj, path):
        """setattr/delattr on every slot / instance attribute, and binding a new attribute"""
        import dns.btree

        if isinstance(obj, dns.btree.BTree):
            if EXCLUDE_BTREE_SETATTR:
                self.classes.add("excluded:btree-setattr")
                return
        slots = []
        for k in type(obj).__mro__:
            sl = getattr(k, "__slots__", ())
            slots.extend([sl] if isinstance(sl, str) else sl)
        if hasattr(obj, "__dict__"):
            slots.extend(obj.__dict__.keys())
        before = self.snapshot_state()
        for s in dict.fromkeys(slots):
            if not hasattr(obj, s):
                continue
            old = getattr(obj, s)
            for what, fn in (("setattr", lambda: setattr(obj, s, None)), ("delattr", lambda: delattr(obj, s))):
                try:
                    fn()
                except (TypeError, AttributeError):
                    pass
                else:
                    raise Violation("immutable", f"{what}({path}.{s}) succeeded on {type(obj).__name__}", f"{what}:{label}.{s}")
                if not hasattr(obj, s) or getattr(obj, s) is not old:
                    raise Violation("immutable", f"{path}.{s} changed after a refused {what}", f"{what}-changed:{label}.{s}")
            if not s.startswith("_") and isinstance(old, (list, dict, set, bytearray)):
                raise Violation("immutable", f"{path}.{s} is a mutable {type(old).__name__}", f"container:{label}.{s}")
            self.counters[f"{label}.setattr"] = self.counters.get(f"{label}.setattr", 0) + 1
        try:
            setattr(obj, "c11_new_attribute", 1)
        except (TypeError, AttributeError):
            pass
        else:
            raise Violation("immutable", f"a new attribute could be bound on {path} ({type(obj).__name__})", f"newattr:{label}")
        self.expect_unchanged(before, f"setattr on {path}", f"{label}.setattr")


class _NoArgs(Exception):
    pass


def _attack(world, reader, target, idx, sel, classes, counters):
    import dns.btree
    import dns.btreezone
    import dns.rdataclass
    import dns.rdataset
    import dns.rdatatype
    import dns.zone

    A = _Attack(world, reader, classes, counters)
    txn = reader["txn"]
    version = txn.version
    origin = world.origin
    IN = dns.rdataclass.IN
    names = sorted(version.nodes.keys())
    if not names:
        return
    oname = names[idx % len(names)]
    node = version.nodes[oname]
    absent = world.name(ABSENT_NAME)
    other_name = names[(idx + 1) % len(names)]
    style = dns.zone.ZoneStyle()

    def pool_rd(tcode, member_of=None, want_member=True, k=0):
        c = [rd for t, rd in world.rds if TYPECODE[t] == tcode]
        if member_of is not None:
            c = [rd for rd in c if (rd in member_of) == want_member]
        return c[k % len(c)] if c else None

    if target == "txn":
        before = A.snapshot_state()
        rd = world.rds[sel % len(world.rds)][1]
        import dns.transaction

        calls = [
            ("add", lambda: txn.add(oname, 300, rd)),
            ("replace", lambda: txn.replace(oname, dns.rdataset.from_rdata(300, rd))),
            ("delete", lambda: txn.delete(oname)),
            ("delete_exact", lambda: txn.delete_exact(oname)),
            ("update_serial", lambda: txn.update_serial(1, True, world.name(()))),
        ]
        for what, fn in calls:
            try:
                fn()
            except dns.transaction.ReadOnly:
                pass
            except KeyError:
                if what != "update_serial" or (6, 0) in reader["content"].get(ORIGIN_KEY, {}):
                    raise Violation("immutable", f"reader.{what}() raised KeyError instead of ReadOnly", "txn." + what)
            else:
                raise Violation("immutable", f"reader.{what}() did not raise", "no-raise:txn." + what)
            counters["txn." + what] = counters.get("txn." + what, 0) + 1
        A.expect_unchanged(before, "a write call on the reader", "txn")
        return

    if target == "version":
        def argctx(m, params, var, o):
            out = []
            for pn, req in params:
                if pn == "name":
                    out.append([oname, absent, other_name][var])
                elif pn == "rdtype":
                    out.append(dns.rdatatype.A)
                elif pn == "covers":
                    out.append(dns.rdatatype.NONE)
                else:
                    raise _NoArgs(pn)
            return out

        # no mutable twin: the read API must leave the snapshot unchanged
        A.run_surface("version", version, lambda: version, lambda t: 0, argctx, sel)
        A.setattr_attack("version", version, "version")
        A.setattr_attack("name", version.origin, "version.origin")
        return

    if target == "nodes":
        nodes = version.nodes
        is_btree = isinstance(nodes, dns.btree.BTree)
        fresh = dns.btreezone.Node() if is_btree else dns.zone.VersionedNode()

        def make_twin():
            if is_btree:
                t = dns.btree.BTreeDict()
                for k, v in nodes.items():
                    t[k] = v
                return t
            return dict(nodes.items())

        def state_of(t):
            return {_ok(k, origin): (id(v), _state_node(v, origin)) for k, v in t.items()}

        def argctx(m, params, var, o):
            out = []
            for pn, req in params:
                if pn == "key":
                    out.append([oname, absent, other_name][var])
                elif pn in ("value", "default"):
                    if m == "__ior__":
                        out.append([{absent: fresh}, {}, {oname: fresh}][var])
                    elif pn == "default" and not req and m != "setdefault":
                        continue
                    else:
                        out.append(fresh)
                elif pn == "other":
                    out.append([{absent: fresh}, {}, {oname: fresh}][var])
                elif pn == "iterable":
                    out.append([oname, absent])
                elif pn == "elt":
                    out.append(dns.btree.KV([absent, oname, other_name][var], fresh))
                elif pn == "element":
                    e = o.get_element([oname, other_name][var % 2])
                    out.append(dns.btree.KV(absent, fresh) if var == 2 else e)
                elif pn == "cursor":
                    out.append(dns.btree.Cursor(o))
                elif pn == "visit":
                    out.append(lambda e: None)
                elif pn == "in_order":
                    out.append(False)
                else:
                    raise _NoArgs(pn)
            return out

        A.run_surface("nodes", nodes, make_twin, state_of, argctx, sel)
        A.setattr_attack("nodes", nodes, "version.nodes")
        A.setattr_attack("name", oname, "owner name")
        return

    if target == "delegations":
        if world.kind != "btree":
            return
        dl = version.delegations
        members = list(dl)
        present = members[idx % len(members)] if members else absent

        def make_twin():
            t = dns.btreezone.Delegations()
            for n in dl:
                t.add(n)
            return t

        def state_of(t):
            return frozenset(_ok(n, origin) for n in t)

        def argctx(m, params, var, o):
            out = []
            for pn, req in params:
                if pn in ("value", "key", "name"):
                    out.append([present, absent, oname][var])
                elif pn in ("it", "other"):
                    out.append([[absent], [present], o][var])
                elif pn == "elt":
                    out.append(dns.btree.Member([absent, present, oname][var]))
                elif pn == "element":
                    e = o.get_element(present)
                    out.append(dns.btree.Member(absent) if (var == 2 or e is None) else e)
                elif pn == "cursor":
                    out.append(dns.btree.Cursor(o))
                elif pn == "visit":
                    out.append(lambda e: None)
                elif pn == "in_order":
                    out.append(False)
                else:
                    raise _NoArgs(pn)
            return out

        A.run_surface("delegations", dl, make_twin, state_of, argctx, sel)
        A.setattr_attack("delegations", dl, "version.delegations")
        return

    if target == "node":
        have = [(r.rdtype, r.covers) for r in node.rdatasets]

        def make_twin():
            t = dns.btreezone.Node(node.flags) if world.kind == "btree" else dns.zone.VersionedNode()
            t.id = node.id
            t.rdatasets = [_twin_rdataset(r) for r in node.rdatasets]
            return t

        def state_of(t):
            return (_state_node(t, origin), getattr(t, "flags", None), t.id)

        def argctx(m, params, var, o):
            present = have[idx % len(have)]
            tk = [present, (dns.rdatatype.AAAA if (dns.rdatatype.AAAA, 0) not in have else dns.rdatatype.HINFO, dns.rdatatype.NONE), present][var]
            out = []
            for pn, req in params:
                if pn == "rdclass":
                    out.append(IN)
                elif pn == "rdtype":
                    out.append(tk[0])
                elif pn == "covers":
                    out.append(tk[1])
                elif pn == "create":
                    out.append(var != 2)
                elif pn == "replacement":
                    if var == 1:
                        rep = dns.rdataset.from_rdata(77, pool_rd(28))
                    else:
                        cur = node.get_rdataset(IN, present[0], present[1])
                        rep = _twin_rdataset(cur)
                        if var == 0:
                            rep.update_ttl(0)
                            extra = pool_rd(int(present[0]), cur, False)
                            if extra is not None and not dns.rdatatype.is_singleton(present[0]) and present[0] != dns.rdatatype.RRSIG:
                                rep.add(extra)
                            elif rep.ttl == cur.ttl:
                                rep.ttl = cur.ttl + 1
                    out.append(rep)
                elif pn == "name":
                    out.append(oname)
                elif pn == "style":
                    if req:
                        out.append(style)
                else:
                    raise _NoArgs(pn)
            return out

        A.run_surface("node", node, make_twin, state_of, argctx, sel)
        A.setattr_attack("node", node, f"node {oname}")
        return

    # rdataset-level targets
    rds = node.rdatasets[sel % len(node.rdatasets)]
    if target == "rdataset":
        def make_twin():
            return _twin_rdataset(rds)

        def state_of(t):
            return _state_rdataset(t, origin)

        tcode = int(rds.rdtype)
        member = rds[0]
        nonmember = pool_rd(tcode, rds, False)
        foreign = pool_rd(28 if tcode != 28 else 1)

        def other_set(var, o):
            if var == 2:
                return o  # aliased
            t = dns.rdataset.Rdataset(rds.rdclass, rds.rdtype, rds.covers, 5)
            if var == 0:
                t.add(member)
            elif nonmember is not None:
                t.add(nonmember)
            return t

        def argctx(m, params, var, o):
            out = []
            for pn, req in params:
                if pn in ("rd", "item"):
                    out.append([member, nonmember if nonmember is not None else member, foreign][var])
                elif pn == "ttl":
                    if req or var != 2:
                        out.append([0, 5, 999999][var])
                elif pn == "other":
                    out.append(other_set(var, o))
                elif pn == "i":
                    out.append([0, slice(0, 1), -1][var])
                elif pn == "rdclass":
                    out.append(IN)
                elif pn == "rdtype":
                    out.append(rds.rdtype)
                elif pn == "covers":
                    out.append(rds.covers)
                elif pn == "name":
                    out.append(oname)
                elif pn == "origin":
                    out.append(origin)
                elif pn == "file":
                    out.append(io.BytesIO())
                elif pn == "style":
                    if req:
                        out.append(style)
                    else:
                        break
                elif pn in ("relativize",):
                    out.append(True)
                elif pn in ("compress", "override_rdclass"):
                    out.append(None)
                elif pn in ("want_comments", "want_shuffle"):
                    out.append(False)
                else:
                    raise _NoArgs(pn)
            return out

        A.run_surface("rdataset", rds, make_twin, state_of, argctx, sel)
        A.setattr_attack("rdataset", rds, f"rdataset {oname}/{int(rds.rdtype)}")
        for rd in list(rds)[:2]:
            A.setattr_attack("rdata", rd, f"rdata of {oname}/{int(rds.rdtype)}")
        return

    if target == "items":
        items = rds.items
        member = rds[0]
        nonmember = pool_rd(int(rds.rdtype), rds, False) or pool_rd(28)

        def make_twin():
            return dict(items.items())

        def state_of(t):
            return frozenset(_rk(rd, origin) for rd in t)

        def argctx(m, params, var, o):
            out = []
            for pn, req in params:
                if pn == "key":
                    out.append([member, nonmember, member][var])
                elif pn in ("value", "default"):
                    if m == "__ior__":
                        out.append([{nonmember: None}, {}, {member: None}][var])
                    elif pn == "default" and not req and m != "setdefault":
                        continue
                    else:
                        out.append(None)
                elif pn == "other":
                    out.append([{nonmember: None}, {}, {member: None}][var])
                elif pn == "iterable":
                    out.append([member])
                else:
                    raise _NoArgs(pn)
            return out

        A.run_surface("items", items, make_twin, state_of, argctx, sel)
        A.setattr_attack("items", items, "rdataset.items")
        return
    raise AssertionError(target)


# ---------------------------------------------------------------------------
# the machine


def run(case):
    import dns.transaction

    _memo.clear()
    w = _World(case)
    w.surfaces = surfaces(w.kind)
    zone = w.zone
    origin = w.origin
    classes = set()
    counters = {}
    keyof = [ZU.rdata_key(rd, origin) for _, rd in w.rds]

    content0 = _x_pairs(zone.iterate_rdatasets(), origin)
    model = ZM.ZoneModel(ORIGIN_KEY, content0)
    history = []  # committed versions: dict(id, content)
    ids = w.ids()
    if len(ids) != 1:
        raise Violation("retention", f"freshly loaded zone retains versions {ids}", "initial")
    history.append({"id": ids[0], "content": model.snapshot()})
    readers = []  # dict(txn, id, content, commits_seen)
    w.wrap_policy()
    stats = {"commits_with_reader": 0, "nondefault_prune": False}

    def serial_of(content):
        soa = content.get(ORIGIN_KEY, {}).get((6, 0))
        if not soa or not soa[1]:
            return None
        return ZM.serial_of(next(iter(soa[1])))

    def hist(vid):
        for h in history:
            if h["id"] == vid:
                return h
        return None

    def check_reader(r, where):
        txn = r["txn"]
        want = r["content"]
        got = _x_pairs(txn.iterate_rdatasets(), origin)
        if got != want:
            raise Violation(
                "snapshot", f"{where}: reader of version {r['id']} iterates content that differs from the model at open time: {ZU.diff(got, want)} (reader vs model)",
                "iterate_rdatasets",
            )
        got_names = set(_ok(n, origin) for n in txn.iterate_names())
        if got_names != set(want):
            raise Violation("snapshot", f"{where}: reader of version {r['id']}: iterate_names {sorted(got_names)} != {sorted(want)}", "iterate_names")
        for labels in NAMES + [ABSENT_NAME]:
            n = w.name(labels)
            k = W.name_key(tuple(labels) + ORIGIN_LABELS)
            wn = want.get(k)
            if txn.name_exists(n) != (wn is not None):
                raise Violation("snapshot", f"{where}: reader of version {r['id']}: name_exists({n}) wrong", "name_exists")
            node = txn.get_node(n)
            if (node is None) != (wn is None) or (node is not None and _x_node(node, origin) != wn):
                raise Violation("snapshot", f"{where}: reader of version {r['id']}: get_node({n}) differs from the model", "get_node")
            for tcode in (1, 2, 5, 6, 16):
                g = txn.get(n, tcode)
                wv = None if wn is None else wn.get((tcode, 0))
                if (None if g is None else _x_rdataset(g, origin)) != wv:
                    raise Violation("snapshot", f"{where}: reader of version {r['id']}: get({n}, {tcode}) differs from the model", "get")
        if txn.version.id != r["id"]:
            raise Violation("snapshot", f"{where}: reader opened for version {r['id']} holds version {txn.version.id}", "version-id")

    def invariants(where, before_ids, prune_point, closing=None, f=None, nlog=0, logged=True):
        """retention invariants after a rule.  before_ids: retained ids before the rule (plus the
        new version for a commit); f: the policy in force as a pure function"""
        now = w.ids()
        hids = [h["id"] for h in history]
        if not now or now != hids[len(hids) - len(now):]:
            raise Violation("retention", f"{where}: retained ids {now} are not a contiguous newest run of the committed ids {hids}", "contiguous")
        pinned = [r["id"] for r in readers if r is not closing]
        for p in pinned:
            if p not in now:
                raise Violation("retention", f"{where}: version {p} is pinned by an open reader but was pruned (retained {now})", "pinned-pruned")
        floor = min(pinned + [hids[-1]])
        dropped = [i for i in before_ids if i not in now]
        if dropped != before_ids[: len(dropped)]:
            raise Violation("retention", f"{where}: dropped {dropped} is not a prefix of {before_ids}", "prefix")
        if any(i not in before_ids for i in now):
            raise Violation("retention", f"{where}: a version reappeared: {before_ids} -> {now}", "resurrected")
        calls = w.log[nlog:]
        if not prune_point:
            if dropped:
                raise Violation("retention", f"{where}: versions {dropped} disappeared outside a prune point", "non-prune-point")
            return
        f = f or _policy_fn(w.policy)
        for j, d in enumerate(dropped):
            n_at = len(before_ids) - j
            if d >= floor:
                raise Violation("retention", f"{where}: version {d} was pruned although the pin floor is {floor}", "below-floor")
            if not f(d, n_at):
                raise Violation("retention", f"{where}: version {d} was pruned although policy {w.policy} says keep (n={n_at})", "over-pruned")
        if now[0] < floor and f(now[0], len(now)):
            raise Violation(
                "retention", f"{where}: version {now[0]} is retained although it is below the pin floor {floor} and policy {w.policy} says prune (retained {now})",
                "under-pruned",
            )
        if logged:
            want = [(d, True, len(before_ids) - j) for j, d in enumerate(dropped)]
            if now[0] < floor:
                want.append((now[0], False, len(now)))
            if calls != want:
                raise Violation("retention", f"{where}: the policy was consulted as {calls}, expected {want}", "policy-calls")
        if w.policy[0] != "default" and (dropped or now[0] < floor):
            stats["nondefault_prune"] = True
            classes.add("non-default-policy-decided")
        if dropped:
            classes.add("pruned")

    def all_readers(where):
        for r in readers:
            check_reader(r, where)

    def apply_policy_rule(rule, where, before, nlog):
        """set_max_versions / set_pruning_policy: a prune point, whether or not a writer is open"""
        if rule[0] == "max_versions":
            n = rule[1]
            if n == 0:
                try:
                    zone.set_max_versions(0)
                except ValueError:
                    classes.add("max-versions-0-rejected")
                else:
                    raise Violation("retention", "set_max_versions(0) did not raise ValueError", "max0")
                invariants(where, before, False, nlog=nlog)
            else:
                zone.set_max_versions(n)
                w.policy = ("keep_all",) if n is None else ("max", n)
                w.wrap_policy()
                invariants(where, before, True, nlog=nlog, logged=False)
                classes.add("set_max_versions")
        else:
            spec = tuple(rule[1])
            if spec[0] == "default":
                zone.set_pruning_policy(None)
                w.policy = spec
                w.wrap_policy()
                invariants(where, before, True, nlog=nlog, logged=False)
            else:
                w.policy = spec
                zone.set_pruning_policy(w.make_policy(spec))
                invariants(where, before, True, nlog=nlog)
            classes.add("policy:" + spec[0])

    midstate = {}

    def do_write(ops, commit, where, replacement=None, mid=None):
        """-> (changed, model txn); replacement=<serial>: a writer(replacement=True) that starts
        from nothing (what a reload or an AXFR does) and first stores an SOA with that serial"""
        if replacement is None:
            txn = zone.writer()
            mt = model.begin()
        else:
            import dns.rdata

            txn = zone.writer(replacement=True)
            mt = model.begin(replacement=True)
            soa = dns.rdata.from_text("IN", "SOA", f"ns1 hostmaster {replacement} 7200 3600 1209600 300", origin=origin, relativize=w.rel)
            txn.add(w.name(()), 3600, soa)
            mt.add(ORIGIN_KEY, 6, 0, 3600, [ZU.rdata_key(soa, origin)], rdclass=1, ttl_form=True)
            classes.add("replacement-writer")
        held = []
        for op in ops:
            kind = op[0]
            n = w.name(NAMES[op[1] % len(NAMES)])
            k = W.name_key(NAMES[op[1] % len(NAMES)] + ORIGIN_LABELS)
            want = "ok"
            try:
                if kind == "add" or kind == "replace":
                    t, rd = w.rds[op[2] % len(w.rds)]
                    rdtype = TYPECODE[t]
                    covers = 1 if t == "RRSIG" else 0
                    getattr(mt, kind)(k, rdtype, covers, op[3], [keyof[op[2] % len(w.rds)]], rdclass=1, ttl_form=True)
                elif kind == "delete_name":
                    mt.delete_name(k)
                elif kind == "delete_type":
                    mt.delete_rdataset(k, op[2], 0)
                elif kind == "update_serial":
                    mt.update_serial(op[2], True)
            except ZM.ModelError as e:
                want = e.outcome
            got = "ok"
            try:
                if kind == "add":
                    txn.add(n, op[3], w.rds[op[2] % len(w.rds)][1])
                elif kind == "replace":
                    import dns.rdataset

                    mine = dns.rdataset.from_rdata(op[3], w.rds[op[2] % len(w.rds)][1])
                    held.append((mine, op[2] % len(w.rds)))
                    txn.replace(n, mine)
                elif kind == "delete_name":
                    txn.delete(n)
                elif kind == "delete_type":
                    txn.delete(n, op[2])
                elif kind == "update_serial":
                    txn.update_serial(op[2], True, w.name(()))
            except KeyError:
                got = "KeyError"
            except ValueError:
                got = "ValueError"
            if got != want:
                raise Violation("conformance", f"{where}: {op} ended as {got}, model says {want}", f"write:{kind}:{want}->{got}")
        got = _x_pairs(txn.iterate_rdatasets(), origin)
        if got != mt.content:
            raise Violation("conformance", f"{where}: writer content differs from the model: {ZU.diff(got, mt.content)}", "write-content")
        changed = txn.changed()
        lo, hi = mt.changed_bounds()
        if (lo and not changed) or (changed and not hi):
            raise Violation("conformance", f"{where}: changed() is {changed}, model bounds {(lo, hi)}", "changed")
        if mid is not None:
            # a policy change while this writer is still open: it is a prune point like any other
            apply_policy_rule(mid, where + " (writer open)", w.ids(), len(w.log))
            classes.add("policy-change-while-writer-open")
            midstate["before"] = w.ids()
            midstate["nlog"] = len(w.log)
        if commit:
            txn.commit()
        else:
            txn.rollback()
        # the application keeps using the Rdataset objects it handed to replace(): whatever it does
        # to them afterwards must not reach any version (checked by all_readers after the rule)
        for mine, idx in held:
            t0 = w.rds[idx][0]
            other = [rd for j, (t, rd) in enumerate(w.rds) if t == t0 and j != idx]
            try:
                if other:
                    mine.add(other[0], 1)
                else:
                    mine.clear()
            except Exception:
                pass
            classes.add("caller-held-rdataset-mutated-after-" + ("commit" if commit else "rollback"))
        return changed, mt

    def end_reader(r, how):
        txn = r["txn"]
        if how == 0:
            txn.rollback()
        elif how == 1:
            txn.commit()
        else:
            with txn:
                pass
        try:
            txn.get(w.name(()), 6)
        except dns.transaction.AlreadyEnded:
            pass
        else:
            raise Violation("snapshot", "a closed reader still answers get()", "ended")

    def open_reader(kw, where):
        """open with expectation from the model; returns reader dict or None"""
        now = w.ids()
        if "id" in kw:
            want = kw["id"] if kw["id"] in now else None
        elif "serial" in kw:
            want = None
            for vid in reversed(now):
                if serial_of(hist(vid)["content"]) == kw["serial"]:
                    want = vid
                    break
        else:
            want = now[-1]
        try:
            txn = zone.reader(**kw)
        except KeyError:
            if want is not None:
                raise Violation("snapshot", f"{where}: reader({kw}) raised KeyError although version {want} is retained ({now})", "reader-keyerror")
            classes.add("reader-keyerror:" + ("id" if "id" in kw else "serial"))
            if "id" in kw and hist(kw["id"]) is not None:
                classes.add("pruned-id-probe")
            return None
        if want is None:
            try:
                got = txn.version.id
            finally:
                txn.rollback()
            raise Violation("snapshot", f"{where}: reader({kw}) returned version {got} although no such version is retained ({now})", "reader-should-fail")
        r = {"txn": txn, "id": want, "content": hist(want)["content"], "commits_seen": 0}
        check_reader(r, where + " (at open)")
        return r

    rules = case["rules"]
    for step, rule in enumerate(rules):
        kind = rule[0]
        where = f"step {step} {rule}"
        before = w.ids()
        nlog = len(w.log)
        if kind == "open":
            mode = rule[1]
            hids = [h["id"] for h in history]
            if mode == "latest":
                kw = {}
            elif mode == "id":
                cand = hids + [0, hids[-1] + 1, hids[-1] + 7, -1]
                kw = {"id": cand[rule[2] % len(cand)]}
            elif mode == "retained":
                kw = {"id": before[rule[2] % len(before)]}
            elif mode == "serial":
                ser = [serial_of(h["content"]) for h in history]
                ser = [s for s in ser if s is not None] + [0, 4000000000]
                kw = {"serial": ser[rule[2] % len(ser)]}
            else:
                try:
                    zone.reader(id=1, serial=1)
                except ValueError:
                    classes.add("reader-both-rejected")
                else:
                    raise Violation("snapshot", "reader(id=, serial=) did not raise ValueError", "reader-both")
                kw = None
            if kw is not None and len(readers) < 5:
                r = open_reader(kw, where)
                if r is not None:
                    readers.append(r)
                    classes.add("open:" + ("id" if mode == "retained" else mode))
                    if r["id"] != w.ids()[-1]:
                        classes.add("open-old-version")
            invariants(where, before, False, nlog=nlog)
        elif kind == "close":
            if readers:
                r = readers.pop(rule[1] % len(readers))
                check_reader(r, where + " (before close)")
                end_reader(r, rule[2] % 3)
                if r["commits_seen"] >= 2:
                    classes.add("reader-open-across->=2-commits")
                invariants(where, before, True, nlog=nlog, logged=True)
                classes.add("close")
            else:
                invariants(where, before, False, nlog=nlog)
        elif kind in ("commit", "rollback", "commit_repl"):
            if kind == "commit_repl":
                changed, mt = do_write(rule[1], True, where, replacement=rule[2])
                kind = "commit"
                if readers:
                    classes.add("replacement-commit-with-reader-open")
                if len(before) > 1:
                    classes.add("replacement-commit-with->=2-retained")
            else:
                changed, mt = do_write(rule[1], kind == "commit", where, mid=rule[2] if len(rule) > 2 else None)
                if midstate:
                    before, nlog = midstate.pop("before"), midstate.pop("nlog")
            now = w.ids()
            if kind == "commit" and changed:
                new = now[-1]
                if new <= history[-1]["id"]:
                    raise Violation("ids", f"{where}: committed version id {new} does not exceed the previous id {history[-1]['id']}", "not-increasing")
                if new in before:
                    raise Violation("ids", f"{where}: a commit produced no new version id ({before} -> {now})", "no-new-id")
                mt.commit()
                history.append({"id": new, "content": model.snapshot()})
                for r in readers:
                    r["commits_seen"] += 1
                if readers:
                    stats["commits_with_reader"] += 1
                classes.add("commit-effective" if mt.content_changed else "commit-identity-write")
                invariants(where, before + [new], True, nlog=nlog)
                latest = _x_pairs(zone.iterate_rdatasets(), origin)
                if latest != model.content:
                    raise Violation("conformance", f"{where}: zone content after commit differs from the model: {ZU.diff(latest, model.content)}", "commit-content")
            else:
                mt.rollback()
                if now != before:
                    what = "an empty commit" if kind == "commit" else "a rollback"
                    raise Violation("ids", f"{where}: {what} changed the retained versions {before} -> {now}", "empty-commit-version" if kind == "commit" else "rollback-version")
                classes.add("empty-commit" if kind == "commit" else ("rollback-with-writes" if mt.touched else "rollback"))
                invariants(where, before, False, nlog=nlog)
        elif kind == "max_versions":
            apply_policy_rule(rule, where, before, nlog)
        elif kind == "policy":
            apply_policy_rule(rule, where, before, nlog)
        elif kind == "probe_id":
            # public cross-check of the white-box version list: every committed id and a few others
            hids = [h["id"] for h in history]
            for vid in hids + [hids[-1] + 1]:
                b2 = w.ids()
                n2 = len(w.log)
                r = open_reader({"id": vid}, where)
                if r is not None:
                    invariants(where, b2, False, nlog=n2)
                    end_reader(r, (vid + step) % 3)
                    invariants(where + " (probe close)", b2, True, closing=None, nlog=n2)
            classes.add("probe_id")
        elif kind == "probe":
            if not readers:
                readers.append(open_reader({}, where))
            check_reader(readers[rule[1] % len(readers)], where)
            classes.add("probe_snapshot")
            invariants(where, before, False, nlog=nlog)
        elif kind == "attack":
            if not readers:
                readers.append(open_reader({}, where))
            r = readers[rule[1] % len(readers)]
            _attack(w, r, rule[2], rule[3], rule[4], classes, counters)
            classes.add("attack:" + rule[2])
            if r["id"] != w.ids()[-1]:
                classes.add("attack-on-old-version")
            invariants(where, before, False, nlog=nlog)
        else:
            raise AssertionError(kind)
        all_readers(where)

    for r in list(readers):
        check_reader(r, "end of history")
        b2 = w.ids()
        n2 = len(w.log)
        readers.remove(r)
        end_reader(r, 0)
        if r["commits_seen"] >= 2:
            classes.add("reader-open-across->=2-commits")
        invariants("final close", b2, True, nlog=n2)

    for k, v in counters.items():
        classes.add("attacked:" + k)
    pairs = len(counters)
    if pairs >= 20:
        classes.add("attack-pairs>=20")
    nontrivial = (stats["commits_with_reader"] >= 2 and stats["nondefault_prune"]) or pairs >= 20
    return {"nontrivial": bool(nontrivial), "classes": sorted(classes)}


# ---------------------------------------------------------------------------
# strategies

_TARGETS = ["rdataset", "node", "nodes", "items", "version", "delegations", "txn"]


def _write_op():
    nm = st.integers(0, len(NAMES) - 1)
    return st.one_of(
        st.tuples(st.just("add"), nm, st.integers(0, len(POOL) - 1), st.sampled_from([300, 60, 3600])),
        st.tuples(st.just("add"), nm, st.integers(0, len(POOL) - 1), st.sampled_from([300, 60, 3600])),
        st.tuples(st.just("replace"), nm, st.integers(0, len(POOL) - 1), st.sampled_from([300, 5])),
        st.tuples(st.just("delete_name"), st.integers(1, len(NAMES) - 1)),
        st.tuples(st.just("delete_type"), nm, st.sampled_from([1, 16, 2, 5, 15])),
        st.tuples(st.just("update_serial"), st.just(0), st.sampled_from([1, 1, 2, 0])),
    )


def _rule():
    policy = st.one_of(
        st.just(["default"]), st.just(["keep_all"]), st.just(["drop_all"]), st.just(["none"]),
        st.tuples(st.just("mult"), st.integers(2, 3)).map(list),
        st.tuples(st.just("len"), st.integers(1, 3)).map(list),
    )
    ops = st.lists(_write_op(), min_size=0, max_size=4).map(lambda l: [list(o) for o in l])
    serial_bump = st.just([["update_serial", 0, 1]])
    attack = st.tuples(st.just("attack"), st.integers(0, 4), st.sampled_from(_TARGETS), st.integers(0, 9), st.integers(0, 9))
    return st.one_of(
        st.tuples(st.just("open"), st.sampled_from(["latest", "id", "retained", "retained", "serial", "both"]), st.integers(0, 30)),
        st.tuples(st.just("open"), st.sampled_from(["latest", "id", "retained", "serial"]), st.integers(0, 30)),
        st.tuples(st.just("close"), st.integers(0, 4), st.integers(0, 2)),
        st.tuples(st.just("commit"), ops),
        st.tuples(st.just("commit"), ops),
        st.tuples(st.just("commit"), serial_bump),
        st.tuples(st.just("commit"), serial_bump),
        st.tuples(st.just("commit"), st.just([])),
        st.tuples(st.just("rollback"), ops),
        st.tuples(st.sampled_from(["commit", "rollback", "rollback"]), st.one_of(ops, st.just([])), st.one_of(
            st.tuples(st.just("max_versions"), st.sampled_from([None, 1, 2, 3])).map(list),
            st.tuples(st.just("policy"), policy).map(list))),
        st.tuples(st.just("commit_repl"), ops, st.integers(1, 9)),
        st.tuples(st.just("max_versions"), st.sampled_from([None, 1, 2, 3, 0])),
        st.tuples(st.just("policy"), policy),
        st.tuples(st.just("policy"), policy),
        st.tuples(st.just("probe_id")),
        st.tuples(st.just("probe"), st.integers(0, 4)),
        attack,
        attack,
        attack,
    ).map(list)


@st.composite
def histories(draw, max_rules):
    kind = draw(st.sampled_from(["versioned", "btree"]))
    rel = draw(st.booleans())
    n = draw(st.sampled_from([6, 10, 15, 20, 25, 30, 35, max_rules, max_rules]))
    rules = [draw(_rule()) for _ in range(n)]
    return {"kind": kind, "relativize": rel, "rules": rules, "small_t": draw(st.booleans())}


def _require():
    """every (class, method) pair of the mechanically enumerated surface must have been attacked"""
    req = {
        "reader-open-across->=2-commits": 40,
        "non-default-policy-decided": 40,
        "pruned-id-probe": 40,
        "reader-keyerror:id": 40,
        "reader-keyerror:serial": 20,
        "open-old-version": 40,
        "empty-commit": 40,
        "commit-effective": 200,
        "pruned": 100,
        "mutating-call-refused": 100,
        "noop-call-returned": 50,
        "attack-pairs>=20": 50,
        "excluded:btree-setattr": 10,
        "caller-held-rdataset-mutated-after-commit": 100,
        "replacement-commit-with-reader-open": 100,
        "policy-change-while-writer-open": 200,
        "replacement-commit-with->=2-retained": 100,
        "__nontrivial__": 100,
    }
    seen = set()
    for kind in ("versioned", "btree"):
        for label, (_, methods) in surfaces(kind).items():
            for m, _ in methods:
                seen.add(f"attacked:{label}.{m}")
            seen.add(f"attacked:{label}.setattr")
    seen.discard("attacked:delegations.setattr")  # excluded:btree-setattr
    for s in ("rdata", "name"):
        seen.add(f"attacked:{s}.setattr")
    for w_ in ("add", "replace", "delete", "delete_exact", "update_serial"):
        seen.add("attacked:txn." + w_)
    for k in seen:
        req[k] = 5
    return req


def parts(tier):
    return [
        Part(
            "histories",
            run,
            strategy=histories(40 if tier == "quick" else 60),
            n={"quick": 1600, "thorough": 48000},
            require={"quick": _require(), "thorough": {k: 5 * v for k, v in _require().items()}},
            shards={"quick": 16, "thorough": 16},
            case_timeout_s=60.0,
        )
    ]
