"""C06  Name comparison is the DNSSEC canonical order, coherent with equality and hash."""

from hypothesis import strategies as st

from vlib.gen import names as G
from vlib.ref import wire as W
from vlib.runner import Part, Violation

ID = "C06"
LEVEL = "exploration"
TECHNIQUE = (
    "property-based testing: generated name pairs/triples from shared-suffix families compared "
    "against an independent RFC 4034 6.1 sort key; exhaustive final-octet table for RFC 4471 "
    "successor/predecessor"
)
LEVEL_TEXT = (
    "Generated pairs and triples (all octets, case mixes, both relativities) agree with an "
    "independent canonical-order key on order, equality, hash, relation, common-label count, "
    "sub/superdomain, parent/split, relativize/derelativize; successor/predecessor strictness "
    "checked on generated names and on the complete final-octet x label-length table. Not a proof."
)
RULE = (
    "cases: (cmp) three names from one shared-suffix family with independent case flips and "
    "relativity + an origin; (succ) a name under an origin with boundary last labels, both "
    "prefix_ok values; (succ-table) all 256 final octets x label lengths {1,2,62,63} x prefix_ok x "
    "3 suffix layouts. non-trivial = two of the names share >=1 label yet differ (case, length or "
    "content), or successor/predecessor had to modify an existing label; distinct by SHA-1"
    " The comparison family includes 'dot twins' (a literal '.' in one name where the other has a label boundary)."
)
ASSUMPTIONS = [
    "reference order: (is_absolute, reversed ASCII-lower-cased labels) compared as tuples of bytes",
    "successor/predecessor: strictness asserted (the statement's wording), not RFC 4471 minimality",
]


def _mk(labels):
    import dns.name

    return dns.name.Name(labels)


def K(labels):
    labels = list(labels)
    absolute = bool(labels) and labels[-1] == b""
    return (absolute, W.name_key(labels))


def _sign(x):
    return (x > 0) - (x < 0)


def _cmp(a, b):
    return (a > b) - (a < b)


def _relation(la, lb):
    """independent relation/common-label computation from label lists"""
    aa = bool(la) and la[-1] == b""
    ab = bool(lb) and lb[-1] == b""
    if aa != ab:
        return ("NONE", 0)
    ka, kb = W.name_key(la), W.name_key(lb)
    n = 0
    for x, y in zip(ka, kb):
        if x != y:
            break
        n += 1
    if n == len(ka) == len(kb):
        return ("EQUAL", n)
    if n == len(kb) and len(ka) > len(kb):
        return ("SUBDOMAIN", n)
    if n == len(ka) and len(kb) > len(ka):
        return ("SUPERDOMAIN", n)
    if n > 0:
        return ("COMMONANCESTOR", n)
    return ("NONE", 0)


def run_cmp(case):
    import dns.name
    import dns.namedict

    ls = [G.unhexl(x) for x in case["names"]]
    ns = [_mk(l) for l in ls]
    ks = [K(l) for l in ls]
    classes = set()
    nontrivial = False
    # pairs
    for i in range(len(ns)):
        for j in range(len(ns)):
            a, b = ns[i], ns[j]
            want = _cmp(ks[i], ks[j])
            rel, order, nlabels = a.fullcompare(b)
            if _sign(order) != want:
                raise Violation("order", f"fullcompare({a!r},{b!r}).order={order}, reference says {want}", "fullcompare")
            ops = {
                "<": a < b, "<=": a <= b, ">": a > b, ">=": a >= b, "==": a == b, "!=": a != b,
            }
            exp = {
                "<": want < 0, "<=": want <= 0, ">": want > 0, ">=": want >= 0, "==": want == 0, "!=": want != 0,
            }
            if ops != exp:
                raise Violation("order", f"rich comparisons {ops} for {a!r},{b!r}; reference {exp}", "rich")
            if want == 0:
                if hash(a) != hash(b):
                    raise Violation("hash", f"{a!r} == {b!r} but hashes differ", "hash")
                if {a: 1}.get(b) != 1 or b not in {a}:
                    raise Violation("hash", f"{a!r} and {b!r} equal but not interchangeable as dict/set keys", "dictkey")
                if ls[i] != ls[j]:
                    classes.add("equal-up-to-case")
            elif i < j and b".".join(ls[i]).lower() == b".".join(ls[j]).lower():
                classes.add("dot-twins-unequal")
            elif i < j and len(ls[i]) == len(ls[j]) and all(len(x) == len(y) and all(a == b or abs(a - b) == 0x20 for a, b in zip(x, y)) for x, y in zip(ls[i], ls[j])):
                classes.add("case-lookalike-unequal")
            wrel, wn = _relation(ls[i], ls[j])
            if rel.name != wrel or nlabels != wn:
                raise Violation(
                    "relation",
                    f"fullcompare({a!r},{b!r}) relation={rel.name} nlabels={nlabels}; reference {wrel},{wn}",
                    "relation",
                )
            if a.is_subdomain(b) != (wrel in ("SUBDOMAIN", "EQUAL")):
                raise Violation("relation", f"is_subdomain({a!r},{b!r}) wrong", "is_subdomain")
            if a.is_superdomain(b) != (wrel in ("SUPERDOMAIN", "EQUAL")):
                raise Violation("relation", f"is_superdomain({a!r},{b!r}) wrong", "is_superdomain")
            if wn >= 1 and ls[i] != ls[j] and not (wn == 1 and ls[i][-1:] == [b""]):
                nontrivial = True
            classes.add("rel:" + wrel)
            # antisymmetry directly
            if _sign(b.fullcompare(a)[1]) != -_sign(order):
                raise Violation("order", f"antisymmetry broken for {a!r},{b!r}", "antisymmetry")
    # transitivity on the triple
    for a in range(len(ns)):
        for b in range(len(ns)):
            for c in range(len(ns)):
                if ns[a] <= ns[b] and ns[b] <= ns[c] and not ns[a] <= ns[c]:
                    raise Violation("order", f"transitivity broken: {ns[a]!r} <= {ns[b]!r} <= {ns[c]!r}", "transitivity")
    # sorted() agrees with the reference order
    got = [n.labels for n in sorted(ns)]
    order = sorted(range(len(ns)), key=lambda i: ks[i])
    if [K(g) for g in got] != [ks[i] for i in order]:
        raise Violation("order", "sorted(names) disagrees with reference order", "sorted")
    # parent / split
    for l, n in zip(ls, ns):
        if len(l) == 0 or l == [b""]:
            try:
                n.parent()
            except dns.name.NoParent:
                pass
            else:
                raise Violation("relation", "parent() of root/empty did not raise NoParent", "parent-root")
        else:
            p = n.parent()
            if list(p.labels) != l[1:]:
                raise Violation("relation", f"parent({n!r}) = {p!r}", "parent")
            if not n.is_subdomain(p) or n == p:
                raise Violation("relation", f"{n!r} not a proper subdomain of its parent", "parent-sub")
        for d in range(0, len(l) + 1):
            pre, suf = n.split(d)
            if list(pre.labels) + list(suf.labels) != l or len(suf.labels) != d:
                raise Violation("relation", f"split({d}) of {n!r} gives {pre!r},{suf!r}", "split")
    # relativize / derelativize
    o_l = G.unhexl(case["origin"])
    o = _mk(o_l)
    for l, n in zip(ls, ns):
        r = n.relativize(o)
        under = _relation(l, o_l)[0] in ("SUBDOMAIN", "EQUAL")
        if under:
            if list(r.labels) != l[: len(l) - len(o_l)]:
                raise Violation("relativize", f"{n!r}.relativize({o!r}) = {r!r}", "relativize")
            d = r.derelativize(o)
            if K(d.labels) != K(l) or list(d.labels)[: len(l) - len(o_l)] != l[: len(l) - len(o_l)]:
                raise Violation("relativize", f"relativize/derelativize of {n!r} under {o!r} gives {d!r}", "roundtrip")
            if list(d.labels[len(l) - len(o_l):]) != o_l:
                raise Violation("relativize", "derelativize did not append the origin's labels", "roundtrip-origin")
            classes.add("under-origin")
            if not o_l or o_l[-1] != b"":
                classes.add("under-relative-origin")
            if list(n.labels[len(l) - len(o_l):]) != o_l:
                classes.add("under-origin-case-variant")
        else:
            if r.labels != n.labels:
                raise Violation("relativize", f"{n!r}.relativize({o!r}) changed a name not under the origin", "relativize-foreign")
            if n.is_absolute() and n.derelativize(o).labels != n.labels:
                raise Violation("relativize", "derelativize changed an absolute name", "derelativize-abs")
    # NameDict: longest match agrees with a linear scan
    nd = dns.namedict.NameDict()
    for i, n in enumerate(ns[:-1]):
        nd[n] = i
    probe = ns[-1]
    best = None
    for n in ns[:-1]:
        if _relation(list(probe.labels), list(n.labels))[0] in ("SUBDOMAIN", "EQUAL"):
            if best is None or len(n.labels) > len(best.labels):
                best = n
    if best is not None and len(best.labels) > 0:
        k, v = nd.get_deepest_match(probe)
        if k != best or nd[best] != v:
            raise Violation("namedict", f"get_deepest_match({probe!r}) = {k!r}, linear scan says {best!r}", "deepest")
        classes.add("namedict-match")
    return {"nontrivial": nontrivial, "classes": sorted(classes)}


@st.composite
def cmp_cases(draw):
    absolute = draw(st.booleans())
    fam = draw(G.name_family(3, 3, absolute=True))
    names = []
    for labs in fam:
        if not draw(st.sampled_from([True, True, True, False])) ^ (not absolute):
            pass
        rel = draw(st.integers(0, 5)) == 0
        names.append(labs[:-1] if rel else labs)
    k = draw(st.integers(0, 6))
    if k == 6:
        # octets that look like a case pair but are not one: only A-Z / a-z fold (RFC 4343);
        # 0x40/0x60, 0x5B-0x5E/0x7B-0x7E and the Latin-1 letters 0xC0-0xDE/0xE0-0xFE do not
        up = draw(st.sampled_from([0x40, 0x5B, 0x5C, 0x5D, 0x5E, 0xC0, 0xC1, 0xD6, 0xD8, 0xDE, 0x41, 0x5A]))
        base = names[0] if names[0] and names[0][0] else [b"x", b""]
        pre = draw(st.binary(max_size=3))
        names[0] = [pre + bytes([up])] + list(base[1:])
        names[1] = [pre + bytes([up + 0x20])] + list(base[1:])
    elif k == 5:
        # "dot twins": the same octet string cut into the same number of labels at different places,
        # a literal '.' standing where the other name has a label boundary (also relative vs absolute)
        parts_ = [draw(st.sampled_from([b"a", b"b", b"A", b"x", b"ab", b"c"])) for _ in range(draw(st.integers(3, 5)))]
        nlab = draw(st.integers(2, len(parts_) - 1))

        def cut(seed):
            cuts = sorted(draw(st.lists(st.integers(1, len(parts_) - 1), min_size=nlab - 1, max_size=nlab - 1, unique=True)))
            out, prev = [], 0
            for c in cuts + [len(parts_)]:
                out.append(b".".join(parts_[prev:c]))
                prev = c
            return out

        n0, n1 = cut(0), cut(1)
        tail = draw(st.sampled_from(["abs", "abs", "rel", "mixed"]))
        if tail == "abs":
            n0, n1 = n0 + [b""], n1 + [b""]
        elif tail == "mixed":
            # relative name whose last label ends in '.' against an absolute one
            n0 = n0[:-1] + [n0[-1] + b"."]
            n1 = n1 + [b""]
        names[0], names[1] = n0, [G.flip_case(draw, l) for l in n1]
    elif k == 0:
        names[1] = [G.flip_case(draw, l) for l in names[0]]  # equal up to case
    elif k == 1:
        names[1] = [draw(G.label(1, 8))] + names[0]  # child
    elif k == 2 and len(names[0]) > 1:
        # sibling differing in one octet of the first label
        l0 = bytearray(names[0][0] or b"a")
        l0[-1] = (l0[-1] + draw(st.sampled_from([1, 32, 224, 255]))) % 256
        names[1] = [bytes(l0)] + names[0][1:]
    ok_ = draw(st.integers(0, 9))
    if ok_ == 0:
        # the origin may itself be relative (a relative suffix of a relative name) or empty
        src = [n for n in names if n and n[-1] != b""]
        if src:
            s = draw(st.sampled_from(src))
            cut = draw(st.integers(0, len(s)))
            origin = [G.flip_case(draw, l) for l in s[cut:]]
        else:
            origin = []
    elif ok_ == 1:
        origin = []
    elif draw(st.booleans()):
        # origin = a suffix of one of the names (possibly with different case)
        src = [n for n in names if n and n[-1] == b""]
        if src:
            s = draw(st.sampled_from(src))
            cut = draw(st.integers(0, len(s) - 1))
            origin = [G.flip_case(draw, l) for l in s[cut:]]
        else:
            origin = draw(G.abs_name(max_wire=40))
    else:
        origin = draw(G.abs_name(max_wire=40))
    return {"names": [G.hexl(n) for n in names], "origin": G.hexl(origin)}


# ---------------------------------------------------------------------------
# successor / predecessor


def run_succ(case):
    import dns.name

    l = G.unhexl(case["name"])
    o_l = G.unhexl(case["origin"])
    n, o = _mk(l), _mk(o_l)
    pk = case["prefix_ok"]
    classes = set()
    nontrivial = False
    relative = not n.is_absolute()
    full = l + o_l if relative else l

    def absolute_of(x):
        ll = list(x.labels)
        return ll if x.is_absolute() else ll + o_l

    def under_origin(ll):
        return _relation(ll, o_l)[0] in ("SUBDOMAIN", "EQUAL")

    for what in ("successor", "predecessor"):
        r = getattr(n, what)(o, pk)
        if r.is_absolute() != n.is_absolute():
            raise Violation(what, f"{what} changed relativity of {n!r}: {r!r}", "relativity")
        rl = absolute_of(r)
        if W.wire_len(rl) > 255 or any(len(x) > 63 for x in rl):
            raise Violation(what, f"{what} of {n!r} exceeds length limits: {rl!r}", "limits")
        if not under_origin(rl):
            raise Violation(what, f"{what} of {n!r} left the zone {o!r}: {r!r}", "left-zone")
        c = _cmp(K(rl), K(full))
        is_origin = K(full) == K(o_l)
        if what == "successor":
            if not (c > 0 or K(rl) == K(o_l)):
                raise Violation(
                    what,
                    f"successor({n!r}, origin={o!r}, prefix_ok={pk}) = {r!r} does not sort strictly after it (and is not the origin)",
                    "not-after",
                )
            if K(rl) == K(o_l):
                classes.add("succ-wraps")
            if len(rl) == len(full) and c > 0:
                classes.add("succ-modified-label")
                nontrivial = True
            if len(rl) < len(full):
                classes.add("succ-chopped-label")
                nontrivial = True
        else:
            if is_origin:
                classes.add("pred-of-origin")
            else:
                if not c < 0:
                    raise Violation(
                        what,
                        f"predecessor({n!r}, origin={o!r}, prefix_ok={pk}) = {r!r} does not sort strictly before it",
                        "not-before",
                    )
                if len(rl) >= len(full) and rl[len(rl) - len(full) + 1:] == full[1:]:
                    classes.add("pred-modified-label")
                    nontrivial = True
    return {"nontrivial": nontrivial, "classes": sorted(classes)}


_BOUNDARY = list(b"@AZ[`az{\x00\x01\xfe\xff")


@st.composite
def succ_cases(draw):
    o = draw(G.abs_name(max_wire=draw(st.sampled_from([1, 9, 40, 120]))))
    room = 255 - W.wire_len(o)
    kind = draw(st.integers(0, 4))
    pre = []
    if room >= 2 and kind != 0:
        if kind == 1:
            pre = draw(G.rel_labels(max_wire=room, max_labels=3))
        elif kind == 2:
            pre = draw(G.long_rel_labels(target=room, max_wire=room))
        else:
            ln = min(draw(st.sampled_from([1, 2, 62, 63])), room - 1)
            body = bytes([draw(st.sampled_from(list(b"m\xff\x00Zz")))]) * (ln - 1)
            lab = body + bytes([draw(st.sampled_from(_BOUNDARY))])
            rest_room = room - len(lab) - 1
            rest = []
            if rest_room >= 2 and draw(st.booleans()):
                rest = draw(st.one_of(G.rel_labels(max_wire=rest_room, max_labels=2),
                                      G.long_rel_labels(target=rest_room, max_wire=rest_room)))
            pre = [lab] + rest
    relative = draw(st.booleans())
    name = pre if relative else pre + o
    return {"name": G.hexl(name), "origin": G.hexl(o), "prefix_ok": draw(st.booleans())}


def succ_table():
    out = []
    o = [b"example", b""]
    room = 255 - W.wire_len(o)
    for c in range(256):
        for ln in (1, 2, 62, 63):
            for fill in (b"\xff", b"m"):
                lab = fill * (ln - 1) + bytes([c])
                for layout in range(3):
                    if layout == 0:
                        rest = []
                    elif layout == 1:
                        rest = [b"sub"]
                    else:
                        # name already maximal in length: nothing can be prefixed/extended
                        rr = room - len(lab) - 1
                        rest = []
                        while rr >= 2:
                            k = min(63, rr - 1)
                            if rr - 1 - k == 1:
                                k -= 1
                            rest.append(b"\xff" * k)
                            rr -= k + 1
                    if W.wire_len([lab] + rest + o) > 255:
                        continue
                    for pk in (True, False):
                        out.append({"name": G.hexl([lab] + rest + o), "origin": G.hexl(o), "prefix_ok": pk})
    return out


def parts(tier):
    return [
        Part("cmp", run_cmp, strategy=cmp_cases(), n={"quick": 12000, "thorough": 400000},
             require={"equal-up-to-case": 300, "rel:SUBDOMAIN": 300, "rel:COMMONANCESTOR": 300, "rel:NONE": 100,
                      "under-origin": 300, "under-origin-case-variant": 20, "namedict-match": 100, "dot-twins-unequal": 300, "case-lookalike-unequal": 300, "under-relative-origin": 100}),
        Part("succ", run_succ, strategy=succ_cases(), n={"quick": 12000, "thorough": 400000},
             require={"succ-modified-label": 100, "pred-modified-label": 100, "succ-wraps": 5, "pred-of-origin": 50}),
        Part("succ-table", run_succ, cases=succ_table, shards={"quick": 8, "thorough": 8}),
    ]
