"""C20  B-tree zone flags, delegation index and bounds are a function of zone content.

Zones are built over a small owner pool designed to create zone cuts (apex, a, b.a, c.b.a,
d, x.d, glue-like names, wildcards, case-variant spellings, names that exist only as empty
non-terminals).  Two parts:

  loads      the same record multiset loaded in several generated permutations, through
             dns.zone.from_text(zone_factory=dns.btreezone.Zone) and through one big transaction
  histories  an initial load followed by committed (and a few rolled-back, a few replacement)
             transactions that add / replace / delete NS and non-NS records at, above and below
             cuts

After EVERY commit (and for every load order) the committed version is compared with
vlib/ref/bzone_model.py, which recomputes everything from the committed content alone:
{name: flags}, the delegation index, the canonical iteration order, Delegations.get_delegation /
is_glue and every field of ImmutableVersion.bounds(q) for generated query names.
See DESIGN.md section C20.

SCOPING (documentation readings; none of them narrows the property):

* Bounds.is_delegation.  The field docstring says "True if the left bound is a delegation
  point"; the method docstring says the result is used "to determine whether the query name is
  at or beneath a delegation point".  The two disagree for a name that merely sorts after a cut
  (`sub NS`, query `t`: the left bound `sub` IS a delegation point, the name is not at/below
  one).  The property statement says "whether the name is at or below a delegation"; that
  reading is the oracle (it is also what the code does).  Cases where the literal field
  docstring would say otherwise are counted as `bounds:left-is-cut-but-q-outside`.
* Bounds.left / right.  The docstrings say "name in the zone"; the property statement says
  "among non-occluded names" (the code skips glue on the right, so that is the intent).  The
  statement's reading is the oracle; D17 is the code not following it on the left.
* Bounds.is_equal is "name == left" (both docstrings), hence False for an existing glue name.
* Names are compared modulo ASCII case (closest_encloser is sliced from the query's own
  spelling) and modulo relativity (owner_key makes every name absolute).
* The apex node always exists (SOA is never removed; `delete(apex)` is not generated): bounds()
  asserts a left bound, and a zone without its apex is outside the documented domain.
* Harness-side configuration: `small_t` uses a Zone subclass whose map_factory builds
  BTreeDict(t=3) and whose writable_version_factory gives a from-nothing version a
  Delegations(t=3), so that 20-name zones and >5-cut delegation indexes are multi-level trees
  (map_factory / writable_version_factory are the documented extension points; everything else
  is the code under test).

KNOWN DEFECT CLASSES, excluded by construction behind flags (flip to False once /repo is fixed):

* EXCLUDE_D14  first touch, inside a transaction, of an existing cut by a non-NS change
               (copy-on-write drops DELEGATION).  The single operation is dropped.
* EXCLUDE_D15  a nested NS owner is promoted/demoted by a change at ANOTHER name (cut created
               above an existing NS owner; cut removed while an NS owner lies beneath it).  From
               that operation on, the history's flags / index / bounds are not compared (they
               are all derived from the diverged index); names, order, content, ORIGIN still are.
               Benign nesting (inner NS added below an existing cut, inner removed first) stays
               fully compared.
* EXCLUDE_D16  relativized zone, closest encloser is the apex, query is not the apex:
               only the closest_encloser field of that query is skipped.
* EXCLUDE_D17  query not at/below a cut whose nearest existing predecessor is occluded:
               only the `left` field of that query is skipped.
* EXCLUDE_N1   (new) absolute zone (relativize=False) whose origin is learned from `$ORIGIN`
               (from_text(origin=None)): the origin is passed explicitly instead.
* EXCLUDE_N2   (new; already fixed in /repo by 0119f3a, so shipped False) `zone.writer()` on a
               freshly constructed dns.btreezone.Zone raised ValueError ("original BTree is not
               immutable") and leaked the write lock; when set, the one-big-transaction load uses
               `zone.writer(replacement=True)` instead.
"""

from hypothesis import strategies as st

from vlib.ref import bzone_model as BM
from vlib.ref import wire as W
from vlib.runner import Part, Violation

ID = "C20"
LEVEL = "exploration"
TECHNIQUE = (
    "property-based testing: Hypothesis-generated load permutations and transaction histories "
    "over a cut-creating owner pool, every committed version compared with an independent model "
    "that recomputes flags, delegation index, canonical order and bounds from the content alone"
)
LEVEL_TEXT = (
    "Generated-history search: in every explored load order and after every explored commit the "
    "node flags, the delegation index, the iteration order and all Bounds fields for the generated "
    "query names equal the recomputed-from-definition model (outside the counted excluded:* "
    "classes). Not a proof; zones have at most ~25 names and histories at most ~8 transactions."
)
RULE = (
    "cases: (loads) one record multiset over a 30-name cut-creating pool loaded in 2-4 generated "
    "permutations via from_text or one transaction; (histories) initial load + 1-7 transactions of "
    "add/replace/delete-rdata/delete-type/delete-name at, above and below cuts, some rolled back, "
    "some replacing the whole zone; "
    "both with relativize on/off, two origins, B-tree t default or 3, 11-33 bounds query names "
    "(pool names, their RFC 4471 predecessors/successors, children, siblings, names under cuts, "
    "first/last literals, relative/absolute spelling, Name or str); non-trivial = a fully compared commit had a nested cut "
    "or a fully compared history removed a cut while names remained beneath it, and >=10 bounds "
    "queries were compared of which >=1 fell under a cut and >=1 had the apex as closest encloser; "
    "distinct by SHA-1 of the descriptor"
)
RULE += (
    " Rounds 8-10 added: Delegations(t=3) with 7-13 sibling cuts (multi-level delegation index); absolute owner names spelling the origin in the other letter case."
)
ASSUMPTIONS = [
    "reference model vlib/ref/bzone_model.py imports nothing from dns; canonical order = tuple "
    "order of lower-cased labels, most significant first (RFC 4034 6.1)",
    "content bookkeeping of the history (which rdatas exist where) is done by the harness from the "
    "documented Transaction.add/replace/delete semantics and cross-checked against the zone",
    "is_delegation is read as 'the query name is at or below a cut', left/right as bounds among "
    "non-occluded names (property statement; see SCOPING in the module docstring)",
    "the apex node always exists; dns.name.Name.predecessor/successor only supply query names",
    "excluded by construction while the corresponding defect is open: D14, D15, D16, D17, N1 "
    "(counted as excluded:* classes)",
]

EXCLUDE_D14 = False
EXCLUDE_D15 = False
EXCLUDE_D16 = False
EXCLUDE_D17 = False
EXCLUDE_N1 = False
EXCLUDE_N2 = False  # fixed in /repo (0119f3a): the class is generated again

# ---------------------------------------------------------------------------
# pools

ORIGINS = [[b"example", b""], [b"sub", b"Example", b""]]

# relative owner names (labels least significant first, as in a Name)
POOL = [
    (),  # 0 apex
    ("a",),
    ("b", "a"),
    ("c", "b", "a"),
    ("d",),
    ("x", "d"),  # 5
    ("ns", "a"),
    ("ns", "b", "a"),
    ("ns", "d"),
    ("*", "a"),
    ("*", "b", "a"),  # 10
    ("*",),
    ("*", "d"),
    ("A",),
    ("B", "a"),
    ("b", "A"),  # 15
    ("C", "B", "A"),
    ("D",),
    ("k", "j", "a"),  # j.a only ever exists as an empty non-terminal
    ("g", "f"),  # f only ever exists as an empty non-terminal
    ("y", "x", "d"),  # 20
    ("e", "d"),
    ("ns",),
    ("0",),
    ("zz",),
    ("a", "zz"),  # 25
]
# query-only names: the empty non-terminals and names around them
QPOOL = POOL + [
    ("f",),
    ("j", "a"),
    ("h", "f"),
    ("i", "j", "a"),
    ("q", "r", "c", "b", "a"),  # 30
    ("z", "x", "d"),
    ("b",),
]
QLABELS = [b"0", b"m", b"zzz", b"*", b"\x00", b"\xff", b"B", b"ns", b"a", b"c"]
LITS = [
    (b"\x00",),  # sorts before every child of the apex
    (b"\xff\xff\xff",),  # sorts after every name of the pool
    (b"\x00", b"a"),
    (b"\xff", b"d"),
    (b"\xff", b"zz"),
    (b"!",),
]

TYPES = {"SOA": 6, "NS": 2, "A": 1, "TXT": 16, "CNAME": 5, "RRSIG": 46}
RDTEXT = {
    # targets outside both origins: the zone reader must not relativize them, so that the
    # rdata loaded from text and the rdata passed to a transaction are the same value
    "SOA": ["ns1.nic.test. hostmaster.nic.test. 1 7200 900 1209600 300"],
    "NS": ["ns1.nic.test.", "ns2.nic.test."],
    "A": ["10.0.0.1", "10.0.0.2"],
    "TXT": ['"t1"', '"t2"'],
    "CNAME": ["c1.nic.test.", "c2.nic.test."],
    # only signatures over CNAME are generated: CNAME-kind data like the CNAME itself (dns.node)
    "RRSIG": ["CNAME 8 2 300 20300101000000 20200101000000 1 nic.test. AAAA", "CNAME 8 2 300 20300101000000 20200101000000 2 nic.test. AAAA"],
}
TTL = 300

_cache = {}


def _labels(rel):
    return [x.encode("latin1") if isinstance(x, str) else x for x in rel]


def _rdata(tname, idx):
    k = ("rd", tname, idx)
    if k not in _cache:
        import dns.rdata

        _cache[k] = dns.rdata.from_text("IN", tname, RDTEXT[tname][idx])
    return _cache[k]


def _zone_cls(small_t):
    import dns.btree
    import dns.btreezone

    if not small_t:
        return dns.btreezone.Zone
    if "small" not in _cache:

        class SmallTVersion(dns.btreezone.WritableVersion):
            # the delegation index of a version that starts from nothing gets t=3 as well (a
            # version that copies another inherits its t), so that >5 cuts make it multi-level
            def __init__(self, zone, replacement=False):
                super().__init__(zone, replacement)
                if replacement:
                    self.delegations = dns.btreezone.Delegations(t=3)

        class SmallTZone(dns.btreezone.Zone):
            map_factory = staticmethod(lambda: dns.btree.BTreeDict(t=3))
            writable_version_factory = SmallTVersion

        _cache["small"] = SmallTZone
    return _cache["small"]


def _name(rel, origin_labels, absolute):
    import dns.name

    labs = _labels(rel)
    if absolute == 2:
        # absolute, with the origin part in the other letter case (names are case-insensitive)
        return dns.name.Name(labs + [l.swapcase() for l in origin_labels])
    return dns.name.Name(labs + origin_labels if absolute else labs)


def _key(rel, origin_labels):
    return W.name_key(_labels(rel) + origin_labels)


def _owner_text(rel, origin_labels, absolute):
    # pool labels are plain letters, digits and '*': no escaping needed
    labs = [l.decode("ascii") for l in _labels(rel)]
    if absolute:
        ol = [l.swapcase() if absolute == 2 else l for l in origin_labels[:-1]]
        return ".".join(labs + [l.decode("ascii") for l in ol]) + "."
    return ".".join(labs) if labs else "@"


def _show(key):
    return b".".join(reversed(key)).decode("latin1").encode("unicode_escape").decode() or "."


# ---------------------------------------------------------------------------
# content bookkeeping (documented Transaction semantics) -- state: {key: {rdtype: frozenset(rd_idx)}}


CNAME_T = 5
RRSIG_CNAME_T = 46


def _with(state, key, t, rds):
    post = dict(state)
    node = dict(post.get(key, {}))
    if rds:
        # CNAME and other data exclude each other (dns.node): storing CNAME drops the node's other
        # record sets (an NS set included: the name stops being a cut), storing anything else
        # drops CNAME
        if t in (CNAME_T, RRSIG_CNAME_T):
            node = {k: v for k, v in node.items() if k in (CNAME_T, RRSIG_CNAME_T)}
        else:
            node.pop(CNAME_T, None)
            node.pop(RRSIG_CNAME_T, None)
        node[t] = frozenset(rds)
    else:
        node.pop(t, None)
    if node:
        post[key] = node
    else:
        post.pop(key, None)
    return post


def _plan(state, key, op):
    """-> (low-level call the transaction will make or None, rdtype, post state)"""
    kind = op[0]
    node = state.get(key, {})
    if kind == "del_name":
        post = dict(state)
        post.pop(key, None)
        return "delnode", None, post
    t = TYPES[op[2]]
    if kind == "add" and t == CNAME_T:
        return "put", t, _with(state, key, t, {op[3]})  # singleton type: the new record replaces
    if kind == "add":
        return "put", t, _with(state, key, t, set(node.get(t, ())) | {op[3]})
    if kind == "replace":
        return "put", t, _with(state, key, t, {op[3]})
    if kind == "del_rd":
        if t not in node:
            return None, t, state
        rem = set(node[t]) - {op[3]}
        if rem:
            return "put", t, _with(state, key, t, rem)
        return "delrds", t, _with(state, key, t, None)
    if kind == "del_type":
        if t not in node:
            return None, t, state
        return "delrds", t, _with(state, key, t, None)
    raise AssertionError(f"unknown op {op!r}")


def _model(apex, state):
    return BM.Model(apex, {k: set(v) for k, v in state.items()})


class _Ctx:
    def __init__(self, case):
        self.origin_labels = list(ORIGINS[case["origin"]])
        self.apex = W.name_key(self.origin_labels)
        self.rel = bool(case["relativize"])
        self.classes = set()
        self.tainted = False  # D15 divergence happened (only ever set when EXCLUDE_D15)
        self.nested_seen = False
        self.cut_removed_glue_left = False
        self.q_compared = 0
        self.q_under_cut = False
        self.q_ce_apex = False


def _simulate(ctx, state, ops):
    """Interpret ops on the content model.  Returns (post_state, executed ops, taint, events);
    taint = a nested NS owner was promoted/demoted by a change elsewhere (D15)."""
    touched = set()
    taint = False
    executed = []
    events = set()
    m = _model(ctx.apex, state)
    for op in ops:
        key = _key(POOL[op[1]], ctx.origin_labels)
        if op[0] == "del_name" and key == ctx.apex:
            events.add("skipped:apex-delete")
            continue
        low, t, post = _plan(state, key, op)
        if low is None:
            executed.append(op)
            events.add("noop-delete")
            continue
        is_cut = key in m.cuts()
        if low in ("put", "delrds") and t != BM.NS and is_cut:
            if key not in touched and EXCLUDE_D14:
                events.add("excluded:D14")
                continue
            events.add("non-ns-change-at-cut" if key in touched else "non-ns-first-touch-of-cut")
        pm = _model(ctx.apex, post)
        pre_ns, post_ns = set(m.ns_owners()), set(pm.ns_owners())
        pre_cuts, post_cuts = set(m.cuts()), set(pm.cuts())
        for y in pre_ns & post_ns:
            if (y in pre_cuts) != (y in post_cuts):
                taint = True
                events.add("nested-ns-owner-promoted" if y in post_cuts else "nested-ns-owner-demoted")
        if is_cut and key not in post_ns and any(BM.is_proper_ancestor(key, k) for k in pm.names()):
            events.add("cut-removed-glue-left")
        if low == "delnode" and key in state:
            events.add("node-deletion")
            if is_cut:
                events.add("cut-node-deletion")
        if low == "delrds" and key not in post:
            events.add("last-rdataset-deleted")
        if op[0] == "replace":
            events.add("replace")
        if low == "put" and t == BM.NS and key != ctx.apex:
            if pm.is_glue(key):
                events.add("ns-put-below-cut")
            elif not is_cut:
                events.add("cut-created")
                if any(BM.is_proper_ancestor(key, k) for k in pm.names()):
                    events.add("cut-created-above-existing-names")
        if low == "delrds" and t == BM.NS and is_cut:
            events.add("cut-ns-removed")
        if low == "put" and t in (CNAME_T, RRSIG_CNAME_T) and is_cut:
            events.add("cname-put-at-cut")
            if t == RRSIG_CNAME_T:
                events.add("rrsig-cname-put-at-cut")
        if key == ctx.apex and t == BM.NS:
            events.add("apex-ns-change")
        if low == "put" and key not in state and pm.is_glue(key):
            events.add("new-name-below-cut")
        if low in ("put", "delrds"):
            touched.add(key)
        else:
            touched.discard(key)
        executed.append(op)
        state, m = post, pm
    return state, executed, taint, events


# ---------------------------------------------------------------------------
# driving the code under test


def _apply_ops(ctx, txn, ops):
    for op in ops:
        kind = op[0]
        if op[-1] == 2 and op[1] == 0 and not ctx.rel and op[2] != "SOA":
            ctx.classes.add("apex-written-in-other-case:absolute-zone")
        name = _name(POOL[op[1]], ctx.origin_labels, op[-1])
        if kind == "add":
            if op[2] == "SOA":
                # SOA owner must be spelled as the effective origin (DESIGN section 4 item 5)
                name = _name((), ctx.origin_labels, not ctx.rel)
            txn.add(name, TTL, _rdata(op[2], op[3]))
        elif kind == "replace":
            txn.replace(name, TTL, _rdata(op[2], op[3]))
        elif kind == "del_rd":
            txn.delete(name, _rdata(op[2], op[3]))
        elif kind == "del_type":
            txn.delete(name, op[2])
        elif kind == "del_name":
            txn.delete(name)
        else:
            raise AssertionError(f"unknown op {op!r}")


def _load(ctx, case, ops, via):
    """build a fresh zone from add-ops in the given order"""
    import dns.name
    import dns.zone

    cls = _zone_cls(case.get("small_t"))
    origin = dns.name.Name(ctx.origin_labels)
    if via == "text":
        lines = []
        in_text = bool(case.get("origin_in_text"))
        if in_text and not ctx.rel:
            if EXCLUDE_N1:
                ctx.classes.add("excluded:N1")
                in_text = False
            else:
                ctx.classes.add("origin-in-text-absolute")
        if in_text:
            ctx.classes.add("origin-in-text")
            lines.append("$ORIGIN " + _owner_text((), ctx.origin_labels, True))
        for op in ops:
            lines.append(
                f"{_owner_text(POOL[op[1]], ctx.origin_labels, op[-1])} {TTL} IN {op[2]} "
                f"{RDTEXT[op[2]][op[3]]}"
            )
        return dns.zone.from_text(
            "\n".join(lines) + "\n",
            origin=None if in_text else origin,
            relativize=ctx.rel,
            zone_factory=cls,
        )
    zone = cls(origin, relativize=ctx.rel)
    if EXCLUDE_N2:
        # a plain writer() on a freshly constructed zone raises (and leaks the write lock)
        ctx.classes.add("excluded:N2")
    with zone.writer(replacement=bool(EXCLUDE_N2)) as txn:
        _apply_ops(ctx, txn, ops)
    return zone


def _resolve_query(ctx, q):
    """-> absolute label list of the query name, or None if it cannot be built"""
    import dns.exception
    import dns.name

    kind = q[0]
    o = ctx.origin_labels
    if kind == "pool":
        return _labels(QPOOL[q[1]]) + o
    if kind == "lit":
        return list(LITS[q[1]]) + o
    if kind == "child":
        return [QLABELS[q[2]]] + _labels(QPOOL[q[1]]) + o
    if kind == "sib":
        rel = _labels(QPOOL[q[1]])
        if not rel:
            return None
        return [QLABELS[q[2]]] + rel[1:] + o
    if kind in ("pred", "succ"):
        n = dns.name.Name(_labels(QPOOL[q[1]]) + o)
        origin = dns.name.Name(o)
        r = n.predecessor(origin, bool(q[2])) if kind == "pred" else n.successor(origin, bool(q[2]))
        labs = list(r.labels)
        if not r.is_absolute() or not BM.is_at_or_below(W.name_key(labs), ctx.apex):
            return None
        return labs
    raise AssertionError(f"unknown query {q!r}")


def _observe(zone):
    with zone.reader() as r:
        return r.version


def _derived(v, origin):
    """(ordered keys, {key: flags}, {key: rdtypes}, ordered delegation keys) of a version"""
    from vlib.zoneutil import owner_key

    keys, flags, types = [], {}, {}
    for name, node in v.nodes.items():
        k = owner_key(name, origin)
        keys.append(k)
        flags[k] = int(node.flags)
        types[k] = {int(rds.rdtype) for rds in node.rdatasets}
    delegs = [owner_key(n, origin) for n in v.delegations]
    return keys, flags, types, delegs


def _check_version(ctx, v, m, queries, where):
    import dns.name
    from vlib.zoneutil import owner_key

    origin = dns.name.Name(ctx.origin_labels)
    keys, flags, types, delegs = _derived(v, origin)
    want_names = m.names()
    if keys != want_names:
        if sorted(keys) == want_names:
            raise Violation(
                "order",
                f"{where}: version.nodes iterates {[_show(k) for k in keys]}, canonical order is "
                f"{[_show(k) for k in want_names]}",
                "iteration-order",
            )
        raise Violation(
            "content",
            f"{where}: names {[_show(k) for k in keys]} != model {[_show(k) for k in want_names]}",
            "names",
        )
    if types != m.content:
        raise Violation("content", f"{where}: rdtypes per name {types} != model {m.content}", "types")
    if [n for n in v.nodes.keys()] != [n for n in v.nodes]:
        raise Violation("order", f"{where}: keys() and iteration disagree", "keys")
    want_flags = m.flags()
    # the ORIGIN bit is compared even in a D15-diverged history
    for k in want_names:
        if (flags[k] ^ want_flags[k]) & BM.ORIGIN:
            raise Violation(
                "flags",
                f"{where}: {_show(k)} has flags {BM.flag_names(flags[k])}, definition says "
                f"{BM.flag_names(want_flags[k])}",
                "ORIGIN",
            )
    if ctx.tainted:
        return
    for k in want_names:
        if flags[k] != want_flags[k]:
            raise Violation(
                "flags",
                f"{where}: {_show(k)} has flags {BM.flag_names(flags[k])}, definition says "
                f"{BM.flag_names(want_flags[k])}; content {[(_show(n), sorted(m.content[n])) for n in want_names]}",
                f"want={BM.flag_names(want_flags[k])} got={BM.flag_names(flags[k])}",
            )
        ctx.classes.add("flag:" + BM.flag_names(flags[k]))
    for k, node in v.nodes.items():
        f = int(node.flags)
        if (
            node.is_origin() != bool(f & BM.ORIGIN)
            or node.is_delegation() != bool(f & BM.DELEGATION)
            or node.is_glue() != bool(f & BM.GLUE)
            or node.is_origin_or_glue() != bool(f & (BM.ORIGIN | BM.GLUE))
        ):
            raise Violation("flags", f"{where}: Node.is_*() disagree with Node.flags at {k}", "accessors")
    want_cuts = m.cuts()
    if delegs != want_cuts:
        missing = [c for c in want_cuts if c not in delegs]
        extra = [c for c in delegs if c not in want_cuts]
        raise Violation(
            "delegations",
            f"{where}: delegation index {[_show(k) for k in delegs]}, definition says "
            f"{[_show(k) for k in want_cuts]}",
            "missing" if missing else ("extra" if extra else "order"),
        )
    if m.nested_ns_owners():
        ctx.nested_seen = True
        ctx.classes.add("nested-cut")
    if want_cuts:
        ctx.classes.add("has-cut")
        root = getattr(v.delegations, "root", None)
        if root is not None and not root.is_leaf:
            ctx.classes.add("multi-level-delegation-index")

    apex = ctx.apex
    for q in queries:
        labs = _resolve_query(ctx, q)
        if labs is None:
            ctx.classes.add("query-unbuildable")
            continue
        qk = W.name_key(labs)
        rel_labs = labs[: len(labs) - len(ctx.origin_labels)]
        qname = dns.name.Name(labs if q[-1] & 1 else rel_labs)
        qarg = qname.to_text() if q[-1] & 2 else qname  # bounds() documents Name or str
        stored = dns.name.Name(rel_labs if ctx.rel else labs)  # the zone's own relativity
        mb = m.bounds(qk)
        tag = f"{where}: bounds({qname})"

        got_cut, got_sub = v.delegations.get_delegation(stored)
        want_pair = (mb.cut, mb.cut is not None and mb.cut != qk)
        got_pair = (None if got_cut is None else owner_key(got_cut, origin), got_sub)
        if got_pair != want_pair:
            raise Violation(
                "delegations",
                f"{where}: get_delegation({stored}) = {got_cut},{got_sub}; definition says "
                f"{None if mb.cut is None else _show(mb.cut)},{want_pair[1]}",
                "get_delegation",
            )
        if v.delegations.is_glue(stored) != want_pair[1]:
            raise Violation("delegations", f"{where}: is_glue({stored}) != {want_pair[1]}", "is_glue")

        b = v.bounds(qarg)
        ctx.q_compared += 1
        if owner_key(b.name, origin) != qk:
            raise Violation("bounds", f"{tag}: .name is {b.name}", "name")
        # left
        got_left = owner_key(b.left, origin)
        d17 = mb.cut is None and m.is_glue(mb.full_pred)
        if d17 and EXCLUDE_D17:
            ctx.classes.add("excluded:D17")
        elif got_left != mb.left:
            raise Violation(
                "bounds",
                f"{tag}: left = {b.left}; greatest non-occluded name <= q is {_show(mb.left)}"
                + (" (the returned name is occluded glue)" if m.is_glue(got_left) else ""),
                "left:occluded" if got_left in want_flags and m.is_glue(got_left) else "left",
            )
        else:
            if d17:
                ctx.classes.add("bounds:pred-is-glue-of-earlier-cut")
        # right
        got_right = None if b.right is None else owner_key(b.right, origin)
        if got_right != mb.right:
            raise Violation(
                "bounds",
                f"{tag}: right = {b.right}; least non-occluded name > q is "
                f"{None if mb.right is None else _show(mb.right)}",
                "right:occluded" if got_right in want_flags and m.is_glue(got_right) else "right",
            )
        # closest encloser
        got_ce = owner_key(b.closest_encloser, origin)
        d16 = ctx.rel and mb.closest_encloser == apex and qk != apex
        if d16 and EXCLUDE_D16:
            ctx.classes.add("excluded:D16")
        elif got_ce != mb.closest_encloser:
            raise Violation(
                "bounds",
                f"{tag}: closest_encloser = {b.closest_encloser}; definition says "
                f"{_show(mb.closest_encloser)} (names: {[_show(k) for k in m.visible()]})",
                "closest_encloser:apex-relativized" if d16 else "closest_encloser",
            )
        if b.is_equal != mb.is_equal:
            raise Violation("bounds", f"{tag}: is_equal = {b.is_equal}, left == name is {mb.is_equal}", "is_equal")
        if b.is_delegation != mb.is_delegation:
            raise Violation(
                "bounds",
                f"{tag}: is_delegation = {b.is_delegation}, name at/below a cut: {mb.is_delegation}",
                "is_delegation",
            )
        # statistics
        if mb.right is None:
            ctx.classes.add("bounds:right=None")
        ctx.classes.add("bounds:is_equal" if mb.is_equal else "bounds:not_equal")
        if mb.is_delegation:
            ctx.classes.add("bounds:is_delegation")
            if mb.cut != qk:
                ctx.q_under_cut = True
                ctx.classes.add("bounds:under-cut")
            else:
                ctx.classes.add("bounds:at-cut")
        elif mb.left in want_cuts:
            ctx.classes.add("bounds:left-is-cut-but-q-outside")
        if mb.closest_encloser == apex and qk != apex:
            ctx.q_ce_apex = True
            ctx.classes.add("bounds:ce-apex")
        if mb.closest_encloser not in want_flags:
            ctx.classes.add("bounds:ce-empty-non-terminal")
        if mb.closest_encloser != qk and mb.closest_encloser != apex and mb.cut is None:
            ctx.classes.add("bounds:ce-interior")
        if qk in want_flags and m.is_glue(qk):
            ctx.classes.add("bounds:q-is-existing-glue")


def _snapshot(v, origin):
    keys, flags, types, delegs = _derived(v, origin)
    return (tuple(keys), tuple(sorted(flags.items())), tuple(delegs))


def _initial_state():
    return {}


def _finish(ctx):
    nontrivial = bool(
        (ctx.nested_seen or ctx.cut_removed_glue_left)
        and ctx.q_compared >= 10
        and ctx.q_under_cut
        and ctx.q_ce_apex
    )
    ctx.classes.add("relativized" if ctx.rel else "absolute")
    return {"nontrivial": nontrivial, "classes": sorted(ctx.classes)}


def _note(ctx, events, taint, committed=True):
    for e in events:
        ctx.classes.add(e)
    if taint and committed:
        if EXCLUDE_D15:
            ctx.tainted = True
            ctx.classes.add("excluded:D15")
        else:
            ctx.classes.add("nested-promotion-compared")
    if committed and not ctx.tainted and "cut-removed-glue-left" in events:
        ctx.cut_removed_glue_left = True


# ---------------------------------------------------------------------------
# part: loads


def run_loads(case):
    base = _Ctx(case)
    records = case["records"]
    agg = None
    results = []
    for pi, perm in enumerate(case["perms"]):
        ctx = _Ctx(case)
        ops = [["add"] + list(records[i]) for i in perm["order"]]
        state, executed, taint, events = _simulate(ctx, _initial_state(), ops)
        _note(ctx, events, taint)
        zone = _load(ctx, case, executed, perm["via"])
        ctx.classes.add("via:" + perm["via"])
        m = _model(ctx.apex, state)
        if agg is None:
            agg = m
        elif (m.names(), m.flags(), m.cuts()) != (agg.names(), agg.flags(), agg.cuts()):
            raise AssertionError("harness: permutations of one multiset gave different models")
        v = _observe(zone)
        _check_version(ctx, v, m, case["queries"], f"load#{pi} via {perm['via']}")
        ctx.classes.add("load-permutation-compared" if not ctx.tainted else "load-permutation-d15")
        results.append(ctx)
    # fold the per-permutation contexts
    for c in results:
        base.classes |= c.classes
        base.nested_seen |= c.nested_seen
        base.q_compared = max(base.q_compared, c.q_compared)
        base.q_under_cut |= c.q_under_cut
        base.q_ce_apex |= c.q_ce_apex
    if len({tuple(p["order"]) for p in case["perms"]}) >= 2:
        base.classes.add("load-permutations>=2")
    if case.get("small_t"):
        base.classes.add("small_t")
    # loads have no removals: non-trivial needs a nested cut in a fully compared permutation
    return _finish(base)


# ---------------------------------------------------------------------------
# part: histories


def run_history(case):
    import dns.name

    ctx = _Ctx(case)
    origin = dns.name.Name(ctx.origin_labels)
    ops = [["add"] + list(r) for r in case["records"]]
    state, executed, taint, events = _simulate(ctx, _initial_state(), ops)
    _note(ctx, events, taint)
    zone = _load(ctx, case, executed, case["via"])
    ctx.classes.add("via:" + case["via"])
    if case.get("small_t"):
        ctx.classes.add("small_t")
    queries = case["queries"]
    v = _observe(zone)
    _check_version(ctx, v, _model(ctx.apex, state), queries, "after load")
    prev = (v, _snapshot(v, origin))
    for ti, txn_d in enumerate(case["txns"]):
        rollback = bool(txn_d.get("rollback"))
        replacement = bool(txn_d.get("replacement"))
        if replacement:
            # a replacement transaction starts from an empty zone; the apex is always rebuilt
            ops = [["add"] + _SOA, ["add", 0, "NS", 0, 0]] + txn_d["ops"]
            post, executed, taint, events = _simulate(ctx, _initial_state(), ops)
        else:
            post, executed, taint, events = _simulate(ctx, state, txn_d["ops"])
        txn = zone.writer(replacement)
        try:
            _apply_ops(ctx, txn, executed)
        except BaseException:
            txn.rollback()
            raise
        if rollback:
            txn.rollback()
            ctx.classes.add("rollback")
        else:
            txn.commit()
            if replacement:
                # nodes and index are rebuilt from scratch: an earlier D15 divergence is gone
                ctx.tainted = False
                ctx.classes.add("replacement-txn")
            _note(ctx, events, taint)
            state = post
        # the previously committed version is a snapshot: its derived state must not move
        if _snapshot(prev[0], origin) != prev[1]:
            raise Violation(
                "snapshot",
                f"txn#{ti}: flags/index of the previously committed version changed after a later "
                f"transaction {'rolled back' if rollback else 'committed'}",
                "rollback" if rollback else "commit",
            )
        v = _observe(zone)
        _check_version(ctx, v, _model(ctx.apex, state), queries, f"after txn#{ti}" + (" (rolled back)" if rollback else ""))
        prev = (v, _snapshot(v, origin))
    if ctx.tainted:
        ctx.classes.add("history-d15-diverged")
    else:
        ctx.classes.add("history-fully-compared")
    return _finish(ctx)


# ---------------------------------------------------------------------------
# strategies

# weights: the two cut families first
_W = {
    1: 8, 2: 8, 3: 5, 4: 6, 5: 5, 6: 4, 7: 4, 8: 3, 9: 2, 10: 2, 11: 1, 12: 1, 13: 2, 14: 2, 15: 1,
    16: 1, 17: 1, 18: 3, 19: 2, 20: 2, 21: 2, 22: 2, 23: 1, 24: 2, 25: 1, 0: 3,
}
_NAMES = [i for i, w in sorted(_W.items()) for _ in range(w)]
_TYPES = ["NS"] * 5 + ["A"] * 3 + ["TXT"] * 2


@st.composite
def _focus(draw):
    fam = draw(st.sampled_from(["a", "d", "mixed", "mixed"]))
    if fam == "a":
        base = [1, 2, 3, 6, 7, 9, 10, 13, 14, 15, 16, 18]
    elif fam == "d":
        base = [4, 5, 8, 12, 17, 20, 21]
    else:
        base = list(range(1, len(POOL)))
    n = draw(st.integers(2, 6))
    picked = [draw(st.sampled_from(base)) for _ in range(n)]
    return picked


def _name_idx(focus):
    return st.one_of(st.sampled_from(focus), st.sampled_from(focus), st.sampled_from(focus), st.sampled_from(_NAMES))


def _record(focus):
    return st.tuples(_name_idx(focus), st.sampled_from(_TYPES), st.integers(0, 1), st.sampled_from([0, 1, 1, 2])).map(list)


def _op(focus):
    ni = _name_idx(focus)
    ty = st.sampled_from(_TYPES)
    rd = st.integers(0, 1)
    sp = st.sampled_from([0, 1, 1, 2])
    return st.one_of(
        st.tuples(st.just("add"), ni, ty, rd, sp),
        st.tuples(st.just("add"), ni, ty, rd, sp),
        st.tuples(st.just("add"), ni, ty, rd, sp),
        st.tuples(st.just("replace"), ni, ty, rd, sp),
        st.tuples(st.just("del_rd"), ni, ty, rd, sp),
        st.tuples(st.just("del_type"), ni, ty, sp),
        st.tuples(st.just("del_type"), ni, st.just("NS"), sp),
        st.tuples(st.just("del_name"), ni, sp),
    ).map(list)


@st.composite
def _txn(draw, focus, maxops):
    ops = draw(st.lists(_op(focus), min_size=1, max_size=maxops))
    k = draw(st.integers(0, 5))
    if k == 0:
        # NS touch then a non-NS change at the same name: the only way to change a non-NS
        # record at a cut while D14 is excluded
        n = draw(st.sampled_from(focus))
        ops = ops + [
            ["add", n, "NS", draw(st.integers(0, 1)), draw(st.integers(0, 1))],
            [draw(st.sampled_from(["add", "replace", "del_rd"])), n, draw(st.sampled_from(["A", "TXT"])), draw(st.integers(0, 1)), draw(st.integers(0, 1))],
        ]
    if k == 1:
        # CNAME stored at a (former or future) cut: the node's NS set goes away implicitly
        n = draw(st.sampled_from([f for f in focus if f != 0] or [1]))
        ops = ops + [
            ["add", n, "NS", draw(st.integers(0, 1)), draw(st.integers(0, 1))],
            [draw(st.sampled_from(["add", "replace"])), n, draw(st.sampled_from(["CNAME", "CNAME", "RRSIG"])), draw(st.integers(0, 1)), draw(st.integers(0, 1))],
        ] + ([["add", n, draw(st.sampled_from(["NS", "A"])), 0, 0]] if draw(st.booleans()) else [])
    return {
        "ops": ops,
        "rollback": draw(st.integers(0, 7)) == 0,
        "replacement": draw(st.integers(0, 9)) == 0,
    }


def _query():
    qi = st.integers(0, len(QPOOL) - 1)
    sp = st.sampled_from([0, 1, 0, 1, 2, 3])
    lab = st.integers(0, len(QLABELS) - 1)
    return st.one_of(
        st.tuples(st.just("pool"), qi, sp),
        st.tuples(st.just("pool"), qi, sp),
        st.tuples(st.just("pred"), qi, st.integers(0, 1), sp),
        st.tuples(st.just("succ"), qi, st.integers(0, 1), sp),
        st.tuples(st.just("child"), qi, lab, sp),
        st.tuples(st.just("child"), qi, lab, sp),
        st.tuples(st.just("sib"), qi, lab, sp),
        st.tuples(st.just("lit"), st.integers(0, len(LITS) - 1), sp),
    ).map(list)


@st.composite
def _queries(draw, focus, lo, hi):
    qs = draw(st.lists(_query(), min_size=lo, max_size=hi))
    # always: the apex, a name before the apex's first child, a name after the last name,
    # and a name under the first focus name (frequently a cut)
    qs += [["pool", 0, draw(st.integers(0, 1))], ["lit", 0, 1], ["lit", 1, 0]]
    f = draw(st.sampled_from(focus))
    qs.append(["child", f, draw(st.integers(0, len(QLABELS) - 1)), draw(st.integers(0, 1))])
    return qs


_SOA = [0, "SOA", 0, 0]
# pairwise non-nested pool names: NS at 7-13 of them gives a delegation index of that many cuts,
# which under small_t (Delegations(t=3), at most 5 keys a node) is a multi-level tree
WIDE = [3, 6, 9, 5, 8, 12, 21, 11, 22, 23, 25, 19, 18]


@st.composite
def _wide(draw, case):
    """every 5th case: many sibling cuts + a query beneath each of them"""
    if draw(st.integers(0, 4)) != 0:
        return [], []
    case["small_t"] = True
    chosen = draw(st.lists(st.sampled_from(WIDE), min_size=7, max_size=len(WIDE), unique=True))
    recs = [[i, "NS", draw(st.integers(0, 1)), 0] for i in chosen]
    qs = [["child", i, draw(st.integers(0, len(QLABELS) - 1)), draw(st.integers(0, 1))] for i in chosen]
    return recs, qs


@st.composite
def _common(draw):
    return {
        "origin": draw(st.sampled_from([0, 0, 1])),
        "relativize": draw(st.booleans()),
        "small_t": draw(st.booleans()),
        "origin_in_text": draw(st.integers(0, 3)) == 0,
    }


@st.composite
def load_cases(draw, maxrec):
    case = draw(_common())
    focus = draw(_focus())
    recs = draw(st.lists(_record(focus), min_size=3, max_size=maxrec))
    recs += [_SOA, [0, "NS", 0, draw(st.sampled_from([0, 1, 2]))]]
    wrecs, wqs = draw(_wide(case))
    recs += wrecs
    n = len(recs)
    nperm = draw(st.integers(2, 4))
    perms = []
    for _ in range(nperm):
        perms.append(
            {"order": list(draw(st.permutations(list(range(n))))), "via": draw(st.sampled_from(["text", "txn"]))}
        )
    case["records"] = recs
    case["perms"] = perms
    case["queries"] = draw(_queries(focus, 7, 20)) + wqs
    return case


@st.composite
def history_cases(draw, maxrec, maxtxn, maxops):
    case = draw(_common())
    focus = draw(_focus())
    recs = draw(st.lists(_record(focus), min_size=1, max_size=maxrec))
    recs += [_SOA, [0, "NS", 0, draw(st.sampled_from([0, 1, 2]))]]
    wrecs, wqs = draw(_wide(case))
    recs = list(draw(st.permutations(recs + wrecs)))
    case["records"] = recs
    case["via"] = draw(st.sampled_from(["text", "txn"]))
    case["txns"] = draw(st.lists(_txn(focus, maxops), min_size=1, max_size=maxtxn))
    case["queries"] = draw(_queries(focus, 7, 29)) + wqs
    return case


def parts(tier):
    quick = tier == "quick"
    return [
        Part(
            "loads",
            run_loads,
            strategy=load_cases(12 if quick else 18),
            n={"quick": 2000, "thorough": 100000},
            require={
                "load-permutations>=2": 200,
                "load-permutation-compared": 200,
                "via:text": 100,
                "via:txn": 100,
                "relativized": 100,
                "absolute": 100,
                "flag:ORIGIN": 200,
                "flag:DELEGATION": 100,
                "flag:GLUE": 50,
                "flag:NONE": 100,
                "nested-cut": 20,
                "multi-level-delegation-index": 100,
                "apex-written-in-other-case:absolute-zone": 40,
                "bounds:right=None": 100,
                "bounds:is_equal": 100,
                "bounds:not_equal": 100,
                "bounds:is_delegation": 100,
                "bounds:under-cut": 50,
                "bounds:ce-apex": 100,
                "bounds:ce-empty-non-terminal": 10,
                "__nontrivial__": 20,
            },
        ),
        Part(
            "histories",
            run_history,
            strategy=history_cases(10 if quick else 14, 7 if quick else 10, 5 if quick else 7),
            n={"quick": 3000, "thorough": 150000},
            require={
                "history-fully-compared": 200,
                "relativized": 200,
                "absolute": 200,
                "flag:ORIGIN": 200,
                "flag:DELEGATION": 200,
                "flag:GLUE": 100,
                "flag:NONE": 200,
                "nested-cut": 30,
                "multi-level-delegation-index": 100,
                "apex-written-in-other-case:absolute-zone": 40,
                "cut-removed-glue-left": 50,
                "non-ns-change-at-cut": 20,
                "cut-created-above-existing-names": 50,
                "cut-ns-removed": 50,
                "cname-put-at-cut": 20,
                "rrsig-cname-put-at-cut": 5,
                "ns-put-below-cut": 30,
                "new-name-below-cut": 30,
                "node-deletion": 100,
                "cut-node-deletion": 20,
                "last-rdataset-deleted": 100,
                "replace": 100,
                "rollback": 50,
                "replacement-txn": 50,
                "bounds:right=None": 200,
                "bounds:is_equal": 200,
                "bounds:not_equal": 200,
                "bounds:is_delegation": 200,
                "bounds:under-cut": 100,
                "bounds:at-cut": 50,
                "bounds:ce-apex": 200,
                "bounds:ce-empty-non-terminal": 20,
                "__nontrivial__": 50,
            },
        ),
    ]
