"""C08  Rendered messages respect the size limit; truncation and padding are exact."""

from hypothesis import strategies as st

from vlib.gen import messages as MG
from vlib.gen import names as G
from vlib.ref import tsig_ref as T
from vlib.ref import wire as W
from vlib.runner import Part, Violation

ID = "C08"
LEVEL = "fault_enumeration"
TECHNIQUE = (
    "property-based testing with limit sweeps: generated messages rendered under every size limit "
    "around each record-set boundary (quick) or every limit from 512 to the full size (thorough), "
    "with/without truncation preference, EDNS options, TSIG and padding; oracle = re-parse, prefix "
    "comparison with the unlimited rendering, independent walker for counts and pointers"
)
LEVEL_TEXT = (
    "For each generated message and each swept limit: length <= effective limit, TooBig only without "
    "truncation preference, truncated output parses, holds a prefix of complete record sets in "
    "section order, TC iff something before the additional section was dropped, OPT/TSIG kept and "
    "TSIG validates, header counts match, no pointer into removed bytes, padded length (TSIG "
    "included) is a multiple of the block size, inclusion monotone in the limit. Search + per-message "
    "enumeration of limits; not a proof."
)
RULE = (
    "cases: message descriptor (multi-RR sets, shared suffixes so later names point into earlier sets) "
    "+ EDNS options + optional TSIG (key name sharing / not sharing a suffix with message names; 9 "
    "algorithms) + pad in {0,1,16,128,468} + a limit list (boundary -1/0/+1 of every record set; "
    "thorough: all limits 512..len+2; limits < 512 behave as 512). Each (message, limit, "
    "prefer_truncation) is one evaluation. non-trivial = the limit dropped >= 1 record set (or raised "
    "TooBig) while >= 1 was kept, or padding with TSIG present"
    ' Every case additionally renders with padding blocks 2..64 at the unlimited size (alignment coincidences).'
)
RULE += (
    " Round 10 added: every swept limit also applied as request_payload=L with max_size=0."
)
ASSUMPTIONS = [
    "vlib/ref/wire.py (independent walker) and vlib/ref/tsig_ref.py are trusted",
    "the clock read by dns.message is a fake time object for the duration of a case",
    "TooBig with truncation preferred is accepted only when OPT+TSIG+header alone exceed the limit",
]

NOW = 1700000000


class _Clock:
    def time(self):
        return NOW


def _flatten(m):
    """[(section, key, frozenset(rdata wires), count)] in section order (question excluded)"""
    out = []
    for si in (1, 2, 3):
        for rr in m.sections[si]:
            name = rr.name if rr.name.is_absolute() or m.origin is None else rr.name.derelativize(m.origin)
            out.append(
                (
                    si,
                    (W.name_key(name.labels), int(rr.deleting) if rr.deleting is not None else int(rr.rdclass), int(rr.rdtype), int(rr.covers)),
                    frozenset(bytes(rd.to_wire(origin=m.origin)).lower() for rd in rr),
                    max(1, len(rr)),
                )
            )
    return out


def run(case):
    import dns.exception
    import dns.flags
    import dns.message
    import dns.name
    import dns.tsig

    old_time = dns.message.time
    dns.message.time = _Clock()
    try:
        return _run(case)
    finally:
        dns.message.time = old_time


def _build(case):
    import dns.name
    import dns.tsig

    m = MG.build(case["msg"])
    key = None
    pad = case["pad"]
    if pad or case["msg"].get("edns") is not None:
        if m.opt is None:
            m.use_edns(edns=0, payload=1232, pad=pad)
        else:
            m.pad = pad
    if case.get("key") is not None:
        kd = case["key"]
        alg = dns.name.Name(T.ALG_LIST[kd["alg"] % len(T.ALG_LIST)])
        key = dns.tsig.Key(dns.name.Name(G.unhexl(kd["name"])), bytes.fromhex(kd["secret"]), alg)
        m.use_tsig(key, other_data=bytes.fromhex(kd.get("other", "")))
    return m, key


def _run(case):
    import dns.exception
    import dns.flags
    import dns.message

    m, key = _build(case)
    pad = case["pad"]
    origin = m.origin
    try:
        full = m.to_wire(max_size=65535, want_shuffle=False)
    except dns.exception.TooBig:
        return {"nontrivial": False, "classes": ["toobig-at-65535"]}
    orig = _flatten(m)
    nq = len(m.question)
    try:
        wfull = W.walk_message(full)
    except W.WireError as e:
        raise Violation("walker", f"cannot walk the unlimited rendering: {e}", "walker-full")
    # limits: boundaries of every RR end in the full rendering, shifted by nothing (reserve is
    # internal): sweep -2..+2 around each plus the caller's extra limits
    limits = set(case["limits"])
    reserve = len(full) - max([12] + [r.end for r in wfull.rrs if r.rdtype not in (W.OPT, W.TSIG)] + [q[0].end + 4 for q in wfull.questions])
    if case.get("sweep"):
        limits.update(range(500, len(full) + 3))
    else:
        ends = sorted({r.end for r in wfull.rrs} | {q[0].end + 4 for q in wfull.questions})
        for e in ends:
            for d in (-1, 0, 1):
                limits.add(e + reserve + d)
                limits.add(e + d)
    limits = sorted(l for l in limits if 0 < l <= 65535)
    classes = set()
    nontrivial = False
    included_by_limit = []
    evals = 0
    opt_configured = m.opt is not None
    for L in limits:
        eff = max(L, 512)
        for P in (True, False):
            mm, key = _build(case)
            evals += 1
            if opt_configured and 512 <= L <= 65535 and mm.payload != L:
                # the limit may also come from the message: max_size=0 means "what the peer said it
                # can take" (request_payload), not what this side advertises (payload)
                m0, _ = _build(case)
                m0.request_payload = L
                try:
                    w0 = m0.to_wire(max_size=0, prefer_truncation=P, want_shuffle=False)
                except dns.exception.TooBig:
                    w0 = None
                try:
                    wx = mm.to_wire(max_size=L, prefer_truncation=P, want_shuffle=False)
                except dns.exception.TooBig:
                    wx = None
                if (w0 is None) != (wx is None) or (w0 is not None and len(w0) != len(wx)):
                    raise Violation("limit", f"request_payload {L} (advertised payload {mm.payload}), max_size=0, prefer_truncation={P}: {'TooBig' if w0 is None else str(len(w0)) + ' octets'}; with max_size={L}: {'TooBig' if wx is None else str(len(wx)) + ' octets'}", "request-payload-limit")
                classes.add("limit-from-request-payload")
                mm, key = _build(case)
            try:
                w = mm.to_wire(max_size=L, prefer_truncation=P, want_shuffle=False)
            except dns.exception.TooBig:
                # the TSIG reserve is an estimate with the uncompressed owner name (documented in
                # _compute_tsig_reserve), and padding can cost up to pad-1 octets
                slack = (255 if key is not None else 0) + (pad if pad else 0)
                if P:
                    # only legitimate when OPT + TSIG + header cannot fit at all
                    if 12 + reserve + slack <= eff:
                        raise Violation("limit", f"limit {L}: TooBig although truncation was preferred (reserve {reserve})", "toobig-with-truncation")
                    classes.add("toobig-reserve")
                else:
                    if len(full) + slack <= eff:
                        raise Violation("limit", f"limit {L}: TooBig although the full message ({len(full)}) fits", "toobig-fits")
                    classes.add("toobig")
                    if orig:
                        nontrivial = True
                continue
            if len(w) > eff:
                raise Violation("limit", f"limit {L} (effective {eff}), prefer_truncation={P}: rendered {len(w)} octets", "over-limit")
            if not P:
                if w != full:
                    raise Violation("limit", f"limit {L}: no truncation requested but the output differs from the unlimited rendering", "differs-from-full")
                continue
            # P=True: parse, prefix, TC, counts, pointers
            try:
                p = dns.message.from_wire(w, origin=origin, keyring=key)
            except dns.exception.DNSException as e:
                raise Violation("truncate", f"limit {L}: truncated output does not parse: {type(e).__name__}: {e}", "unparseable:" + type(e).__name__)
            try:
                wm = W.walk_message(w)
                W.check_pointers(w, wm)
            except W.WireError as e:
                raise Violation("truncate", f"limit {L}: independent walker rejects the truncated output: {e}", "walker:" + str(e).split(" ")[0])
            if wm.end != len(w):
                raise Violation("truncate", f"limit {L}: trailing octets", "trailing")
            counts = [len(wm.questions)] + [len([r for r in wm.rrs if r.section == s]) for s in (1, 2, 3)]
            if list(wm.counts) != counts:
                raise Violation("truncate", f"limit {L}: header counts {wm.counts} but records present {counts}", "counts")
            got = _flatten(p)
            k = len(got)
            if got != orig[:k]:
                # find why
                for i, (g, o) in enumerate(zip(got, orig)):
                    if g != o:
                        why = "partial" if g[1] == o[1] and g[0] == o[0] else "not-a-prefix"
                        raise Violation("truncate", f"limit {L}: record set #{i} differs from the original ({why}): {g!r} vs {o!r}", "prefix:" + why)
                raise Violation("truncate", f"limit {L}: more record sets than the original", "prefix:extra")
            dropped_q = len(p.question) < nq
            if len(p.question) not in (nq, 0) and len(p.question) > nq:
                raise Violation("truncate", "question count grew", "question")
            first_omitted_section = None
            if dropped_q:
                first_omitted_section = 0
            elif k < len(orig):
                first_omitted_section = orig[k][0]
            tc = bool(p.flags & dns.flags.TC)
            want_tc = first_omitted_section is not None and first_omitted_section < 3
            if tc != want_tc:
                raise Violation("truncate", f"limit {L}: TC={tc} but first omitted section is {first_omitted_section}", f"tc:{tc}")
            if opt_configured and p.opt is None:
                raise Violation("truncate", f"limit {L}: the configured OPT record is missing", "opt-missing")
            if opt_configured and (p.edns, p.payload, p.ednsflags) != (mm.edns, mm.payload, mm.ednsflags):
                raise Violation("truncate", f"limit {L}: EDNS state (version, payload, flags) {(p.edns, p.payload, hex(p.ednsflags))} differs from the configured {(mm.edns, mm.payload, hex(mm.ednsflags))}", "edns-state")
            if key is not None and not p.had_tsig:
                raise Violation("truncate", f"limit {L}: the configured TSIG record is missing", "tsig-missing")
            if pad:
                if len(w) % pad != 0:
                    raise Violation("padding", f"limit {L}: pad={pad} but final length {len(w)} (TSIG {'present' if key else 'absent'}) is not a multiple", "pad-length" + (":tsig" if key else ""))
                npad = len([o for o in p.options if int(o.otype) == 12])
                npad0 = len([o for o in mm.options if int(o.otype) == 12])
                if npad != npad0 + 1:
                    raise Violation("padding", f"limit {L}: {npad - npad0} PADDING options were added", "pad-count")
                classes.add("padded")
                if key:
                    classes.add("padded+tsig")
                    nontrivial = True
            included_by_limit.append((eff, k))
            if 0 < k < len(orig):
                classes.add("partial-inclusion")
                nontrivial = True
            if first_omitted_section == 3:
                classes.add("dropped-only-additional")
            if want_tc:
                classes.add("tc-set")
            if k == len(orig) and orig:
                classes.add("all-fit")
    # every block size: "when padding is requested the final length, TSIG included, is a multiple of
    # the block size" -- block sizes are swept inside the case so that the alignment coincidences
    # (unpadded length already a multiple; OPT present or not; TSIG name compressible or not) occur
    for blk in (2, 3, 4, 5, 7, 8, 16, 31, 32, 64):
        sub = dict(case, pad=blk)
        mm, key2 = _build(sub)
        evals += 1
        try:
            w = mm.to_wire(max_size=65535, want_shuffle=False)
        except dns.exception.TooBig:
            continue
        if len(w) % blk != 0:
            raise Violation("padding", f"block sweep: pad={blk} but final length {len(w)} (TSIG {'present' if key2 else 'absent'}) is not a multiple", "pad-length" + (":tsig" if key2 else ""))
        try:
            p = dns.message.from_wire(w, origin=origin, keyring=key2)
        except dns.exception.DNSException as e:
            raise Violation("padding", f"block sweep: pad={blk}: padded output does not parse/validate: {type(e).__name__}: {e}", "pad-unparseable:" + type(e).__name__)
        if _flatten(p) != orig:
            raise Violation("padding", f"block sweep: pad={blk}: padded message differs from the original", "pad-content")
        if (p.edns, p.payload, p.ednsflags) != (mm.edns, mm.payload, mm.ednsflags):
            raise Violation("padding", f"block sweep: pad={blk}: EDNS state {(p.edns, p.payload, hex(p.ednsflags))} differs from the configured {(mm.edns, mm.payload, hex(mm.ednsflags))}", "pad-edns-state")
        if key2 is not None and case["key"].get("other"):
            classes.add("tsig-other-data")
        if key2 is not None:
            classes.add("block-sweep+tsig")
    # monotonicity
    best = {}
    for eff, k in included_by_limit:
        best.setdefault(eff, k)
    prev = None
    for eff in sorted(best):
        if prev is not None and best[eff] < prev[1]:
            raise Violation("monotone", f"limit {prev[0]} keeps {prev[1]} record sets but the larger limit {eff} keeps {best[eff]}", "monotone")
        prev = (eff, best[eff])
    if key is not None:
        classes.add("tsig")
    if any(l < 512 for l in limits):
        classes.add("limit<512")
    return {"nontrivial": nontrivial, "classes": sorted(classes), "units": evals}


@st.composite
def cases(draw, sweep=False):
    msg = draw(MG.message(allow_update=False, big_ok=False, sections_max=4))
    msg["flags"] &= 0x87FF  # opcode QUERY
    msg["flags"] &= ~0x0200
    key = None
    if draw(st.integers(0, 1)) == 0:
        # key name sharing a suffix with message names, or not
        share = draw(st.integers(0, 3)) != 0
        owners = [rs["name"] for sec in msg["sections"] for rs in sec]
        if share and owners and draw(st.integers(0, 2)) != 0:
            # key name beneath the owner of some record set: a stale compression entry for a
            # rolled-back owner name would be hit by the TSIG owner
            on = G.unhexl(draw(st.sampled_from(owners)))
            name = ([b"k"] + on) if G.wire_len([b"k"] + on) <= 255 else on
            if name == [b""]:
                name = [b"k", b""]
        elif share and msg["question"]:
            qn = G.unhexl(msg["question"][0][0])
            name = [b"key"] + qn[-3:] if len(qn) > 1 else [b"key", b""]
        elif share:
            name = [b"key", b"example", b""]
        else:
            name = [b"tsig-key-unrelated", b""]
        key = {"name": G.hexl(name), "secret": draw(st.binary(min_size=1, max_size=32)).hex(), "alg": draw(st.integers(0, 8)),
               # TSIG other data (e.g. the 6-octet server time of a BADTIME reply): part of the reserve
               "other": draw(st.sampled_from([b"", b"", b"\x00\x00\x5f\x5e\x10\x00", b"x" * 17, b"y" * 5])).hex()}
    pad = draw(st.sampled_from([0, 0, 0, 1, 16, 128, 468]))
    if draw(st.booleans()):
        msg["edns"] = None if pad == 0 and draw(st.booleans()) else msg["edns"]
    limits = draw(st.lists(st.one_of(st.sampled_from([1, 511, 512, 513, 65535]), st.integers(512, 4000)), max_size=6))
    return {"msg": msg, "key": key, "pad": pad, "limits": limits, "sweep": sweep}


def parts(tier):
    return [
        Part("limits", run, strategy=cases(sweep=(tier == "thorough")),
             n={"quick": 480, "thorough": 16 * 300},
             require={"partial-inclusion": 80, "limit-from-request-payload": 80, "tc-set": 40, "dropped-only-additional": 20, "padded": 50,
                      "padded+tsig": 15, "block-sweep+tsig": 100, "tsig-other-data": 40, "tsig": 50, "toobig": 80, "limit<512": 50},
             shards={"quick": 16, "thorough": 16}),
    ]
