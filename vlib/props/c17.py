"""C17  Resolver caches never serve stale data, honour the LRU bound, are linearizable.

Part "seq": Hypothesis-generated operation histories over dns.resolver.Cache and
dns.resolver.LRUCache interpreted against the sequential reference models of
vlib/ref/cache_model.py, with dns.resolver.time replaced by a case-controlled clock.
Part "conc": 2-3 threads x 2-4 operations under the schedule controller
(vlib/sched/controller.py: dns.resolver.threading shimmed, line-level preemption inside every
cache method); oracle = linearizability (brute-force search for a total order consistent with
real-time precedence that the sequential model reproduces, including the final state).

SCOPING

* The LRU size bound is asserted after every put (where eviction happens).  set_max_size is
  a limit setter, not an evictor (DESIGN section 4 item 7): between a shrinking set_max_size
  and the next put only "size does not grow" is required; the next put evicts from the
  least-recent end until the new limit holds.
* Expired entries that nobody looked up still occupy their LRU position (they are dropped by
  the get that finds them expired, or evicted in LRU order like anything else): the model
  keeps strict recency order regardless of freshness, as the statement says.
* dns.resolver.Cache: the periodic sweep is not part of the statement; the oracle is the
  observable one (a fresh most-recent answer is present, nothing stale or flushed is served,
  counters exact).  White-box reads of cache.data / cache.next_cleaning are used to compare
  the *fresh* part of the content after every step and to aim clock advances exactly at
  next_cleaning; whether expired entries are still stored is not judged.
* Concurrent puts carry an absolute expiration fixed before the threads start, so the meaning
  of an operation does not depend on where it is linearized; clock advances are atomic
  operations of the history.
* The linearization must also reproduce the FINAL state (LRU: ring order with per-node hits,
  limit, counters; Cache: fresh content, counters): it is what later gets would observe.

ROOT-CAUSE BUCKETING (not a scoping decision)

* A non-linearizable history in which a set_max_size overlaps a put is re-run once with
  LRUCache.set_max_size wrapped (harness side) to run under the cache lock.  If the same case
  then has a linearization, the violation is keyed ``set_max_size-not-under-lock`` (the one
  public method that does not take CacheBase.lock); otherwise it keeps the generic key.  The
  generator steers a share of the cases into that window (over-full cache, put of a new key
  racing a growing set_max_size) so that the verdict does not depend on the seed.
"""

import time as _real_time

from hypothesis import strategies as st

from vlib.ref.cache_model import LRUModel, SimpleCacheModel, linearize
from vlib.runner import HarnessError, Part, Violation

ID = "C17"
LEVEL = "exploration"
TECHNIQUE = (
    "property-based testing: Hypothesis-generated operation histories against a sequential "
    "reference model under a controlled clock; generated thread programs and schedules under a "
    "cooperative schedule controller with a brute-force linearizability oracle"
)
LEVEL_TEXT = (
    "Generated-history search: in every explored sequential history the caches returned exactly "
    "the model's answer (freshness at the expiry instant, most recent value, exact counters), "
    "the LRU ring and dict agreed with the model's recency order after every step and the size "
    "bound held after every put; every explored concurrent history (<= 12 operations, yield "
    "points at every lock operation and every line of the cache methods) had a linearization "
    "that reproduces all results and the final state.  Not a proof."
)
RULE = (
    "seq: operation lists (put/get/flush/set_max_size/clock advances landing exactly on "
    "expirations and on next_cleaning/get_hits_for_key/hits/misses/snapshot/reset) over "
    "Cache(cleaning_interval) and LRUCache(max_size 1-5), 6 keys, stand-in answers (10% real "
    "dns.resolver.Answer objects); non-trivial = >=1 expiry-driven miss and >=1 eviction (LRU) "
    "or sweep that removed an entry (Cache).  conc: optional sequential set-up + 2-3 threads x "
    "2-4 operations + schedule list; non-trivial = >=1 context switch taken between two lines "
    "of a cache method.  distinct by SHA-1 of the case"
)
ASSUMPTIONS = [
    "vlib/ref/cache_model.py is the trusted sequential specification (lazy expiry, strict "
    "recency order, set_max_size never evicts by itself)",
    "the caches read only `.expiration` of a stored answer (checked: 10% of the sequential "
    "cases use real dns.resolver.Answer objects built from a dns.message response)",
    "interleavings are explored at lock operations and line granularity of the cache methods "
    "under a cooperative controller (vlib/sched/controller.py); C-level dict operations are "
    "atomic under the GIL and not preempted",
    "linearizability is decided by exhaustive search over histories of <= 12 operations",
]

START = 1000.0
NKEYS = 6


class _Clock:
    """Stands in for the ``time`` module inside dns.resolver."""

    def __init__(self, now):
        self.now = now

    def time(self):
        return self.now

    def __getattr__(self, name):
        return getattr(_real_time, name)


class _Ans:
    """Light stand-in for dns.resolver.Answer: the caches read only .expiration."""

    __slots__ = ("expiration", "vid")

    def __init__(self, expiration, vid):
        self.expiration = expiration
        self.vid = vid

    def __repr__(self):
        return f"<ans {self.vid} exp={self.expiration}>"


def _keys():
    import dns.name
    import dns.rdataclass
    import dns.rdatatype

    # "over any key set": keys that share the owner name and differ in type (incl. ANY, under which
    # the resolver files negative answers) or class, besides keys with different names
    n0, n1 = dns.name.from_text("k0.example."), dns.name.from_text("k1.example.")
    ks = [
        (n0, dns.rdatatype.A, dns.rdataclass.IN),
        (n0, dns.rdatatype.ANY, dns.rdataclass.IN),
        (n1, dns.rdatatype.A, dns.rdataclass.IN),
        (n0, dns.rdatatype.MX, dns.rdataclass.IN),
        (n0, dns.rdatatype.A, dns.rdataclass.CH),
        (n1, dns.rdatatype.ANY, dns.rdataclass.IN),
    ]
    return ks[:NKEYS]


def _real_answer(key, ttl, vid, clock):
    import dns.message
    import dns.rdata
    import dns.resolver

    # the cached value is an A/IN answer whatever the key says: the caches treat keys as opaque
    q = dns.message.make_query(key[0], "A", "IN", id=1)
    r = dns.message.make_response(q)
    rrset = r.find_rrset(r.answer, key[0], 1, 1, create=True)
    rrset.add(dns.rdata.from_text("IN", "A", "10.0.0.1"), ttl)
    a = dns.resolver.Answer(key[0], 1, 1, r)
    if a.expiration != clock.now + ttl:
        raise HarnessError(f"real Answer expiration {a.expiration} != now {clock.now} + ttl {ttl}")
    a.vid = vid
    return a


# ---------------------------------------------------------------------------
# ring walk (white-box: sentinel.next / sentinel.prev)


def _walk_ring(cache, keyidx, where):
    """Return [(key index, vid, node hits)] most recent first; raise on any disagreement
    between the ring (both directions) and the dict."""
    n = len(cache.data)
    s = cache.sentinel
    fwd = []
    node = s.next
    while node is not s:
        fwd.append(node)
        if len(fwd) > n + 2:
            raise Violation("ring", f"{where}: forward walk from the sentinel does not return to it within len(data)+2 steps", "forward-cycle")
        node = node.next
    bwd = []
    node = s.prev
    while node is not s:
        bwd.append(node)
        if len(bwd) > n + 2:
            raise Violation("ring", f"{where}: backward walk from the sentinel does not return to it within len(data)+2 steps", "backward-cycle")
        node = node.prev
    if [id(x) for x in fwd] != [id(x) for x in reversed(bwd)]:
        raise Violation("ring", f"{where}: forward and backward walks disagree ({len(fwd)} vs {len(bwd)} nodes)", "fwd-bwd")
    for x in fwd:
        if x.next.prev is not x or x.prev.next is not x:
            raise Violation("ring", f"{where}: neighbour links of a node are not mutual", "links")
    ks = [x.key for x in fwd]
    if len(set(ks)) != len(ks):
        raise Violation("ring", f"{where}: a key is linked twice in the ring", "dup-key")
    if set(ks) != set(cache.data):
        raise Violation(
            "ring",
            f"{where}: ring keys {[keyidx[k] for k in ks]} != dict keys {sorted(keyidx[k] for k in cache.data)}",
            "ring-vs-dict",
        )
    for x in fwd:
        if cache.data[x.key] is not x:
            raise Violation("ring", f"{where}: dict entry of a key is not the node linked in the ring", "dict-node")
    return [(keyidx[x.key], getattr(x.value, "vid", None), x.hits) for x in fwd]


# ---------------------------------------------------------------------------
# sequential histories


def _make(case, clock, R):
    if case["kind"] == "cache":
        cache = R.Cache(cleaning_interval=case["interval"] / 4.0)
        model = SimpleCacheModel(clock.now)
    else:
        cache = R.LRUCache(max_size=case["max_size"])
        model = LRUModel(clock.now, case["max_size"])
    return cache, model


def _call(cache, keys, op, values):
    """Perform one (model-format) op on the real cache; returns the comparable result."""
    name = op[0]
    if name == "put":
        return cache.put(keys[op[1]], values[op[2]])
    if name == "get":
        v = cache.get(keys[op[1]])
        return None if v is None else v.vid
    if name == "flush":
        return cache.flush(None if op[1] is None else keys[op[1]])
    if name == "setmax":
        return cache.set_max_size(op[1])
    if name == "khits":
        return cache.get_hits_for_key(keys[op[1]])
    if name == "hits":
        return cache.hits()
    if name == "misses":
        return cache.misses()
    if name == "snap":
        s = cache.get_statistics_snapshot()
        return (s.hits, s.misses)
    if name == "reset":
        return cache.reset_statistics()
    raise AssertionError(f"unknown op {name}")


def run_seq(case):
    import dns.resolver as R

    keys = _keys()
    keyidx = {k: i for i, k in enumerate(keys)}
    clock = _Clock(START)
    saved = R.__dict__["time"]
    R.time = clock
    classes = set()
    counts = {"expiry_miss": 0, "evict": 0, "sweep": 0}
    try:
        cache, model = _make(case, clock, R)
        is_lru = case["kind"] == "lru"
        values = {}
        nvid = 0
        for step, cop in enumerate(case["ops"]):
            name = cop[0]
            where = f"step {step} {cop}"
            before_keys = set(cache.data) if not is_lru else None
            before_next = None if is_lru else cache.next_cleaning
            # ---- translate the case op into a model op (+ clock aiming)
            if name == "put":
                ttl_q = cop[2]
                vid = nvid
                nvid += 1
                if case["real"]:
                    ttl = max(0, ttl_q // 2)
                    values[vid] = _real_answer(keys[cop[1]], ttl, vid, clock)
                    classes.add("real_answer")
                else:
                    values[vid] = _Ans(clock.now + ttl_q / 4.0, vid)
                op = ("put", cop[1], vid, values[vid].expiration)
            elif name == "adv":
                op = ("adv", cop[1] / 4.0)
            elif name in ("adv_exp", "adv_exp_before"):
                if is_lru:
                    exps = sorted({e[2] for e in model.order if e[2] > clock.now})
                else:
                    exps = sorted({e[1] for e in model.d.values() if e[1] > clock.now})
                if not exps:
                    continue
                tgt = exps[cop[1] % len(exps)]
                if name == "adv_exp_before":
                    tgt -= 0.25
                if tgt <= clock.now:
                    continue
                op = ("adv", tgt - clock.now)
                classes.add("clock_lands_on_expiration")
            elif name == "adv_clean":
                if is_lru or cache.next_cleaning <= clock.now:
                    continue
                op = ("adv", cache.next_cleaning - clock.now)
                classes.add("clock_lands_on_next_cleaning")
            elif name in ("setmax", "khits") and not is_lru:
                continue
            else:
                op = tuple(cop)
            # ---- apply to both
            want = model.apply(op)
            if op[0] == "adv":
                clock.now = model.now
                got = None
            else:
                h0 = cache.statistics.hits + cache.statistics.misses
                got = _call(cache, keys, op, values)
                h1 = cache.statistics.hits + cache.statistics.misses
                if h1 - h0 != (1 if op[0] == "get" else 0) and op[0] != "reset":
                    raise Violation("counters", f"{where}: hits+misses changed by {h1 - h0}", "lookup-count")
            if clock.now != model.now:
                raise HarnessError("clock and model diverged")
            if got != want:
                if op[0] == "get":
                    if got is not None and values[got].expiration <= clock.now:
                        raise Violation(
                            "freshness",
                            f"{where}: get returned answer {got} with expiration {values[got].expiration} <= now {clock.now}",
                            "stale-served",
                        )
                    raise Violation("value", f"{where}: get returned answer {got}, model says {want} (now {clock.now})", "get")
                clause = "counters" if op[0] in ("hits", "misses", "snap", "khits") else "value"
                raise Violation(clause, f"{where}: returned {got!r}, model says {want!r}", op[0])
            # ---- state after the step
            if (cache.statistics.hits, cache.statistics.misses) != (model.hits, model.misses):
                raise Violation(
                    "counters",
                    f"{where}: statistics hits/misses {cache.statistics.hits}/{cache.statistics.misses}, model {model.hits}/{model.misses}",
                    "statistics",
                )
            if is_lru:
                ring = _walk_ring(cache, keyidx, where)
                mring = [(e[0], e[1], e[3]) for e in model.order]
                if op[0] == "put" and len(cache.data) > cache.max_size:
                    raise Violation("lru-bound", f"{where}: {len(cache.data)} entries after put with max_size {cache.max_size}", "bound")
                if cache.max_size != model.max_size:
                    raise Violation("lru-bound", f"{where}: max_size {cache.max_size}, model {model.max_size}", "max_size")
                if ring != mring:
                    if {r[0] for r in ring} != {r[0] for r in mring}:
                        ev = [e[1] for e in model.events if isinstance(e, tuple)]
                        raise Violation(
                            "lru-eviction",
                            f"{where}: keys held {[r[0] for r in ring]} (most recent first), model {[r[0] for r in mring]}; model evicted {ev}",
                            "wrong-victim" if op[0] == "put" else "membership",
                        )
                    if [r[:2] for r in ring] != [r[:2] for r in mring]:
                        raise Violation(
                            "lru-recency",
                            f"{where}: ring order {[r[:2] for r in ring]} != model recency {[r[:2] for r in mring]}",
                            "order-after-" + op[0],
                        )
                    raise Violation("counters", f"{where}: per-node hits {ring} != model {mring}", "node-hits")
            else:
                fresh = model.fresh()
                real_fresh = {keyidx[k]: v.vid for k, v in cache.data.items() if v.expiration > clock.now}
                if fresh != real_fresh:
                    raise Violation(
                        "value",
                        f"{where}: fresh content {real_fresh} != model {fresh} (now {clock.now})",
                        "fresh-content",
                    )
                if cache.next_cleaning != before_next and op[0] in ("get", "put"):
                    classes.add("sweep")
                    if before_next == clock.now:
                        classes.add("sweep_exactly_at_next_cleaning")
                    if before_keys - set(cache.data):
                        counts["sweep"] += 1
                        classes.add("sweep_removed_entries")
            # ---- classes
            for e in model.events:
                if isinstance(e, tuple):
                    counts["evict"] += 1
                    classes.add("eviction")
                else:
                    classes.add(e)
                    if e == "expiry_miss":
                        counts["expiry_miss"] += 1
            if op[0] == "flush":
                classes.add("flush_all" if op[1] is None else "flush_key")
            if op[0] == "reset":
                classes.add("reset_statistics")
    finally:
        R.time = saved
    classes.add(case["kind"])
    nontrivial = counts["expiry_miss"] > 0 and (counts["evict"] > 0 or counts["sweep"] > 0)
    return {"nontrivial": nontrivial, "classes": sorted(classes)}


def _sized_list(draw, elem, lo, hi):
    """Hypothesis' own list sizes are heavily skewed to short lists: draw the length."""
    n = draw(st.integers(lo, hi))
    return draw(st.lists(elem, min_size=n, max_size=n))


def _weighted(ops):
    """one_of() drops duplicate branches, so weights are drawn explicitly."""
    idx = []
    for i, (w, _s) in enumerate(ops):
        idx.extend([i] * w)
    return st.sampled_from(idx).flatmap(lambda i: ops[i][1])


def _seq_ops(is_lru, nkeys):
    key = st.integers(0, nkeys - 1)
    ttl = st.one_of(st.integers(4, 40), st.integers(4, 40), st.integers(1, 12), st.sampled_from([0, 1, -1, 4, 8]))
    ops = [
        (6, st.tuples(st.just("put"), key, ttl)),
        (8, st.tuples(st.just("get"), key)),
        (1, st.tuples(st.just("flush"), st.one_of(key, key, key, key, key, st.none()))),
        (1, st.tuples(st.just("adv"), st.integers(0, 4))),
        (1, st.tuples(st.just("adv_exp"), st.integers(0, 5))),
        (1, st.tuples(st.just("adv_exp_before"), st.integers(0, 5))),
        (1, st.sampled_from([("hits",), ("misses",), ("snap",), ("snap",), ("reset",)])),
    ]
    if is_lru:
        ops += [
            (1, st.tuples(st.just("setmax"), st.integers(-1, 6))),
            (1, st.tuples(st.just("khits"), key)),
        ]
    else:
        ops += [(1, st.just(("adv_clean",)))]
    return _weighted(ops)


@st.composite
def seq_cases(draw, maxops):
    kind = draw(st.sampled_from(["lru", "lru", "cache"]))
    nkeys = draw(st.sampled_from([1, 2, 3, 4, 6, 6]))
    case = {
        "kind": kind,
        "interval": draw(st.sampled_from([1, 2, 4, 8, 20, 1200])),
        "max_size": draw(st.integers(1, 5)),
        "real": draw(st.integers(0, 9)) == 0,
    }
    case["ops"] = [list(o) for o in _sized_list(draw, _seq_ops(kind == "lru", nkeys), 1, maxops)]
    return case


# ---------------------------------------------------------------------------
# concurrent histories


def _cache_codes(R):
    out = []
    for cls, names in (
        (R.CacheBase, ("reset_statistics", "hits", "misses", "get_statistics_snapshot")),
        (R.CacheStatistics, ("reset", "clone")),
        (R.Cache, ("_maybe_clean", "get", "put", "flush")),
        (R.LRUCacheNode, ("__init__", "link_after", "unlink")),
        (R.LRUCache, ("set_max_size", "get", "get_hits_for_key", "put", "flush")),
    ):
        for n in names:
            out.append(getattr(cls, n).__code__)
    return out


def _locks_itself(fn):
    """does set_max_size already run under the cache lock (D26 repaired)?  Then the diagnostic
    re-run with a harness-side lock would only deadlock on the non-reentrant lock."""
    import inspect

    try:
        return "self.lock" in inspect.getsource(fn)
    except (OSError, TypeError):
        return True


def run_conc(case, _serialize_setmax=False):
    import dns.resolver as R

    from vlib.sched.controller import Controller

    keys = _keys()
    keyidx = {k: i for i, k in enumerate(keys)}
    clock = _Clock(START)
    is_lru = case["kind"] == "lru"
    nops = sum(len(t) for t in case["threads"])
    if nops > 12:
        raise HarnessError("history too long for the brute-force linearizability search")
    ctrl = Controller(case["schedule"], _cache_codes(R), max_steps=len(case["schedule"]) + 4000 * (nops + 1))
    saved = R.__dict__["time"]
    saved_setmax = R.LRUCache.__dict__["set_max_size"]
    R.time = clock
    classes = set()
    try:
        if _serialize_setmax:
            # diagnostic re-run only (root-cause bucketing, see below)
            def set_max_size_under_lock(self, max_size):
                with self.lock:
                    return saved_setmax(self, max_size)

            R.LRUCache.set_max_size = set_max_size_under_lock
        with ctrl.bind(R):
            cache, model = _make(case, clock, R)
            values = {}
            nvid = [0]

            def translate(cop):
                name = cop[0]
                if name == "put":
                    vid = nvid[0]
                    nvid[0] += 1
                    values[vid] = _Ans(START + cop[2] / 4.0, vid)
                    return ("put", cop[1], vid, values[vid].expiration)
                if name == "adv":
                    return ("adv", cop[1] / 4.0)
                if name in ("setmax", "khits") and not is_lru:
                    return ("hits",)
                return tuple(cop)

            # sequential set-up on the main thread (results checked against the model)
            for cop in case["setup"]:
                op = translate(cop)
                want = model.apply(op)
                if op[0] == "adv":
                    clock.now = model.now
                    continue
                got = _call(cache, keys, op, values)
                if got != want:
                    raise Violation("value", f"set-up {cop}: returned {got!r}, model says {want!r}", "setup-" + op[0])
            if is_lru and len(model.order) > model.max_size:
                classes.add("starts_overfull")
            model0 = model.copy()
            programs = [[translate(cop) for cop in prog] for prog in case["threads"]]
            history = []  # [inv, resp, op, result, thread]

            def prog_fn(t, prog):
                def f():
                    for op in prog:
                        rec = [ctrl.note("inv", (t, op[0])), None, op, None, t]
                        history.append(rec)
                        if op[0] == "adv":
                            clock.now += op[1]
                            got = None
                        else:
                            got = _call(cache, keys, op, values)
                        rec[3] = got
                        rec[1] = ctrl.note("resp", (t, op[0]))
                        ctrl.pause()

                return f

            for t, prog in enumerate(programs):
                ctrl.spawn(prog_fn(t, prog), f"T{t}")
            res = ctrl.run()
        for _tid, exc in res.exceptions:
            raise exc
        if res.outcome == "deadlock":
            raise Violation("deadlock", f"no runnable thread; wait-for {res.waitfor}", "deadlock")
        if res.outcome == "steps":
            raise Violation("liveness", f"cache operations did not finish within the step bound; wait-for {res.waitfor}", "step-bound")
        if cache.lock.locked():
            raise Violation("deadlock", "cache lock still held after every thread finished", "lock-left-held")

        # observed final state
        if is_lru:
            ring = _walk_ring(cache, keyidx, "after the concurrent run")
            final = {
                "ring": ring,
                "hits": cache.statistics.hits,
                "misses": cache.statistics.misses,
                "max_size": cache.max_size,
            }
        else:
            final = {
                "fresh": {keyidx[k]: v.vid for k, v in cache.data.items() if v.expiration > clock.now},
                "hits": cache.statistics.hits,
                "misses": cache.statistics.misses,
            }

        finals = []

        def final_ok(m):
            f = m.final()
            if len(finals) < 3:
                finals.append(f)
            return f == final and m.now == clock.now

        hist = [(h[0], h[1], h[2], h[3]) for h in history]
        order, tried = linearize(hist, model0, final_ok)
        if order is None:
            conc_setmax = False
            for a in history:
                if a[2][0] != "setmax":
                    continue
                for b in history:
                    if b[2][0] == "put" and not (b[1] < a[0] or a[1] < b[0]):
                        conc_setmax = True
            key = "results" if tried == 0 else "final-state"
            if conc_setmax and not _serialize_setmax and not _locks_itself(saved_setmax):
                # root-cause bucketing: does the same case linearize when set_max_size is
                # made to run under the cache lock (harness-side wrapper)?  Then the cause is
                # that LRUCache.set_max_size does not take the lock, and nothing else.
                R.time = saved
                try:
                    run_conc(case, _serialize_setmax=True)
                except Violation:
                    pass
                else:
                    key = "set_max_size-not-under-lock"
            lines = [f"T{h[4]} [{h[0]},{h[1]}] {h[2]} -> {h[3]!r}" for h in sorted(history, key=lambda h: h[0])]
            raise Violation(
                "linearizability",
                "no sequential order consistent with real-time precedence reproduces the history"
                + (" (results alone have no linearization)" if tried == 0 else f" ({tried} orders reproduce the results but not the final state)")
                + f": initial {model0.final()} now {model0.now}; history: " + "; ".join(lines)
                + f"; observed final state {final}; model finals tried {finals}",
                key,
            )
    finally:
        R.time = saved
        R.LRUCache.set_max_size = saved_setmax

    classes.add(case["kind"])
    if sum(res.line_switches.values()) > 0:
        classes.add("switch_inside_cache_method")
    if any(e[0] == "block" for e in ctrl.log):
        classes.add("blocked_on_cache_lock")
    overlap = any(
        not (a[1] < b[0] or b[1] < a[0]) for i, a in enumerate(history) for b in history[i + 1:]
    )
    if overlap:
        classes.add("overlapping_operations")
    if order is not None and order != sorted(order, key=lambda i: history[i][0]):
        classes.add("linearized_against_invocation_order")
    names = {h[2][0] for h in history}
    for nm in ("put", "get", "flush", "setmax", "adv", "reset"):
        if nm in names:
            classes.add("op_" + nm)
    nontrivial = "switch_inside_cache_method" in classes
    return {"nontrivial": nontrivial, "classes": sorted(classes)}


def _conc_op(is_lru, focus="mixed"):
    key = st.integers(0, 3)
    if focus == "stats":
        # counters under concurrency: resets and reads racing lookups
        return _weighted(
            [
                (3, st.tuples(st.just("get"), st.integers(0, 1))),
                (1, st.tuples(st.just("put"), st.integers(0, 1), st.integers(2, 12))),
                (3, st.just(("reset",))),
                (3, st.just(("snap",))),
                (1, st.sampled_from([("hits",), ("misses",)])),
            ]
        )
    ops = [
        (5, st.tuples(st.just("put"), key, st.one_of(st.integers(2, 12), st.integers(0, 12)))),
        (5, st.tuples(st.just("get"), key)),
        (1, st.tuples(st.just("flush"), st.one_of(key, key, st.none()))),
        (1, st.tuples(st.just("adv"), st.integers(0, 8))),
        (1, st.sampled_from([("hits",), ("misses",), ("snap",), ("reset",)])),
    ]
    if is_lru:
        ops += [
            (2, st.tuples(st.just("setmax"), st.integers(1, 4))),
            (1, st.tuples(st.just("khits"), key)),
        ]
    return _weighted(ops)


@st.composite
def _conc_schedule(draw):
    mode = draw(st.sampled_from(["random", "runs", "runs", "short", "rr"]))
    if mode == "rr":
        return []
    if mode == "random":
        return _sized_list(draw, st.integers(0, 5), 0, 300)
    if mode == "short":
        return draw(st.lists(st.integers(0, 5), max_size=30))
    segs = draw(st.lists(st.tuples(st.integers(0, 5), st.integers(1, 20)), min_size=1, max_size=30))
    out = []
    for k, n in segs:
        out.extend([k] * n)
    return out[:300]


@st.composite
def conc_cases(draw):
    kind = draw(st.sampled_from(["lru", "lru", "lru", "cache"]))
    is_lru = kind == "lru"
    nt = draw(st.integers(2, 3))
    focus = draw(st.sampled_from(["mixed"] * 7 + ["stats"]))
    case = {
        "kind": kind,
        "interval": draw(st.sampled_from([1, 4, 1200])),
        "max_size": draw(st.integers(1, 4)),
        "setup": [],
        "threads": [[list(o) for o in _sized_list(draw, _conc_op(is_lru, focus), 2, 4)] for _ in range(nt)],
        "schedule": draw(_conc_schedule()),
    }
    # set-up: nothing / random operations / fill to capacity / fill and shrink the limit
    how = draw(st.sampled_from(["none", "random", "random", "full", "overfull", "overfull"]))
    setup = []
    if focus == "stats":
        # start with non-zero hits and misses
        case["setup"] = [["put", 0, 12], ["get", 0], ["get", 1]] + [["get", 0]] * draw(st.integers(0, 2))
        return case
    if how in ("full", "overfull"):
        nfill = case["max_size"] if is_lru else draw(st.integers(1, 4))
        for k in range(nfill):
            setup.append(["put", k % 4, draw(st.integers(2, 12))])
        if how == "overfull" and is_lru and case["max_size"] > 1:
            setup.append(["setmax", draw(st.integers(1, case["max_size"] - 1))])
            if draw(st.booleans()):
                # a put of a new key (multi-step eviction) racing a growing set_max_size:
                # park thread 1 until thread 0 is somewhere inside put(), then let it run
                case["threads"][0][0] = ["put", 4, draw(st.integers(2, 12))]
                case["threads"][1][0] = ["setmax", draw(st.integers(3, 6))]
                case["schedule"] = [0] * draw(st.integers(4, 24)) + [1] * 8 + case["schedule"][:200]
                how = "race"
    if how == "random" or (how != "race" and draw(st.booleans())):
        setup += [list(o) for o in _sized_list(draw, _conc_op(is_lru), 0, 5)]
    case["setup"] = setup
    return case


def parts(tier):
    maxops = 40 if tier == "quick" else 80
    return [
        Part(
            "seq",
            run_seq,
            strategy=seq_cases(maxops),
            n={"quick": 16000, "thorough": 16 * 15000},
            require={
                "expiry_miss": 500,
                "at_expiry_instant": 100,
                "eviction": 500,
                "multi_eviction": 20,
                "relink": 300,
                "overwrite": 500,
                "overfull": 50,
                "sweep_removed_entries": 50,
                "sweep_exactly_at_next_cleaning": 50,
                "real_answer": 100,
                "__nontrivial__": 500,
            },
        ),
        Part(
            "conc",
            run_conc,
            strategy=conc_cases(),
            n={"quick": 12000, "thorough": 16 * 12000},
            require={
                "switch_inside_cache_method": 500,
                "blocked_on_cache_lock": 300,
                "overlapping_operations": 500,
                "__nontrivial__": 500,
            },
        ),
    ]
