"""C16  Stub resolution reaches the documented outcome under every fault sequence.

A case is a resolver configuration, a query and a *fault script* (what every scripted
nameserver does on each query it receives).  The case is executed three times: by the
independent model vlib/ref/resolver_model.py, by dns.resolver.Resolver.resolve and by
dns.asyncresolver.Resolver.resolve (fresh event loop, stub backend), the two real runs on a
fake clock.  The query log, the outcome, the cache contents and the final clock of the real
runs must equal the model's, and each other's.  See DESIGN.md section C16.

SCOPING (decisions that narrow this check, never the property)
  * "never asked again within the resolution" is scoped to one candidate query name: the
    server list is re-armed for the next search-list candidate (DESIGN section 4.6; the
    code does this deliberately in _Resolution.next_request).
  * "terminates within its lifetime": no query is *started* at or after the lifetime and
    every granted timeout ends within it, and the resolution ends no later than the lifetime
    (the back-off pause before a re-armed sweep is clamped to the remaining lifetime; the
    unclamped pause was finding D27, fixed in /repo).  Class `backoff_clamped` counts the
    cases in which the clamp mattered.
  * the CNAME chain bound is "fewer than dns.message.MAX_CHAIN (16) CNAME links": a reply
    with 15 links is followed, one with 16 is unusable (the constant is not explained in
    the documentation; this is the reading the code implements).
  * a negative reply without SOA and without CNAMEs carries no TTL at all; only "does not
    expire within the test horizon" is asserted for it.
  * a reply slower than the granted timeout is delivered as dns.exception.Timeout after
    exactly the granted time (that is what a transport does); time never runs backwards.
"""

import asyncio
import itertools

from hypothesis import strategies as st

from vlib.ref import resolver_model as M
from vlib.runner import Part, Violation

ID = "C16"
LEVEL = "fault_enumeration"
TECHNIQUE = (
    "property-based testing: Hypothesis-generated and exhaustively enumerated nameserver fault "
    "scripts replayed through scripted dns.nameserver.Nameserver objects on a fake clock; "
    "query log, outcome, cache and clock compared with an independent decision-table model, "
    "and the synchronous resolver compared with the asynchronous one"
)
LEVEL_TEXT = (
    "Every sequence of up to 3 (thorough: 4 over a reduced alphabet) per-query outcomes from a "
    "15-kind alphabet is enumerated over a grid of resolver settings, and tens of thousands of "
    "generated per-server scripts with delays, TTLs, CNAME chains, search lists and caches are "
    "searched; in all of them the real query log, result, cache and clock equal the model's "
    "and sync equals async.  Not a proof: scripts and settings are bounded."
)
RULE = (
    "case = resolver settings (1-4 scripted nameservers incl. always-max-size ones, search "
    "list/domain/ndots/search flag, retry_servfail, tcp, raise_on_no_answer, cache kind, "
    "lifetime, timeout) + query (relative with 0-3 dots or absolute; A/AAAA/TXT/MX/CNAME; "
    "IN/CH) + fault script (per (server, transport) a finite outcome sequence and a default "
    "outcome once it is exhausted, or one global per-query sequence) + optional second "
    "identical resolution after a clock advance; part `enum` enumerates all global sequences "
    "over a 15-outcome alphabet; non-trivial = in the first resolution >=2 different failure "
    "kinds precede the final outcome, or a truncated UDP reply was retried over TCP, or >=2 "
    "candidate names were queried; distinct by SHA-1 of the descriptor"
)
ASSUMPTIONS = [
    "scripted nameservers (subclasses of dns.nameserver.Nameserver) and the fake clock bound "
    "to dns.resolver.time / dns.asyncresolver.time are the trusted environment; real sockets "
    "and transports are out of scope (C18)",
    "vlib/ref/resolver_model.py (imports nothing from dns) is the trusted statement of the "
    "documented behaviour",
    "'not asked again' is scoped to one candidate query name (DESIGN 4.6)",
    "the back-off pause before a re-armed sweep is clamped to the remaining lifetime (D27 fixed)",
    "chain bound: replies with fewer than 16 CNAME links are followed",
    "rotate is off; EDNS/TSIG off",
]

EPS = 1e-9
HORIZON = 2**31 - 1  # "never expires" for a reply without any TTL information


class _Runaway(BaseException):
    """more queries than the independent step bound allows"""


class _Abort(BaseException):
    """A scripted nameserver saw something that is a violation in itself.  The resolver
    catches every Exception raised by a nameserver, so the Violation is parked on the world
    and carried out of the resolver by this BaseException."""


# ---------------------------------------------------------------------------
# environment: clock, backend, scripted nameservers


class _Clock:
    """stands in for the `time` module inside dns.resolver / dns.asyncresolver"""

    def __init__(self, t0):
        self.now = t0
        self.pauses = []

    def time(self):
        return self.now

    def monotonic(self):  # pragma: no cover
        return self.now

    def sleep(self, interval):
        if interval < 0:
            raise Violation("termination", f"sleep({interval!r}) with a negative interval", "sleep<0")
        self.pauses.append(interval)
        self.now = M.tick(self.now, interval)


_env_cache = {}


def _env():
    """classes that need dns imported; built once per process"""
    import dns.asyncbackend
    import dns.nameserver

    if _env_cache.get("mod") is dns.nameserver:
        return _env_cache

    class Scripted(dns.nameserver.Nameserver):
        def __init__(self, idx, always_max_size, world):
            super().__init__()
            self.idx = idx
            self.always_max_size = always_max_size
            self.world = world

        def __str__(self):
            return f"scripted-{self.idx}"

        def kind(self):
            return "Scripted"

        def is_always_max_size(self):
            return self.always_max_size

        def answer_nameserver(self):
            return f"192.0.2.{self.idx + 1}"

        def answer_port(self):
            return 5300 + self.idx

        def query(
            self, request, timeout, source, source_port, max_size,
            one_rr_per_rrset=False, ignore_trailing=False,
        ):
            return self.world.serve(self.idx, request, timeout, max_size, source, source_port)

        async def async_query(
            self, request, timeout, source, source_port, max_size, backend,
            one_rr_per_rrset=False, ignore_trailing=False,
        ):
            if backend is not self.world.backend:
                self.world._fail("request", "async_query got a different backend object", "backend")
            await asyncio.sleep(0)
            return self.world.serve(self.idx, request, timeout, max_size, source, source_port)

    class StubBackend(dns.asyncbackend.Backend):
        def __init__(self, clock):
            self.clock = clock

        def name(self):
            return "c16-stub"

        async def sleep(self, interval):
            self.clock.sleep(interval)
            await asyncio.sleep(0)

    _env_cache.update(mod=dns.nameserver, Scripted=Scripted, StubBackend=StubBackend)
    return _env_cache


def _labels_of(name):
    if not name.is_absolute():
        raise Violation("request", f"query name {name} is not absolute", "relative-qname")
    return tuple(l.decode("ascii").lower() for l in name.labels[:-1])


def _mkname(labels, absolute=True):
    import dns.name

    labs = tuple(l.encode("ascii") for l in labels)
    return dns.name.Name(labs + (b"",) if absolute else labs)


class _World:
    """the real-side environment of one run (sync or async) of a case"""

    def __init__(self, case, clock, bound):
        self.case = case
        self.clock = clock
        self.script = M.World(case)  # only its script cursor is used here
        self.bound = bound
        self.log = []
        self.replies = []
        self.backend = None
        self.in_resolution = 0
        self.violation = None

    def _fail(self, *args):
        self.violation = Violation(*args)
        raise _Abort()

    def ordinal_of(self, msg):
        for i, r in enumerate(self.replies):
            if r is msg:
                return i
        return None

    def serve(self, idx, request, timeout, max_size, source, source_port):
        import dns.exception
        import dns.message
        import dns.rdataclass
        import dns.rdatatype

        case = self.case
        self.in_resolution += 1
        if self.in_resolution > self.bound:
            raise _Runaway()
        if len(request.question) != 1:
            self._fail("request", "request does not carry exactly one question", "question")
        q = request.question[0]
        if not q.name.is_absolute():
            self._fail("request", f"query name {q.name} is not absolute", "relative-qname")
        qlabels = _labels_of(q.name)
        if (
            dns.rdatatype.to_text(q.rdtype) != case["rdtype"]
            or dns.rdataclass.to_text(q.rdclass) != case["rdclass"]
        ):
            self._fail(
                "request",
                f"question {q} does not carry the requested type/class "
                f"{case['rdtype']}/{case['rdclass']}",
                "type-class",
            )
        if source is not None or source_port != 0:
            self._fail("request", "source/source_port not passed through", "source")
        if not isinstance(timeout, (int, float)) or not timeout > 0:
            self._fail(
                "termination", f"query granted a non-positive timeout {timeout!r}", "timeout<=0"
            )
        over_tcp = bool(max_size)
        self.log.append((qlabels, idx, over_tcp, timeout, self.clock.now))
        o = self.script.next_outcome(idx, over_tcp)
        kind, took = M.effective_kind(o, timeout)
        self.clock.now = M.tick(self.clock.now, took)
        self.replies.append(None)
        if kind == "timeout":
            raise dns.exception.Timeout(timeout=timeout)
        if kind == "formerr":
            raise _exc_class(o["exc"])()
        if kind == "oserror":
            # errno 5 (EIO): not one of the errnos Python maps to an OSError subclass
            raise _exc_class(o["exc"])(5, "scripted network error")
        if kind == "eof":
            raise EOFError("scripted EOF")
        if kind == "notimpl":
            raise NotImplementedError("scripted")
        resp = _build_reply(o, request, q.name, qlabels, case["rdtype"], case["rdclass"])
        self.replies[-1] = resp
        if kind == "truncated":
            raise dns.message.Truncated(message=resp)
        return resp


def _exc_class(name):
    import socket

    import dns.exception
    import dns.message
    import dns.name

    return {
        "FormError": dns.exception.FormError,
        "ShortHeader": dns.message.ShortHeader,
        "TrailingJunk": dns.message.TrailingJunk,
        "BadEDNS": dns.message.BadEDNS,
        "BadLabelType": dns.name.BadLabelType,
        "OSError": OSError,
        "ConnectionRefusedError": ConnectionRefusedError,
        "ConnectionResetError": ConnectionResetError,
        "gaierror": socket.gaierror,
    }[name]


def _build_reply(o, request, qname, qlabels, rdtype, rdclass):
    import dns.flags
    import dns.message
    import dns.rcode
    import dns.rdata
    import dns.rrset

    r = dns.message.make_response(request)
    k = o["k"]

    def add(section, owner, ttl, rdt, texts):
        # through find_rrset(create=True) so that the message's RRset index stays coherent,
        # as it is for a message parsed from the wire
        rrset = r.find_rrset(section, owner, rdclass, rdt, create=True)
        for t in texts:
            rrset.add(dns.rdata.from_text(rdclass, rdt, t), ttl)

    if k == "servfail":
        r.set_rcode(dns.rcode.SERVFAIL)
        return r
    if k == "rcode":
        r.set_rcode(dns.rcode.from_text(o["rc"]))
        return r
    if k == "yxdomain":
        r.set_rcode(dns.rcode.YXDOMAIN)
        return r
    if k == "truncated":
        r.flags |= dns.flags.TC
        return r
    if k == "chainfail":
        how = o["how"]
        if how == "notresponse":
            r.flags &= ~dns.flags.QR
        elif how == "noquestion":
            r.question = []
        elif how == "twoquestions":
            r.question.append(
                dns.rrset.RRset(_mkname(("other", "test")), r.question[0].rdclass, r.question[0].rdtype)
            )
        elif how == "loop":
            add(r.answer, qname, o["ttl"], "CNAME", [qname.to_text()])
        else:
            raise AssertionError(how)
        return r
    assert k in ("answer", "nodata", "nxdomain"), k
    chain = o.get("chain", 0)
    owner = qname
    canonical = qlabels
    if rdtype == "CNAME":
        if k == "answer":
            add(r.answer, owner, o["ttl"], "CNAME", [M.text(M.chain_owner(1))])
        else:
            for i in range(chain):
                tgt = M.chain_owner(i + 1)
                add(r.answer, owner, o["cttl"][i], "CNAME", [M.text(tgt)])
                owner = _mkname(tgt)
            if o.get("bogus") and chain == 0:
                add(r.answer, owner, o["ttl"], "CNAME", [M.text(M.chain_owner(1))])
    else:
        for i in range(chain):
            tgt = M.chain_owner(i + 1)
            add(r.answer, owner, o["cttl"][i], "CNAME", [M.text(tgt)])
            owner = _mkname(tgt)
            canonical = tgt
        if k == "answer" or o.get("bogus"):
            add(r.answer, owner, o["ttl"], rdtype, M.rdata_texts(rdtype, o["nrd"]))
    if k != "answer" and o.get("soa") is not None:
        soa = o["soa"]
        so = M.UNRELATED_SOA_OWNER if soa["up"] < 0 else M.ancestor(canonical, soa["up"])
        add(
            r.authority, _mkname(so), soa["ttl"], "SOA",
            [f"ns.invalid. root.invalid. 1 3600 600 86400 {soa['min']}"],
        )
    if k == "nxdomain":
        r.set_rcode(dns.rcode.NXDOMAIN)
    return r


# ---------------------------------------------------------------------------
# one real run of a case


def _describe_errors(errors):
    out = []
    for e in errors:
        srv, tcp, port, what, _resp = e
        if not (isinstance(srv, str) and srv.startswith("scripted-")):
            raise Violation("outcome", f"error trace names an unknown server {srv!r}", "errors-server")
        idx = int(srv.split("-")[1])
        if port != 5300 + idx:
            raise Violation("outcome", f"error trace entry {e!r} has the wrong port", "errors-port")
        descr = type(what).__name__ if isinstance(what, BaseException) else str(what)
        out.append((idx, bool(tcp), descr))
    return out


def _record_answer(world, ans):
    import dns.rdataclass
    import dns.rdatatype

    rr = ans.rrset
    rec = {
        "kind": "answer",
        "qname": _labels_of(ans.qname),
        "rdtype": dns.rdatatype.to_text(ans.rdtype),
        "rdclass": dns.rdataclass.to_text(ans.rdclass),
        "canonical": _labels_of(ans.canonical_name),
        "rdatas": None if rr is None else sorted(rd.to_text() for rd in rr),
        "rrttl": None if rr is None else rr.ttl,
        "exp": ans.expiration,
        "resp": world.ordinal_of(ans.response),
        "nameserver": ans.nameserver,
        "port": ans.port,
    }
    if rr is not None:
        rec["rrname"] = _labels_of(rr.name)
        rec["rrtype"] = dns.rdatatype.to_text(rr.rdtype)
    return rec


def _execute(case, mode, bound):
    """Run the case against the real resolver.  -> list of per-resolution records."""
    import dns.asyncresolver
    import dns.name
    import dns.resolver

    env = _env()
    clock = _Clock(case["t0"])
    world = _World(case, clock, bound)
    saved = (dns.resolver.time, dns.asyncresolver.time)
    dns.resolver.time = clock
    dns.asyncresolver.time = clock
    loop = None
    try:
        if mode == "sync":
            res = dns.resolver.Resolver(configure=False)
        else:
            res = dns.asyncresolver.Resolver(configure=False)
            world.backend = env["StubBackend"](clock)
            loop = asyncio.new_event_loop()
        res.nameservers = [
            env["Scripted"](i, bool(ns["maxsize"]), world) for i, ns in enumerate(case["ns"])
        ]
        res.search = [_mkname(s) for s in case["search"]]
        res.domain = _mkname(case["domain"])
        res.ndots = case["ndots"]
        res.use_search_by_default = case["use_search_by_default"]
        res.retry_servfail = case["retry_servfail"]
        res.rotate = False
        res.timeout = case["timeout"]
        if case["cache"] == "Cache":
            res.cache = dns.resolver.Cache()
        elif case["cache"] == "LRUCache":
            res.cache = dns.resolver.LRUCache()
        if case["lifetime_as_arg"]:
            res.lifetime = 1234.5  # must be overridden by the argument
            lifetime_arg = case["lifetime"]
        else:
            res.lifetime = case["lifetime"]
            lifetime_arg = None
        if case["qname_as_str"]:
            qn = ".".join(case["qname"]) + ("." if case["absolute"] else "")
            if not case["qname"]:
                qn = "."
        else:
            qn = _mkname(case["qname"], case["absolute"])
        kwargs = dict(
            rdtype=case["rdtype"],
            rdclass=case["rdclass"],
            tcp=case["tcp"],
            raise_on_no_answer=case["raise_on_no_answer"],
            lifetime=lifetime_arg,
            search=case["search_arg"],
        )

        records = []
        gap = None
        for rno in range(2):
            if rno == 1:
                if gap is None:
                    break
                clock.now = clock.now + gap
            world.in_resolution = 0
            first_q = len(world.log)
            first_p = len(clock.pauses)
            start = clock.now
            rec = None
            try:
                if mode == "sync":
                    ans = res.resolve(qn, **kwargs)
                else:
                    ans = loop.run_until_complete(
                        res.resolve(qn, backend=world.backend, **kwargs)
                    )
                rec = _record_answer(world, ans)
                rec["obj"] = ans
            except _Abort:
                raise world.violation
            except _Runaway:
                raise Violation(
                    "termination",
                    f"{mode}: more than {bound} queries in one resolution (lifetime "
                    f"{case['lifetime']}, {len(case['ns'])} servers); last queries "
                    f"{world.log[-4:]!r}",
                    f"{mode}:runaway",
                )
            except dns.resolver.NXDOMAIN as e:
                rec = {
                    "kind": "NXDOMAIN",
                    "qnames": [_labels_of(n) for n in e.qnames()],
                    "responses": {
                        _labels_of(n): world.ordinal_of(m) for n, m in e.responses().items()
                    },
                }
                for n, m in e.responses().items():
                    if e.response(n) is not m:  # accessor coherence
                        raise Violation("outcome", "NXDOMAIN.response(qname) disagrees with responses()", "nx-response")
            except dns.resolver.NoAnswer as e:
                rec = {"kind": "NoAnswer", "resp": world.ordinal_of(e.response())}
            except dns.resolver.YXDOMAIN:
                rec = {"kind": "YXDOMAIN"}
            except dns.resolver.NoNameservers as e:
                rec = {
                    "kind": "NoNameservers",
                    "errors": _describe_errors(e.kwargs["errors"]),
                    "request_qname": _labels_of(e.kwargs["request"].question[0].name),
                }
            except dns.resolver.LifetimeTimeout as e:
                rec = {
                    "kind": "LifetimeTimeout",
                    "errors": _describe_errors(e.kwargs["errors"]),
                    "elapsed": e.kwargs["timeout"],
                }
            rec["log"] = world.log[first_q:]
            rec["pauses"] = clock.pauses[first_p:]
            rec["start"] = start
            rec["end"] = clock.now
            rec["cache"] = _cache_view(world, res.cache, clock)
            records.append(rec)
            if rno == 0:
                # the clock advance before the second resolution is part of the case; run()
                # computed it from the model's first outcome
                gap = case["_gap"]
        return records
    finally:
        dns.resolver.time, dns.asyncresolver.time = saved
        if loop is not None:
            loop.close()


def _cache_view(world, cache, clock):
    """What the cache holds, through its public get() (plus the key set of its dict)."""
    import dns.rcode
    import dns.rdataclass
    import dns.rdatatype

    if cache is None:
        return None
    view = {}
    for key in list(cache.data.keys()):
        name, rdt, rdc = key
        if not name.is_absolute():
            raise Violation(
                "cache", f"cache holds an entry under the relative name {name}", "relative-key"
            )
        k = (_labels_of(name), dns.rdatatype.to_text(rdt), dns.rdataclass.to_text(rdc))
        a = cache.get(key)
        if a is None:
            view[k] = None  # present but not returned (expired)
        else:
            view[k] = {
                "resp": world.ordinal_of(a.response),
                "exp": a.expiration,
                "nx": a.response.rcode() == dns.rcode.NXDOMAIN,
                "negative": a.rrset is None,
                "obj": a,
            }
    return view


# ---------------------------------------------------------------------------
# comparison with the model


def _first_log_difference(want, got):
    for i, (w, g) in enumerate(zip(want, got)):
        if w[0] != g[0]:
            return i, "qname"
        if w[1] != g[1]:
            return i, "server"
        if w[2] != g[2]:
            return i, "transport"
        if abs(w[3] - g[3]) > EPS:
            return i, "timeout"
        if abs(w[4] - g[4]) > EPS:
            return i, "clock"
    if len(got) > len(want):
        return len(want), "extra-query"
    if len(got) < len(want):
        return len(got), "missing-query"
    return None


def _fmt_log(log, upto):
    lo = max(0, upto - 3)
    return [
        (M.text(q), f"s{s}", "tcp" if t else "udp", round(g, 6), round(c, 6))
        for q, s, t, g, c in log[lo : upto + 2]
    ]


def _check_against_model(case, mode, rno, want, got):
    tag = f"{mode}:r{rno}"
    d = _first_log_difference(want["log"], got["log"])
    if d is not None:
        i, what = d
        raise Violation(
            "log",
            f"{tag}: query #{i} differs in {what}: model {_fmt_log(want['log'], i)!r} "
            f"real {_fmt_log(got['log'], i)!r} (model outcome {want['outcome']['kind']}, "
            f"real {got['kind']})",
            f"{mode}:{what}",
        )
    wo = want["outcome"]
    if wo["kind"] != got["kind"]:
        raise Violation(
            "outcome",
            f"{tag}: model says {_short(wo)}, resolver produced {_short(got)}",
            f"{mode}:{wo['kind']}->{got['kind']}",
        )

    def need(field, w, g):
        if w != g:
            raise Violation(
                "outcome",
                f"{tag}: {wo['kind']}: {field} is {g!r}, model says {w!r}",
                f"{mode}:{wo['kind']}.{field}",
            )

    k = wo["kind"]
    if k == "answer":
        need("qname", wo["qname"], got["qname"])
        need("rdtype", case["rdtype"], got["rdtype"])
        need("rdclass", case["rdclass"], got["rdclass"])
        need("canonical_name", wo["canonical"], got["canonical"])
        need("rrset", None if wo["rdatas"] is None else sorted(wo["rdatas"]), got["rdatas"])
        need("rrset.ttl", wo["rrttl"], got["rrttl"])
        if wo["rdatas"] is not None:
            need("rrset.name", wo["canonical"], got["rrname"])
            need("rrset.rdtype", case["rdtype"], got["rrtype"])
        need("response", wo["resp"], got["resp"])
        need("nameserver", f"192.0.2.{wo['server'] + 1}", got["nameserver"])
        need("port", 5300 + wo["server"], got["port"])
        _need_expiry(tag, mode, "answer", wo["exp"], got["exp"])
    elif k == "NXDOMAIN":
        need("qnames()", wo["qnames"], got["qnames"])
        need("responses()", wo["responses"], got["responses"])
    elif k == "NoAnswer":
        need("response()", wo["resp"], got["resp"])
    elif k == "NoNameservers":
        need("errors", [tuple(e) for e in wo["errors"]], got["errors"])
        need("request", want["log"][-1][0] if want["log"] else None, got["request_qname"])
    elif k == "LifetimeTimeout":
        need("errors", [tuple(e) for e in wo["errors"]], got["errors"])
        if abs(wo["elapsed"] - got["elapsed"]) > EPS:
            need("timeout", wo["elapsed"], got["elapsed"])
    if abs(want["end"] - got["end"]) > EPS:
        raise Violation(
            "termination",
            f"{tag}: resolution ended at clock +{got['end'] - got['start']!r}, model says "
            f"+{want['end'] - want['start']!r} (pauses {got['pauses']!r})",
            f"{mode}:end-clock",
        )
    _check_cache(tag, mode, want, got)


def _need_expiry(tag, mode, what, w, g):
    if w is M.UNBOUNDED:
        # no TTL information at all: must not expire within any horizon we test
        return
    if abs(w - g) > 1e-6:
        raise Violation(
            "outcome",
            f"{tag}: {what}: expiration is {g!r}, model (creation time + minimum TTL) says {w!r}",
            f"{mode}:{what}.expiration",
        )


def _check_cache(tag, mode, want, got):
    wc, gc = want["cache_after"], got["cache"]
    if wc is None:
        if gc is not None:
            raise Violation("cache", f"{tag}: a cache appeared", f"{mode}:appeared")
        return
    now = got["end"]
    for key, g in gc.items():
        if key not in wc:
            raise Violation(
                "cache",
                f"{tag}: cache holds an entry under ({M.text(key[0])}, {key[1]}, {key[2]}); the "
                f"model caches only under {[(M.text(k[0]), k[1], k[2]) for k in wc]!r}",
                f"{mode}:unexpected-key",
            )
    for key, w in wc.items():
        alive = w["exp"] is M.UNBOUNDED or w["exp"] > now
        g = gc.get(key)
        kt = (M.text(key[0]), key[1], key[2])
        if alive:
            if g is None:
                raise Violation(
                    "cache",
                    f"{tag}: no live cache entry under {kt!r} (expected the reply to query "
                    f"#{w['resp']}); keys present: {[(M.text(k[0]), k[1], k[2]) for k in gc]!r}",
                    f"{mode}:missing-key",
                )
            if g["resp"] != w["resp"] or g["nx"] != w["nx"]:
                raise Violation(
                    "cache",
                    f"{tag}: cache entry under {kt!r} is the reply to query #{g['resp']} "
                    f"(nxdomain={g['nx']}), model says #{w['resp']} (nxdomain={w['nx']})",
                    f"{mode}:wrong-entry",
                )
            if w["exp"] is M.UNBOUNDED:
                if g["exp"] - now < HORIZON:
                    raise Violation("cache", f"{tag}: TTL-less entry expires", f"{mode}:ttlless")
            elif abs(g["exp"] - w["exp"]) > 1e-6:
                raise Violation(
                    "cache",
                    f"{tag}: cache entry under {kt!r} expires at {g['exp']!r}, model {w['exp']!r}",
                    f"{mode}:expiration",
                )
        elif g is not None:
            raise Violation(
                "cache",
                f"{tag}: cache returned an entry under {kt!r} at or after its expiry",
                f"{mode}:stale",
            )


def _short(o):
    return {
        k: v
        for k, v in o.items()
        if k in ("kind", "qname", "canonical", "rdatas", "resp", "qnames", "errors", "elapsed")
    }


def _check_budget(case, mode, rno, got):
    """model-independent part of the termination clause, on the real log alone"""
    tag = f"{mode}:r{rno}"
    start, life, tmo = got["start"], case["lifetime"], case["timeout"]
    for i, (q, s, tcp, granted, clk) in enumerate(got["log"]):
        el = clk - start
        if el >= life:
            raise Violation(
                "termination",
                f"{tag}: query #{i} started {el!r}s into a lifetime of {life}s",
                f"{mode}:query-after-lifetime",
            )
        if granted > tmo + EPS or granted > life - el + EPS:
            raise Violation(
                "termination",
                f"{tag}: query #{i} was granted {granted!r}s with timeout {tmo}, lifetime {life}, "
                f"elapsed {el!r}",
                f"{mode}:granted-too-much",
            )
    import math

    # tolerance: a few ulps of the (large) absolute clock value, see resolver_model.tick
    if got["end"] - start > life + max(EPS, 4 * math.ulp(got["end"])):
        raise Violation(
            "termination",
            f"{tag}: resolution took {got['end'] - start!r}s of a {life}s lifetime",
            f"{mode}:overrun",
        )


def _signature(rec):
    """what sync and async must agree on exactly"""
    r = {k: v for k, v in rec.items() if k not in ("obj", "cache")}
    if rec["cache"] is not None:
        r["cache"] = {
            k: (None if v is None else {x: y for x, y in v.items() if x != "obj"})
            for k, v in rec["cache"].items()
        }
    return r


# ---------------------------------------------------------------------------
# the oracle


def run(case):
    if "enum" in case:
        case = expand_enum(case["enum"])
    else:
        case = dict(case)
    plan = M.predict(case)
    case["_gap"] = plan["gap"]
    bound = M.step_bound(case)
    wants = plan["resolutions"]

    runs = {}
    for mode in ("sync", "async"):
        got = _execute(case, mode, bound)
        runs[mode] = got
        assert len(got) == len(wants), "harness: resolution count mismatch"
        for rno, (w, g) in enumerate(zip(wants, got)):
            _check_budget(case, mode, rno, g)
            _check_against_model(case, mode, rno, w, g)
        if len(got) == 2:
            _check_second(case, mode, wants, got)
    for rno, (a, b) in enumerate(zip(runs["sync"], runs["async"])):
        sa, sb = _signature(a), _signature(b)
        if sa != sb:
            diff = [k for k in sa if sa[k] != sb.get(k)]
            raise Violation(
                "differential",
                f"r{rno}: sync and async resolvers disagree on {diff!r}: "
                f"{ {k: sa[k] for k in diff}!r} vs { {k: sb.get(k) for k in diff}!r}",
                ",".join(diff),
            )
    return _classify(case, plan)


def _check_second(case, mode, wants, got):
    """second identical resolution: served from the cache iff the model says so, and then it
    is the very same Answer object that the first resolution produced"""
    w1, w2 = wants
    g1, g2 = got
    if w2["stats"]["cache_hit"] and w2["outcome"]["kind"] == "answer":
        prev = g1.get("obj")
        if prev is None:
            # the first resolution raised NoAnswer (the negative answer was cached, but no
            # Answer object was handed out); the reply ordinal has been compared already
            return
        if g2.get("obj") is not prev:
            raise Violation(
                "cache",
                f"{mode}: second resolution before expiry did not return the cached Answer object",
                f"{mode}:not-same-answer",
            )


def _classify(case, plan):
    first = plan["resolutions"][0]
    classes = set()
    trace = first["trace"]
    fk = first["outcome"]["kind"]
    preceding = trace if fk in ("NoNameservers", "LifetimeTimeout") else trace[:-1]
    fkinds = {t["kind"] for t in preceding if t["kind"] in M.FAILURE_KINDS}
    st1 = first["stats"]
    nontrivial = len(fkinds) >= 2 or st1["tcp_retry"] > 0 or st1["names_queried"] >= 2
    for rno, r in enumerate(plan["resolutions"]):
        for t in r["trace"]:
            classes.add("out:" + t["kind"])
            if t["kind"] == "unusable":
                classes.add("unusable:" + t["why"])
            if t["kind"] == "servfail":
                classes.add("servfail_kept" if t["action"] == M.KEEP else "servfail_dropped")
            if case["rdtype"] == "CNAME":
                pass  # a CNAME question is answered by the first link; nothing is followed
            elif t["kind"] in ("answer", "nodata", "nxdomain") and t["chain"]:
                classes.add("chain:15" if t["chain"] == 15 else "chain:1-14")
            elif t["kind"] == "unusable" and t["why"] == "ChainTooLong" and t["chain"] == 16:
                classes.add("chain:16")
            if case["ns"][t["server"]]["maxsize"]:
                classes.add("maxsize_server_queried")
        o = r["outcome"]
        k = o["kind"]
        if k == "answer" and o["rdatas"] is None:
            k = "negative-answer"
        classes.add(("final:" if rno == 0 else "final2:") + k)
        s = r["stats"]
        if s["tcp_retry"]:
            classes.add("tcp_retry")
        if s["trunc_tcp_drop"]:
            classes.add("truncated_over_tcp_drop")
        if s["backoff"]:
            classes.add("backoff")
        if s["backoff"] >= 3:
            classes.add("backoff>=3")
        if s["backoff_cap"]:
            classes.add("backoff_capped_2s")
        if s["names_queried"] >= 2:
            classes.add("names_queried>=2")
        if s["slow_timeout"]:
            classes.add("slow_reply_as_timeout")
        if s["overshoot"]:
            classes.add("lifetime_overshoot")
        if s.get("backoff_clamped"):
            classes.add("backoff_clamped")
        if any(t["kind"] == "nxdomain" for t in r["trace"]) and o["kind"] != "NXDOMAIN":
            classes.add("nxdomain_then_other_result")
        if len(r["log"]) >= 10:
            classes.add("queries>=10")
    if len(first["candidates"]) != len(set(first["candidates"])):
        classes.add("duplicate_candidate")
    if len(first["candidates"]) >= 2:
        classes.add("candidates>=2")
    if len(fkinds) >= 2:
        classes.add("failure_kinds>=2")
    if len(plan["resolutions"]) == 2:
        second = plan["resolutions"][1]
        s2 = second["stats"]
        if case["cache"]:
            if s2["cache_hit"] and not second["log"]:
                classes.add("second:cache_hit_no_query")
            if s2["cache_nx_hit"]:
                classes.add("second:nxdomain_cache_hit")
            if first["outcome"]["kind"] in ("answer", "NoAnswer") and any(
                q[0] == first["outcome"]["qname"] for q in second["log"]
            ):
                # the name whose answer was cached by the first resolution is asked again
                classes.add("second:fresh_query_after_expiry")
        else:
            classes.add("second:no_cache")
    classes.add("cache:" + str(case["cache"]))
    classes.add("script:" + ("global" if case.get("gscript") else "per_server"))
    return {"nontrivial": bool(nontrivial), "classes": sorted(classes)}


# ---------------------------------------------------------------------------
# exhaustive part: every global outcome sequence over a 15-letter alphabet

_ALPHABET = [
    {"k": "answer", "delay": 0, "chain": 0, "cttl": [], "ttl": 300, "nrd": 1},
    {"k": "answer", "delay": 0, "chain": 16, "cttl": [60] * 16, "ttl": 300, "nrd": 1},
    {"k": "nodata", "delay": 0, "chain": 0, "cttl": [], "soa": {"up": 1, "ttl": 900, "min": 120}},
    {"k": "nxdomain", "delay": 0, "chain": 0, "cttl": [], "soa": {"up": 1, "ttl": 900, "min": 60},
     "bogus": False},
    {"k": "servfail", "delay": 0},
    {"k": "rcode", "delay": 0, "rc": "REFUSED"},
    {"k": "yxdomain", "delay": 0},
    {"k": "formerr", "delay": 0, "exc": "FormError"},
    {"k": "truncated", "delay": 0},
    {"k": "timeout"},
    {"k": "oserror", "delay": 0, "exc": "OSError"},
    {"k": "eof", "delay": 0},
    {"k": "notimpl", "delay": 0},
    {"k": "chainfail", "delay": 0, "how": "notresponse", "ttl": 60},
    {"k": "nxdomain", "delay": 0, "chain": 0, "cttl": [], "soa": None, "bogus": True, "ttl": 60,
     "nrd": 1},
]
_REDUCED = [0, 3, 4, 7, 8, 9, 2, 6]  # answer nxdomain servfail formerr truncated timeout nodata yx

# (retry_servfail, tcp, nservers, two_names, cache, default letter)
_GRID = list(
    itertools.product((False, True), (False, True), (1, 2), (False, True), (None, "Cache"), (0, 9))
)


def expand_enum(e):
    retry, tcp, nsrv, two, cache, dflt = _GRID[e["cfg"]]
    return {
        "t0": 1000.0,
        "ns": [{"maxsize": False, "udp": [], "tcp": [], "default": _ALPHABET[dflt]} for _ in range(nsrv)],
        "gscript": {"seq": [_ALPHABET[i] for i in e["seq"]], "default": _ALPHABET[dflt]},
        "search": [["example"]] if two else [],
        "domain": [],
        "ndots": None,
        "use_search_by_default": True,
        "search_arg": None,
        "retry_servfail": retry,
        "tcp": tcp,
        "raise_on_no_answer": True,
        "cache": cache,
        "lifetime": 5.0,
        "lifetime_as_arg": False,
        "timeout": 2.0,
        "qname": ["www"] if two else ["www", "example"],
        "absolute": not two,
        "qname_as_str": False,
        "rdtype": "A",
        "rdclass": "IN",
        "second": {"gap": ["ttl", -1]} if cache else None,
    }


def _enum_configs(tier):
    """thorough: the whole grid.  quick: default letter `answer` everywhere, default letter
    `timeout` (servers that go silent once the sequence is used up) only without cache and
    with a single candidate name."""
    out = []
    for cfg, (_retry, _tcp, _nsrv, two, cache, dflt) in enumerate(_GRID):
        if tier == "thorough" or dflt == 0 or (cache is None and not two):
            out.append(cfg)
    return out


def _enum_cases(tier):
    def make():
        # a generator: the runner only iterates (each shard takes every 16th case), and the
        # thorough enumeration would not fit comfortably in memory 16 times over
        n = len(_ALPHABET)
        for cfg in _enum_configs(tier):
            for length in range(0, 4):
                for seq in itertools.product(range(n), repeat=length):
                    yield {"enum": {"cfg": cfg, "seq": list(seq)}}
            if tier == "thorough":
                for seq in itertools.product(_REDUCED, repeat=4):
                    yield {"enum": {"cfg": cfg, "seq": list(seq)}}

    return make


# ---------------------------------------------------------------------------
# generated part
#
# Hypothesis supplies a fixed-size block of random octets; decode_case() turns it into a
# descriptor, one octet per choice (two for a free TTL), 0 when the block is exhausted.  Every
# option list puts its simplest value first, so Hypothesis' shrinking of the octets (towards
# zeros) is shrinking of the case.  Drawing the same structure with nested composite
# strategies cost 8 ms per case against 2 ms for executing it.

_TTLS = [300, 0, 1, 2, 5, 30, 60, 3600, 86400]
_DELAYS = [0] * 10 + [0.001, 0.01, 0.05, 0.1, 0.25, 0.5, 1.0, 1.5, 3.0]
_CHAINS = [0] * 12 + [1, 1, 2, 2, 3, 4, 5, 8, 11, 14, 15, 15, 16, 16, 17, 18]
_SOA_UPS = [0, 1, 1, 0, 2, 0, 1, 2, 3, 9, -1]
_RCODES = ["REFUSED", "REFUSED", "FORMERR", "NOTIMP", "NOTAUTH", "NXRRSET", "BADVERS"]
_FORMERRS = ["FormError", "FormError", "ShortHeader", "TrailingJunk", "BadEDNS", "BadLabelType"]
_OSERRORS = ["OSError", "ConnectionRefusedError", "ConnectionResetError", "gaierror"]
_CHAINFAILS = ["notresponse", "noquestion", "twoquestions", "loop"]
_FAILS = ["servfail", "servfail", "rcode", "formerr", "truncated", "truncated", "timeout", "timeout",
          "oserror", "eof", "notimpl", "chainfail"]
_ENDS = ["answer", "answer", "answer", "answer", "answer", "nodata", "nodata", "nxdomain",
         "nxdomain", "nxdomain", "nxdomain", "yxdomain"]
_PERSISTENT = [{"k": "timeout"}, {"k": "servfail", "delay": 0}, {"k": "servfail", "delay": 0.05},
               {"k": "truncated", "delay": 0}, {"k": "timeout"}]
_SUFFIXES = [["example"], ["corp", "example"], ["test"], ["a", "b", "c", "d"], ["example"], []]
_LABELS = ["www", "a", "b", "host1", "mail"]
_GAPS = [["ttl", -1], ["ttl", 0], ["ttl", -2], ["ttl", -1], ["ttl", 0], ["ttl", 1], ["ttl", 5],
         ["abs", 0], ["abs", 0.5], ["abs", 1], ["abs", 10], ["abs", 61], ["abs", 301],
         ["abs", 1000], ["abs", 100001]]


def case_octets(maxlen):
    # worst case: 4 servers x (default + script + short TCP script) x <=13 octets per outcome
    return 64 + 4 * (maxlen + 3) * 13


class _Dec:
    def __init__(self, data):
        self.d = data
        self.i = 0

    def octet(self):
        b = self.d[self.i] if self.i < len(self.d) else 0
        self.i += 1
        return b

    def below(self, n):
        return self.octet() % n

    def pick(self, options):
        return options[self.octet() % len(options)]

    def ttl(self):
        b = self.octet()
        if b < 192:
            return _TTLS[b % len(_TTLS)]
        return ((b - 192) << 8 | self.octet()) * 7 % 100001

    def outcome(self, fail_bias):
        kind = self.pick(_FAILS) if self.below(10) < fail_bias else self.pick(_ENDS)
        if kind == "timeout":
            return {"k": "timeout"}
        o = {"k": kind, "delay": self.pick(_DELAYS)}
        if kind in ("answer", "nodata", "nxdomain"):
            chain = self.pick(_CHAINS)
            pat = [self.ttl() for _ in range(1 + self.below(3))] if chain else []
            o["chain"] = chain
            o["cttl"] = [pat[i % len(pat)] for i in range(chain)]
            if kind == "answer":
                o["ttl"] = self.ttl()
                o["nrd"] = 1 + self.below(3)
            else:
                if self.below(3):
                    o["soa"] = {"up": self.pick(_SOA_UPS), "ttl": self.ttl(), "min": self.ttl()}
                else:
                    o["soa"] = None
                if kind == "nxdomain":
                    o["bogus"] = self.below(8) == 7
                    if o["bogus"]:
                        o["ttl"] = self.ttl()
                        o["nrd"] = 1
        elif kind == "rcode":
            o["rc"] = self.pick(_RCODES)
        elif kind == "formerr":
            o["exc"] = self.pick(_FORMERRS)
        elif kind == "oserror":
            o["exc"] = self.pick(_OSERRORS)
        elif kind == "chainfail":
            o["how"] = self.pick(_CHAINFAILS)
            o["ttl"] = self.ttl()
        return o

    def script(self, fail_bias, maxlen):
        return [self.outcome(fail_bias) for _ in range(self.below(maxlen + 1))]


def decode_case(data, maxlen):
    d = _Dec(data)
    nsrv = d.pick([1, 2, 2, 3, 3, 4])
    fail_bias = d.pick([3, 5, 7, 8, 9])
    persistent = d.below(10) >= 8
    tcp = d.below(4) == 3
    ns = []
    for _ in range(nsrv):
        if persistent:
            # a server that keeps failing in a way that keeps it in the list
            dflt = d.pick(_PERSISTENT)
        else:
            dflt = d.outcome(d.pick([0, 0, 2, 6]))
        maxsize = d.below(6) == 5
        if tcp or maxsize:
            # never asked over UDP: do not spend octets on a script nobody reads
            udp, tcps = [], d.script(fail_bias, maxlen)
        else:
            udp, tcps = d.script(fail_bias, maxlen), d.script(fail_bias, 2)
        ns.append({"maxsize": maxsize, "udp": udp, "tcp": tcps, "default": dflt})
    qname = [d.pick(_LABELS) for _ in range(1 + d.below(4))]
    search = [d.pick(_SUFFIXES) for _ in range(d.pick([1, 0, 1, 2, 2, 3]))]
    rdtype = d.pick(["A", "A", "A", "AAAA", "TXT", "MX", "CNAME"])
    rdclass = "CH" if rdtype == "TXT" and d.below(4) == 3 else "IN"
    second = {"gap": list(d.pick(_GAPS))} if d.below(10) < 7 else None
    return {
        "t0": d.pick([1000.0, 0.0, 1000.0, 1700000000.0]),
        "ns": ns,
        "gscript": None,
        "search": search,
        "domain": d.pick([[], ["local"], ["example"], ["dom", "test"]]),
        "ndots": d.pick([None, None, 0, 1, 2, 3]),
        "use_search_by_default": d.below(3) != 2,
        "search_arg": d.pick([None, None, True, True, False]),
        "retry_servfail": d.below(2) == 1,
        "tcp": tcp,
        "raise_on_no_answer": d.below(3) != 2,
        "cache": d.pick([None, "Cache", "Cache", "LRUCache", "LRUCache"]),
        "lifetime": d.pick([5.0, 0.3, 1.0, 2.0, 2.0, 5.0, 10.0, 30.0]),
        "lifetime_as_arg": d.below(2) == 1,
        "timeout": d.pick([2.0, 0.05, 0.25, 1.0, 2.0, 2.0, 5.0]),
        "qname": qname,
        "absolute": d.below(4) == 3,
        "qname_as_str": d.below(2) == 1,
        "rdtype": rdtype,
        "rdclass": rdclass,
        "second": second,
    }


def cases(maxlen):
    n = case_octets(maxlen)
    return st.binary(min_size=n, max_size=n).map(
        lambda data: decode_case(data, maxlen)
    )


# minimums: about one eighth of what the quick tier reaches at seed 1; a generator change that
# starves a class turns the run into a harness error instead of a vacuous green
_REQUIRE_SCRIPTS = {
    "out:answer": 1500, "out:nodata": 600, "out:nxdomain": 900, "out:servfail": 1000,
    "out:rcode": 500, "out:yxdomain": 300, "out:formerr": 500, "out:truncated": 900,
    "out:timeout": 2000, "out:oserror": 500, "out:eof": 500, "out:notimpl": 500,
    "out:unusable": 1000,
    "unusable:ChainTooLong": 500, "unusable:NotQueryResponse": 120, "unusable:FormError": 250,
    "unusable:AnswerForNXDOMAIN": 200,
    "chain:15": 200, "chain:16": 200, "chain:1-14": 1000,
    "final:answer": 1000, "final:negative-answer": 100, "final:NoAnswer": 250,
    "final:NXDOMAIN": 400, "final:YXDOMAIN": 200, "final:NoNameservers": 900,
    "final:LifetimeTimeout": 800,
    "tcp_retry": 500, "truncated_over_tcp_drop": 400, "backoff": 1400, "backoff>=3": 350,
    "backoff_capped_2s": 150, "names_queried>=2": 350, "failure_kinds>=2": 1600,
    "servfail_kept": 500, "servfail_dropped": 500, "maxsize_server_queried": 1000,
    "slow_reply_as_timeout": 1000, "nxdomain_then_other_result": 250,
    "second:cache_hit_no_query": 350, "second:fresh_query_after_expiry": 400,
    "second:nxdomain_cache_hit": 200, "second:no_cache": 500,
    "cache:Cache": 1000, "cache:LRUCache": 1000, "cache:None": 800,
    "duplicate_candidate": 600, "queries>=10": 150,
    "__nontrivial__": 2000,
}
_REQUIRE_ENUM = {
    "final:answer": 3000, "final:NoAnswer": 2000, "final:NXDOMAIN": 1000, "final:YXDOMAIN": 2000,
    "final:NoNameservers": 10000, "final:LifetimeTimeout": 500, "tcp_retry": 1500,
    "backoff": 4000, "truncated_over_tcp_drop": 1500, "second:cache_hit_no_query": 2000,
    "second:nxdomain_cache_hit": 800, "names_queried>=2": 1200, "servfail_kept": 1500,
    "servfail_dropped": 1500, "nxdomain_then_other_result": 1000, "__nontrivial__": 10000,
}


def parts(tier):
    maxlen = 5 if tier == "quick" else 8
    return [
        Part(
            "enum",
            run,
            cases=_enum_cases(tier),
            require=_REQUIRE_ENUM,
            shards={"quick": 16, "thorough": 16},
        ),
        Part(
            "scripts",
            run,
            strategy=cases(maxlen),
            n={"quick": 40000, "thorough": 1440000},
            require=_REQUIRE_SCRIPTS,
            shards={"quick": 16, "thorough": 16},
        ),
    ]
