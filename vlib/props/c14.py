"""C14  TSIG MACs follow RFC 8945; genuine messages verify, altered ones never do."""

import struct

from hypothesis import strategies as st

from vlib.gen import messages as MG
from vlib.gen import names as G
from vlib.ref import tsig_ref as T
from vlib.ref import wire as W
from vlib.runner import Part, Violation, exc_key

ID = "C14"
LEVEL = "fault_enumeration"
TECHNIQUE = (
    "property-based testing with fault enumeration: generated messages/keys/times signed by the "
    "library and checked against an independent RFC 8945 HMAC implementation; every single-bit "
    "alteration of a signed message enumerated; multi-message envelopes signed independently with "
    "any subset of intermediates unsigned"
)
LEVEL_TEXT = (
    "MAC equality with an independent RFC 8945 composer for all nine HMAC algorithms, requests, "
    "responses bound to a request MAC and multi-message sequences; genuine messages verify under "
    "every keyring form; every enumerated single-bit flip of authenticated content, wrong "
    "key/name/algorithm/time/request MAC/error/position is rejected. Search over generated messages; "
    "the bit sweep is exhaustive per message."
)
RULE = (
    "cases: (sign) message descriptor + key (hostile/mixed-case name, 0-100 octet secret, one of 9 HMAC "
    "algorithms) + fudge, signing time (incl. > 2^32), original id, other data, error, keyring form; "
    "each case also signs a response bound to the request MAC and runs the negative validations; "
    "(flips) a signed message with ALL 8*len single-bit flips; (multi) 2-6 message envelopes signed by "
    "the reference with any subset of intermediates unsigned, validated by the library, plus flips in "
    "unsigned intermediates; library-signed envelopes compared with the reference. non-trivial = signed "
    "message with >= 1 record beyond the question, or an envelope with >= 1 unsigned intermediate; "
    "each flip counts once"
    ' Every signed message of an envelope is also offered with a non-zero TSIG error (peer-signed and set in transit).'
)
RULE += (
    " Rounds 9-10 added: the same Message rendered again 0/1/fudge+1 s later; validation with origin= the key name, its parent and the root under every keyring form."
)
ASSUMPTIONS = [
    "vlib/ref/tsig_ref.py (hashlib/hmac only) is the trusted RFC 8945 composer",
    "which bits are authenticated is decided by the reference digest input of the flipped octets, not "
    "by a hand list: header id (original id is what is digested) and ASCII-case bits of the key and "
    "algorithm names come out as unauthenticated and are only counted",
    "the clock read by dns.message is a fake time object bound for the duration of a case",
]


class _Clock:
    def __init__(self, now):
        self.now = now

    def time(self):
        return self.now


def _key(desc):
    import dns.name
    import dns.tsig

    alg = dns.name.Name(T.ALG_LIST[desc["alg"] % len(T.ALG_LIST)])
    return dns.tsig.Key(dns.name.Name(G.unhexl(desc["name"])), bytes.fromhex(desc["secret"]), alg)


def _validate(wire, keyring, now, request_mac=b"", **kw):
    import dns.message

    old = dns.message.time
    dns.message.time = _Clock(now)
    try:
        return dns.message.from_wire(wire, keyring=keyring, request_mac=request_mac, **kw)
    finally:
        dns.message.time = old


def _sign(m, now, **kw):
    import dns.message

    old = dns.message.time
    dns.message.time = _Clock(now)
    try:
        return m.to_wire(want_shuffle=False, max_size=65535, **kw)
    finally:
        dns.message.time = old


def _must_reject(wire, keyring, now, what, expect=None, request_mac=b"", **kw):
    import dns.exception

    try:
        _validate(wire, keyring, now, request_mac, **kw)
    except dns.exception.DNSException as e:
        if expect is not None and not isinstance(e, expect):
            raise Violation("reject", f"{what}: raised {type(e).__name__}, documented {getattr(expect, '__name__', expect)}", "wrong-exception:" + what.split(" ")[0])
        return type(e).__name__
    raise Violation("reject", f"{what}: the message was accepted", "accepted:" + what.split(" ")[0])


def _check_mac(wire, key_desc, request_mac, what, prior_mac=None, between=()):
    try:
        f = T.locate(wire)
    except W.WireError as e:
        raise Violation("mac", f"{what}: reference cannot walk the signed message: {e}", "walk")
    if f is None:
        raise Violation("mac", f"{what}: no TSIG RR at the end of the signed message", "no-tsig")
    secret = bytes.fromhex(key_desc["secret"])
    want = T.mac_for(secret, f.alg, T.digest_input(wire, f, request_mac, prior_mac, between))
    if f.mac != want:
        raise Violation(
            "mac",
            f"{what}: MAC on the wire {f.mac.hex()} != RFC 8945 MAC {want.hex()} (alg {b'.'.join(f.alg).decode()}, request_mac {len(request_mac)} octets, prior {prior_mac is not None})",
            "mac:" + what.split(" ")[0],
        )
    if f.rdclass != 255 or f.ttl != 0:
        raise Violation("mac", f"{what}: TSIG RR class/ttl {f.rdclass}/{f.ttl}", "rr-fields")
    if f.alg_compressed:
        raise Violation("mac", f"{what}: algorithm name compressed", "alg-compressed")
    return f


def run_sign(case):
    import dns.exception
    import dns.message
    import dns.name
    import dns.tsig

    kd = case["key"]
    key = _key(kd)
    now = case["now"]
    m = MG.build(case["msg"])
    classes = ["alg:%d" % (kd["alg"] % len(T.ALG_LIST))]
    orig_id = case["original_id"]
    m.use_tsig(key, fudge=case["fudge"], original_id=orig_id, tsig_error=case["error"], other_data=bytes.fromhex(case["other"]))
    try:
        w = _sign(m, now)
    except dns.exception.TooBig:
        return {"nontrivial": False, "classes": ["toobig"]}
    f = _check_mac(w, kd, b"", "request")
    exp_id = m.id if orig_id is None else orig_id
    if (f.time, f.fudge, f.orig_id, f.error, f.other) != (now, case["fudge"], exp_id, case["error"], bytes.fromhex(case["other"])):
        raise Violation("mac", f"TSIG fields on the wire differ from what was requested: {(f.time, f.fudge, f.orig_id, f.error, f.other)!r}", "fields")
    if W.name_key(f.key) != W.name_key(key.name.labels) or W.name_key(f.alg) != W.name_key(key.algorithm.labels):
        raise Violation("mac", "key/algorithm name on the wire differs", "names")
    if m.mac != f.mac:
        raise Violation("mac", "Message.mac differs from the MAC on the wire", "mac-attr")
    if now > 0xFFFFFFFF:
        classes.append("time>2^32")
    # 1b. a signed message that had to be truncated: the MAC covers the header as emitted (TC set)
    if len(w) > 560 and case["error"] == 0:
        import dns.flags

        m2 = MG.build(case["msg"])
        m2.use_tsig(key, fudge=case["fudge"], original_id=orig_id, other_data=bytes.fromhex(case["other"]))
        old_t = dns.message.time
        dns.message.time = _Clock(now)
        try:
            try:
                w2 = m2.to_wire(want_shuffle=False, max_size=max(512, len(w) - 40), prefer_truncation=True)
            except dns.exception.TooBig:
                w2 = None
        finally:
            dns.message.time = old_t
        if w2 is not None and w2 != w:
            _check_mac(w2, kd, b"", "truncated")
            try:
                _validate(w2, key, now)
            except dns.exception.DNSException as e:
                raise Violation("verify", f"a signed message rendered with prefer_truncation (limit {max(512, len(w) - 40)}, {len(w2)} octets) does not validate: {type(e).__name__}", "truncated-signed")
            classes.append("signed-truncated")
    # 1c. the same Message object rendered again later (a retry over TCP, a retransmission): the
    # second rendering is signed for the second time and must be a valid RFC 8945 message of its own
    if case["error"] == 0 and case["fudge"] < 0xFFFF:
        for delta in (0, 1, case["fudge"] + 1):
            now2 = now + delta
            if now2 > 0xFFFFFFFFFFFF:
                continue
            try:
                wr = _sign(m, now2)
            except dns.exception.TooBig:
                continue
            fr = _check_mac(wr, kd, b"", "re-signed")
            if fr.time != now2:
                raise Violation("mac", f"second rendering at time {now2} carries time signed {fr.time}", "resign-time")
            try:
                _validate(wr, key, now2)
            except dns.exception.DNSException as e:
                raise Violation("verify", f"the second rendering of a signed Message ({delta} s after the first) does not validate: {type(e).__name__}", "resigned")
            if delta == 1:
                classes.append("re-signed-later")
    # 2. genuine => verifies, every keyring form
    forms = {
        "key": key,
        "dict-key": {key.name: key},
        "dict-bytes": {key.name: key.secret},
        "callable": lambda msg, name: key if name == key.name else None,
    }
    if case["error"] == 0:
        for fname, kr in forms.items():
            if fname == "dict-bytes" and key.algorithm != dns.tsig.default_algorithm:
                pass  # bytes secrets take the algorithm from the TSIG RR
            try:
                p = _validate(w, kr, now + case["skew"] if abs(case["skew"]) <= case["fudge"] else now)
            except dns.exception.DNSException as e:
                raise Violation("verify", f"genuine signed message rejected with keyring form {fname}: {type(e).__name__}: {e}", "genuine:" + fname)
            if not p.had_tsig or p.mac != f.mac or p.keyname != key.name:
                raise Violation("verify", "validated message lost its TSIG attributes", "attrs")
            # the receiver may parse under an origin (zone transfers do): the key is the same key
            # whether or not its name lies at or below that origin
            for oname, org in (("key-name", key.name), ("key-parent", key.name.parent() if len(key.name) > 1 else None), ("root", dns.name.root)):
                if org is None or case["msg"].get("origin") is not None:
                    continue
                try:
                    _validate(w, kr, now, origin=org)
                except dns.exception.DNSException as e:
                    raise Violation("verify", f"genuine signed message rejected with keyring form {fname} when parsed with origin {org} ({oname}): {type(e).__name__}: {e}", f"genuine-under-origin:{fname}")
                classes.append("validated-under-origin:" + oname)
        # window edges
        _validate(w, key, now + case["fudge"])
        _validate(w, key, now - case["fudge"]) if now - case["fudge"] >= 0 else None
        _must_reject(w, key, now + case["fudge"] + 1, "time after window", dns.tsig.BadTime)
        if now - case["fudge"] - 1 >= 0:
            _must_reject(w, key, now - case["fudge"] - 1, "time before window", dns.tsig.BadTime)
        classes.append("window-edges")
    else:
        peer = {16: dns.tsig.PeerBadSignature, 17: dns.tsig.PeerBadKey, 18: dns.tsig.PeerBadTime, 22: dns.tsig.PeerBadTruncation}.get(case["error"], dns.tsig.PeerError)
        _must_reject(w, key, now, "tsig-error set", peer)
        classes.append("peer-error")
    # 3. wrong key material
    secret2 = bytes.fromhex(kd["secret"]) + b"\x01"
    _must_reject(w, dns.tsig.Key(key.name, secret2, key.algorithm), now, "wrong-secret", dns.tsig.BadSignature if case["error"] == 0 else None)
    other_name = dns.name.Name([b"other-key", b""])
    _must_reject(w, dns.tsig.Key(other_name, key.secret, key.algorithm), now, "wrong-key-name", dns.tsig.BadKey if case["error"] == 0 else None)
    _must_reject(w, {other_name: key.secret}, now, "unknown-key", dns.message.UnknownTSIGKey)
    _must_reject(w, None, now, "no-keyring", dns.message.UnknownTSIGKey)
    alg2 = dns.name.Name(T.ALG_LIST[(kd["alg"] + 1) % len(T.ALG_LIST)])
    _must_reject(w, dns.tsig.Key(key.name, key.secret, alg2), now, "wrong-algorithm", dns.tsig.BadAlgorithm if case["error"] == 0 else None)
    _must_reject(w, key, now, "bound-to-other-request-mac", dns.tsig.BadSignature if case["error"] == 0 else None, request_mac=b"\x01" * 16)
    # 4. TSIG not last / not in additional
    arcount = struct.unpack("!H", w[10:12])[0]
    extra = b"\x00" + struct.pack("!HHIH", 16, 1, 0, 2) + b"\x01x"
    notlast = w[:10] + struct.pack("!H", arcount + 1) + w[12:] + extra
    _must_reject(notlast, key, now, "tsig-not-last", dns.exception.FormError)
    if arcount == 1:
        nscount = struct.unpack("!H", w[8:10])[0]
        moved = w[:8] + struct.pack("!HH", nscount + 1, 0) + w[12:]
        _must_reject(moved, key, now, "tsig-in-authority", dns.exception.FormError)
        classes.append("tsig-moved")
    # 5. response bound to the request MAC
    if case["error"] == 0 and not (case["msg"]["flags"] & 0x8000):
        q = _validate(w, key, now)
        r = dns.message.make_response(q, fudge=case["fudge"])
        for rs in case["msg"]["sections"][0][:1]:
            pass
        rw = _sign(r, now + 1)
        rf = _check_mac(rw, kd, f.mac, "response")
        _validate(rw, key, now + 1, request_mac=f.mac)
        _must_reject(rw, key, now + 1, "response-without-request-mac", dns.tsig.BadSignature, request_mac=b"")
        _must_reject(rw, key, now + 1, "response-wrong-request-mac", dns.tsig.BadSignature, request_mac=bytes(len(f.mac)))
        if rf.orig_id != q.id:
            raise Violation("mac", "response original id differs from the request id", "response-id")
        classes.append("response")
    records = sum(len(s) for s in case["msg"]["sections"]) + (1 if case["msg"].get("update") else 0)
    return {"nontrivial": records >= 1, "classes": classes}


@st.composite
def key_desc(draw):
    k = draw(st.integers(0, 3))
    if k == 0:
        name = [b"key", b"example", b""]
    elif k == 1:
        name = [b"KeY", b"Example", b""]
    else:
        name = draw(G.abs_name(max_wire=60))
        if name == [b""]:
            name = [b"k", b""]
    # secret lengths around the HMAC block sizes (64 octets for MD5/SHA-1/SHA-2-256, 128 for SHA-384/512):
    # a secret longer than the block is hashed first (RFC 2104)
    blk = draw(st.sampled_from([0, 0, 63, 64, 65, 96, 127, 128, 129, 200]))
    secret = draw(st.binary(min_size=blk, max_size=blk)) if blk else draw(st.one_of(st.binary(min_size=0, max_size=100), st.binary(min_size=16, max_size=32), st.just(b"")))
    return {"name": G.hexl(name), "secret": secret.hex(), "alg": draw(st.integers(0, 8))}


@st.composite
def sign_cases(draw, small=False):
    alg_first = draw(st.integers(0, 8))
    msg = draw(MG.message(allow_update=True, big_ok=False, sections_max=1 if small else 2))
    kd = draw(key_desc())
    kd["alg"] = alg_first
    fudge = draw(st.sampled_from([0, 1, 300, 300, 65535]))
    now = draw(st.one_of(st.sampled_from([0, 1, 1700000000, 0xFFFFFFFF, 0x100000000, 0xFFFFFFFFFFFF - 70000]), st.integers(0, 0xFFFFFFFFFFFF - 70000)))
    return {
        "msg": msg,
        "key": kd,
        "fudge": fudge,
        "now": now,
        "skew": draw(st.integers(-3, 3)),
        "original_id": draw(st.one_of(st.none(), st.integers(0, 65535))),
        "other": draw(st.one_of(st.just(b""), st.binary(max_size=8))).hex(),
        "error": draw(st.sampled_from([0, 0, 0, 0, 16, 17, 18, 22, 1, 23])),
    }


# ---------------------------------------------------------------------------
# exhaustive single-bit flips


def run_flips(case):
    import dns.exception
    import dns.message

    kd = case["key"]
    key = _key(kd)
    now = case["now"]
    m = MG.build(case["msg"])
    m.use_tsig(key, fudge=case["fudge"], original_id=case["original_id"])
    try:
        w = _sign(m, now)
    except dns.exception.TooBig:
        return {"nontrivial": False, "classes": ["toobig"]}
    f0 = _check_mac(w, kd, b"", "request")
    d0 = T.digest_input(w, f0)
    _validate(w, key, now)
    n_auth = n_unauth = n_struct = n_stripped = 0
    unauth_kinds = set()
    for i in range(len(w)):
        for b in range(8):
            fw = bytearray(w)
            fw[i] ^= 1 << b
            fw = bytes(fw)
            authenticated = True
            try:
                f1 = T.locate(fw)
            except W.WireError:
                f1 = None
                n_struct += 1
            if f1 is not None and f1.trailing == 0:
                same = (
                    T.digest_input(fw, f1) == d0
                    and f1.mac == f0.mac
                    and W.name_key(f1.key) == W.name_key(f0.key)
                    and W.name_key(f1.alg) == W.name_key(f0.alg)
                )
                if same:
                    authenticated = False
            if not authenticated:
                n_unauth += 1
                unauth_kinds.add("id" if i < 2 else "name-case")
                continue
            n_auth += 1
            try:
                pm = _validate(fw, key, now)
            except dns.exception.DNSException:
                continue
            if not pm.had_tsig:
                # the flip turned the TSIG RR into something else: the message parses as an
                # UNSIGNED message and says so (had_tsig False) -- it was not validated
                n_stripped += 1
                continue
            where = "header" if i < 12 else ("tsig-rr" if i >= f0.start else "body")
            detail = ""
            if i >= f0.start:
                off = i - f0.start
                owner_len = len(W.encode_name(f0.key)) if not f0.key_compressed else 2
                if owner_len + 4 <= off < owner_len + 8:
                    detail = ":ttl"
                elif owner_len + 2 <= off < owner_len + 4:
                    detail = ":class"
            raise Violation(
                "tamper",
                f"bit {b} of octet {i} ({where}{detail}) flipped: authenticated content changed but the message still validates",
                f"flip-accepted:{where}{detail}",
            )
    classes = ["sweep"]
    if n_stripped:
        classes.append("flip-strips-tsig")
    if n_unauth:
        classes += ["unauthenticated:" + k for k in sorted(unauth_kinds)]
    return {"nontrivial": True, "classes": classes, "units": n_auth + n_unauth}


# ---------------------------------------------------------------------------
# multi-message envelopes


def run_multi(case):
    import dns.exception
    import dns.message
    import dns.tsig

    kd = case["key"]
    key = _key(kd)
    now = case["now"]
    secret = bytes.fromhex(kd["secret"])
    klabels = G.unhexl(kd["name"])
    alabels = list(T.ALG_LIST[kd["alg"] % len(T.ALG_LIST)])
    msgs = [MG.build(d) for d in case["msgs"]]
    plain = []
    for mm in msgs:
        try:
            plain.append(mm.to_wire(want_shuffle=False, max_size=65535))
        except dns.exception.TooBig:
            return {"nontrivial": False, "classes": ["toobig"]}
    n = len(plain)
    signed_mask = list(case["signed"])[:n] + [True] * n
    signed_mask = signed_mask[:n]
    signed_mask[0] = True
    signed_mask[-1] = True
    request_mac = bytes.fromhex(case["request_mac"])
    # --- reference signs, library validates
    wires = []
    prior = None
    between = []
    for i, pw in enumerate(plain):
        if signed_mask[i]:
            if prior is None:
                sw, mac = T.append_tsig(pw, klabels, alabels, secret, now + i, case["fudge"], request_mac=request_mac)
            else:
                sw, mac = T.append_tsig(pw, klabels, alabels, secret, now + i, case["fudge"], prior_mac=prior, between=between)
            prior, between = mac, []
            wires.append(sw)
        else:
            wires.append(pw)
            between.append(pw)

    def feed(ws, upto=None):
        ctx = None
        out = []
        for i, ww in enumerate(ws):
            r = _validate(ww, key, now + i, request_mac, tsig_ctx=ctx, multi=True)
            ctx = r.tsig_ctx
            out.append(r)
        return out

    try:
        rs = feed(wires)
    except dns.exception.DNSException as e:
        raise Violation("multi", f"genuine envelope (signed mask {signed_mask}) rejected: {type(e).__name__}: {e}", "genuine-rejected")
    for i, r in enumerate(rs):
        if r.had_tsig != signed_mask[i]:
            raise Violation("multi", f"message {i}: had_tsig {r.had_tsig}, expected {signed_mask[i]}", "had_tsig")
    classes = ["envelope"]
    unsigned = [i for i in range(n) if not signed_mask[i]]
    if unsigned:
        classes.append("unsigned-intermediate")
    # --- tamper: one bit in message j (selected positions), the sequence must fail by the next signed message
    for j, pos, bit in case["tamper"]:
        j %= n
        ww = bytearray(wires[j])
        p = 12 + pos % max(1, len(ww) - 12) if len(ww) > 12 else pos % len(ww)
        ww[p] ^= 1 << bit
        bad = list(wires)
        bad[j] = bytes(ww)
        # is the altered octet authenticated?  (compare reference digest streams)
        try:
            brs = feed(bad)
        except dns.exception.DNSException:
            classes.append("tamper-rejected")
            continue
        if [r.had_tsig for r in brs] != signed_mask:
            # a signed message now parses as unsigned (or vice versa): reported through
            # had_tsig, which the transfer code checks on the final message
            classes.append("tamper-changes-had_tsig")
            if not brs[-1].had_tsig:
                continue
        # accepted: allowed only if the reference says nothing authenticated changed
        try:
            same = _envelope_digest(bad, signed_mask, request_mac) == _envelope_digest(wires, signed_mask, request_mac)
        except W.WireError:
            same = False
        if not same:
            raise Violation("multi", f"bit flipped at octet {p} of message {j} ({'signed' if signed_mask[j] else 'unsigned'}) but the envelope still validates", "multi-flip-accepted:" + ("signed" if signed_mask[j] else "unsigned"))
        classes.append("tamper-unauthenticated")
    # a signed message of the envelope (first or continuation) that reports a TSIG error must be
    # rejected, whether the peer signed it that way or the error field was set in transit
    # (RFC 8945 5.3.1: in continuation messages the error field is not even part of the digest)
    for j, err in case.get("peer_errors", []):
        sidx = [i for i in range(n) if signed_mask[i]]
        j = sidx[j % len(sidx)]
        prior2, between2 = None, []
        for i in range(j):
            if signed_mask[i]:
                prior2, between2 = T.locate(wires[i]).mac, []
            else:
                between2.append(wires[i])
        other = b"\x00\x00\x00\x00\x00\x01" if err == 18 else b""
        if prior2 is None:
            ew, _ = T.append_tsig(plain[j], klabels, alabels, secret, now + j, case["fudge"], error=err, other=other, request_mac=request_mac)
        else:
            ew, _ = T.append_tsig(plain[j], klabels, alabels, secret, now + j, case["fudge"], error=err, other=other, prior_mac=prior2, between=between2)
        for label, bw in (("peer-signed", ew), ("set-in-transit", None)):
            if bw is None:
                f = T.locate(wires[j])
                bw = bytearray(wires[j])
                epos = len(bw) - 2 - len(f.other) - 2  # error field: before other-len and other data
                bw[epos:epos + 2] = err.to_bytes(2, "big")
                bw = bytes(bw)
            bad = list(wires)
            bad[j] = bw
            try:
                feed(bad[: j + 1])
            except dns.exception.DNSException:
                classes.append("envelope-peer-error-rejected")
                if j > 0:
                    classes.append("continuation-peer-error-rejected")
                continue
            raise Violation("multi", f"message {j} of the envelope reports TSIG error {err} ({label}) and was accepted", f"multi-peer-error:{label}:{'first' if j == 0 else 'continuation'}")
    # dropping an unsigned intermediate must be detected
    if unsigned:
        j = unsigned[0]
        _must = None
        try:
            feed(wires[:j] + wires[j + 1:])
        except dns.exception.DNSException:
            classes.append("drop-detected")
        else:
            raise Violation("multi", f"unsigned intermediate message {j} removed but the envelope still validates", "multi-drop-accepted")
    # --- library signs every message of the envelope, reference checks each MAC
    ctx = None
    prior = None
    for i, mm in enumerate(msgs):
        mm.use_tsig(key, fudge=case["fudge"])
        mm.request_mac = request_mac
        lw = _sign(mm, now + i, multi=True, tsig_ctx=ctx)
        ctx = mm.tsig_ctx
        f = _check_mac(lw, kd, request_mac if i == 0 else b"", f"multi{i}", prior_mac=prior)
        prior = f.mac
    classes.append("library-signed-envelope")
    return {"nontrivial": bool(unsigned) or n >= 3, "classes": classes}


def _envelope_digest(wires, signed_mask, request_mac):
    out = []
    prior = None
    between = []
    for i, ww in enumerate(wires):
        if signed_mask[i]:
            f = T.locate(ww)
            if f is None:
                raise W.WireError("TSIG missing")
            out.append((T.digest_input(ww, f, request_mac if prior is None else b"", prior, between), f.mac, W.name_key(f.key), W.name_key(f.alg)))
            prior, between = f.mac, []
        else:
            if T.locate(ww) is not None:
                raise W.WireError("unexpected TSIG")
            between.append(ww)
    return out


@st.composite
def multi_cases(draw):
    n = draw(st.integers(2, 6))
    msgs = [draw(MG.message(allow_update=False, big_ok=False, sections_max=1)) for _ in range(n)]
    for d in msgs:
        d["edns"] = None
    return {
        "msgs": msgs,
        "key": draw(key_desc()),
        "fudge": draw(st.sampled_from([0, 300, 65535])),
        "now": draw(st.one_of(st.sampled_from([0, 1700000000, 0xFFFFFFFF]), st.integers(0, 0xFFFFFFFFFF))),
        "signed": draw(st.lists(st.booleans(), min_size=n, max_size=n)),
        "request_mac": draw(st.one_of(st.just(b""), st.binary(min_size=16, max_size=64))).hex(),
        "tamper": draw(st.lists(st.tuples(st.integers(0, 5), st.integers(0, 400), st.integers(0, 7)), min_size=1, max_size=6).map(lambda l: [list(x) for x in l])),
        "peer_errors": draw(st.lists(st.tuples(st.integers(0, 5), st.sampled_from([16, 17, 18, 22, 1, 99, 4095])), min_size=1, max_size=3).map(lambda l: [list(x) for x in l])),
    }


def parts(tier):
    req_alg = {"alg:%d" % i: 10 for i in range(9)}
    req = dict(req_alg)
    req.update({"signed-truncated": 15, "response": 200, "peer-error": 50, "window-edges": 200, "time>2^32": 30, "tsig-moved": 100, "re-signed-later": 300, "validated-under-origin:key-parent": 300})
    return [
        Part("sign", run_sign, strategy=sign_cases(), n={"quick": 1200, "thorough": 60000}, require=req,
             shards={"quick": 8, "thorough": 16}),
        Part("flips", run_flips, strategy=sign_cases(small=True), n={"quick": 48, "thorough": 4800},
             require={"sweep": 30, "unauthenticated:id": 30}, shards={"quick": 16, "thorough": 16}),
        Part("multi", run_multi, strategy=multi_cases(), n={"quick": 600, "thorough": 30000},
             require={"unsigned-intermediate": 100, "tamper-rejected": 200, "drop-detected": 100, "library-signed-envelope": 200,
                      "continuation-peer-error-rejected": 100},
             shards={"quick": 8, "thorough": 16}),
    ]
