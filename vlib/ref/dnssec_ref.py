"""Independent key-free DNSSEC computations (RFC 4034, 4035, 5155, 6840, 8976).
Imports nothing from dns."""

import base64
import hashlib
import struct

from vlib.ref import canon as C
from vlib.ref import wire as W


def key_tag(dnskey_rdata):
    """RFC 4034 Appendix B (B.1 for algorithm 1)."""
    alg = dnskey_rdata[3]
    if alg == 1:
        # most significant 16 of the least significant 24 bits of the public key modulus
        return (dnskey_rdata[-3] << 8) + dnskey_rdata[-2]
    ac = 0
    for i, b in enumerate(dnskey_rdata):
        ac += b if i & 1 else b << 8
    ac += (ac >> 16) & 0xFFFF
    return ac & 0xFFFF


def ds_digest(owner_labels, dnskey_rdata, digest_type):
    h = {1: hashlib.sha1, 2: hashlib.sha256, 4: hashlib.sha384}[digest_type]
    owner = W.encode_name([W.lower(l) for l in owner_labels])
    return h(owner + dnskey_rdata).digest()


def ds_rdata(owner_labels, dnskey_rdata, digest_type):
    return struct.pack("!HBB", key_tag(dnskey_rdata), dnskey_rdata[3], digest_type) + ds_digest(owner_labels, dnskey_rdata, digest_type)


def nsec3_hash(labels, salt, iterations):
    x = W.encode_name([W.lower(l) for l in labels])
    d = hashlib.sha1(x + salt).digest()
    for _ in range(iterations):
        d = hashlib.sha1(d + salt).digest()
    b32 = base64.b32encode(d).decode()
    return b32.translate(str.maketrans("ABCDEFGHIJKLMNOPQRSTUVWXYZ234567", "0123456789ABCDEFGHIJKLMNOPQRSTUV"))


class Invalid(Exception):
    pass


def rrsig_signing_input(owner_labels, rdclass, rdtype, rdatas, rrsig_rdata):
    """RFC 4034 3.1.8.1.  owner_labels: absolute.  rdatas: uncompressed RDATA list with absolute
    names.  rrsig_rdata: uncompressed RRSIG RDATA (signature ignored)."""
    fixed = rrsig_rdata[:18]
    labels_field = rrsig_rdata[3]
    orig_ttl = rrsig_rdata[4:8]
    signer = W.read_name(rrsig_rdata, 18)
    out = fixed + W.encode_name([W.lower(l) for l in signer.labels])
    owner = [W.lower(l) for l in owner_labels]
    n = len(owner) - 1  # labels excluding root
    counted = n - 1 if owner and owner[0] == b"*" else n
    if labels_field > counted:
        raise Invalid("RRSIG labels field exceeds the owner name's label count")
    if labels_field < counted:
        owner = [b"*"] + owner[len(owner) - 1 - labels_field :]
    name = W.encode_name(owner)
    for rd in C.canonical_rrset_order(rdtype, rdatas):
        out += name + struct.pack("!HH", rdtype, rdclass) + orig_ttl + struct.pack("!H", len(rd)) + rd
    return out


def zonemd_digest(zone, origin_labels, alg):
    """zone: {owner_key: {(rdtype, covers): (ttl, set(canonical rdata))}} (vlib.zoneutil shape);
    RFC 8976 3.3.1 SIMPLE scheme; alg 1 = SHA-384, 2 = SHA-512; class IN."""
    h = {1: hashlib.sha384, 2: hashlib.sha512}[alg]()
    apex = W.name_key(origin_labels)
    for ok in sorted(zone):
        name = W.encode_name(list(reversed(ok)))
        for (rdtype, covers) in sorted(zone[ok]):
            if ok == apex and 63 in (rdtype, covers):
                continue
            ttl, rds = zone[ok][(rdtype, covers)]
            for rd in sorted(rds):
                h.update(name + struct.pack("!HHIH", rdtype, 1, ttl, len(rd)) + rd)
    return h.digest()


NS_, DS_, RRSIG_, NSEC_ = 2, 43, 46, 47


def nsec_chain(zone, origin_labels):
    """RFC 4035 2.3 NSEC chain for a zone in vlib.zoneutil shape.
    Returns (chain, signed) where chain = [(owner_key, next_key, set(types in bitmap))] in
    canonical order and signed = set of (owner_key, rdtype) that must be signed (RRSIG RRsets
    themselves excluded; NSEC included)."""
    apex = W.name_key(origin_labels)
    names = sorted(zone)
    cuts = [k for k in names if k != apex and any(t == NS_ for (t, c) in zone[k])]

    def below_cut(k):
        return any(len(k) > len(c) and k[: len(c)] == c for c in cuts)

    secure = [k for k in names if not below_cut(k)]
    chain = []
    signed = set()
    for i, k in enumerate(secure):
        nxt = secure[(i + 1) % len(secure)]
        types = {t for (t, c) in zone[k]}
        if k in cuts:
            # RFC 4035 2.3: at a delegation only NS, DS (parent-side authoritative), NSEC, RRSIG
            bitmap = {t for t in types if t in (NS_, DS_)} | {RRSIG_, NSEC_}
            for t in types:
                if t == DS_:
                    signed.add((k, t))
        else:
            bitmap = set(types) | {RRSIG_, NSEC_}
            for t in types:
                if t != RRSIG_:
                    signed.add((k, t))
        signed.add((k, NSEC_))
        chain.append((k, nxt, bitmap))
    return chain, signed


def bitmap_wire(types):
    """RFC 4034 4.1.2 encoding of a set of type numbers: windows in increasing order, each with
    the minimal bitmap length (no trailing zero octets), windows without members omitted"""
    wins = {}
    for t in types:
        wins.setdefault(t >> 8, set()).add(t & 0xFF)
    out = bytearray()
    for w in sorted(wins):
        bits = wins[w]
        n = max(bits) // 8 + 1
        bm = bytearray(n)
        for b in bits:
            bm[b // 8] |= 0x80 >> (b % 8)
        out += bytes([w, n]) + bm
    return bytes(out)


def bitmap_types(windows_wire):
    """decode an NSEC type bitmap (wire) into a set of type numbers"""
    out = set()
    pos = 0
    while pos < len(windows_wire):
        w, l = windows_wire[pos], windows_wire[pos + 1]
        for i in range(l):
            b = windows_wire[pos + 2 + i]
            for j in range(8):
                if b & (0x80 >> j):
                    out.add(w * 256 + i * 8 + j)
        pos += 2 + l
    return out
