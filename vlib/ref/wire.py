"""Independent DNS wire-format walker (RFC 1035 section 4).  Imports nothing from dns."""

import struct


class WireError(Exception):
    pass


def lower(b):
    return bytes(c + 32 if 65 <= c <= 90 else c for c in b)


def name_key(labels):
    """RFC 4034 6.1 sort key of a label sequence (absolute or relative)."""
    return tuple(lower(l) for l in reversed(labels))


def wire_len(labels):
    return sum(len(l) + 1 for l in labels)


class NameInfo:
    __slots__ = ("labels", "end", "pointers", "label_starts", "start")

    def __init__(self):
        self.labels = []
        self.end = None  # offset just after the name's in-place encoding
        self.pointers = []  # (offset_of_pointer, target)
        self.label_starts = []  # (offset, index_of_label_in_labels) of every literal label
        self.start = None


def read_name(buf, off):
    """Decode a possibly compressed name at ``off``.

    Rule for pointers (strictly backwards, terminating by construction): the name is read
    as a chain of *segments*; the first segment starts at ``off``, each pointer starts a new
    segment at its target, and a pointer is legal only if its target lies strictly before
    the start of the segment it occurs in.  Segment starts are therefore strictly
    decreasing.
    """
    info = NameInfo()
    info.start = off
    seg_start = off
    pos = off
    total = 0
    jumped = False
    n = len(buf)
    while True:
        if pos >= n:
            raise WireError("name runs past end of buffer")
        c = buf[pos]
        if c == 0:
            info.labels.append(b"")
            info.label_starts.append((pos, len(info.labels) - 1))
            total += 1
            if not jumped:
                info.end = pos + 1
            break
        if c < 64:
            if pos + 1 + c > n:
                raise WireError("label runs past end of buffer")
            info.label_starts.append((pos, len(info.labels)))
            info.labels.append(bytes(buf[pos + 1 : pos + 1 + c]))
            total += c + 1
            pos += 1 + c
        elif c >= 192:
            if pos + 2 > n:
                raise WireError("pointer runs past end of buffer")
            target = ((c & 0x3F) << 8) | buf[pos + 1]
            if target >= seg_start:
                raise WireError("pointer does not point strictly backwards")
            info.pointers.append((pos, target))
            if not jumped:
                info.end = pos + 2
                jumped = True
            seg_start = target
            pos = target
        else:
            raise WireError("reserved label type")
    if total > 255:
        raise WireError("name too long")
    return info


def inplace_end(buf, off):
    """offset just after the name as it appears in place (after its first pointer, or after
    its root label), or None when the in-place part is malformed / runs off the buffer"""
    pos = off
    n = len(buf)
    while pos < n:
        c = buf[pos]
        if c == 0:
            return pos + 1
        if c >= 192:
            return pos + 2 if pos + 2 <= n else None
        if c >= 64:
            return None
        pos += 1 + c
    return None


def encode_name(labels):
    out = bytearray()
    for l in labels:
        out.append(len(l))
        out += l
    return bytes(out)


# ---------------------------------------------------------------------------
# RDATA layouts of the types that carry domain names ("N" = domain name, digits = fixed
# octet count, "S" = one character-string, "*" = rest opaque).  Used to find and decompress
# embedded names and (in canon.py) to lower-case them.

NS, CNAME, SOA, PTR, MX, RP, AFSDB, RT, SIG, PX, NAPTR, KX, SRV, DNAME = (
    2, 5, 6, 12, 15, 17, 18, 21, 24, 26, 35, 36, 33, 39,
)
RRSIG, NSEC, LP, TSIG, TKEY, HIP, IPSECKEY, AMTRELAY, SVCB, HTTPS, DSYNC, NSAP_PTR, OPT = (
    46, 47, 107, 250, 249, 55, 45, 260, 64, 65, 66, 23, 41,
)

RDATA_NAME_LAYOUT = {
    NS: "N",
    CNAME: "N",
    PTR: "N",
    DNAME: "N",
    NSAP_PTR: "N",
    SOA: "NN*",
    MX: "2N",
    AFSDB: "2N",
    RT: "2N",
    KX: "2N",
    RP: "NN",
    PX: "2NN",
    SRV: "6N",
    NAPTR: "4SSSN",
    SIG: "18N*",
    RRSIG: "18N*",
    NSEC: "N*",
    LP: "2N",
    TSIG: "N*",
    TKEY: "N*",
    SVCB: "2N*",
    HTTPS: "2N*",
    DSYNC: "5N",
}


CH = 3


def layout_for(rdtype, rdclass):
    """name layout of (type, class): Chaosnet A (class CH, type 1) is a domain name followed by a
    16-bit address; every other layout is class-independent"""
    if rdclass == CH and rdtype == 1:
        return "N2"
    return RDATA_NAME_LAYOUT.get(rdtype)


def split_rdata(rdtype, rdclass, buf, start, end):
    """Return a list of ('raw', bytes) / ('name', NameInfo) pieces covering buf[start:end].
    Types without embedded names come back as one raw piece."""
    layout = layout_for(rdtype, rdclass)
    if layout is None:
        return [("raw", bytes(buf[start:end]))]
    pieces = []
    pos = start
    for ch in _tokens(layout):
        if ch == "N":
            info = read_name(buf, pos)
            if info.end > end:
                raise WireError("name crosses RDATA end")
            pieces.append(("name", info))
            pos = info.end
        elif ch == "S":
            if pos >= end:
                raise WireError("character-string missing")
            l = buf[pos]
            if pos + 1 + l > end:
                raise WireError("character-string crosses RDATA end")
            pieces.append(("raw", bytes(buf[pos : pos + 1 + l])))
            pos += 1 + l
        elif ch == "*":
            pieces.append(("raw", bytes(buf[pos:end])))
            pos = end
        else:
            k = int(ch)
            if pos + k > end:
                raise WireError("fixed field crosses RDATA end")
            pieces.append(("raw", bytes(buf[pos : pos + k])))
            pos += k
    if pos != end:
        raise WireError(f"RDATA has {end - pos} unparsed octets")
    return pieces


def _tokens(layout):
    i = 0
    while i < len(layout):
        if layout[i].isdigit():
            j = i
            while j < len(layout) and layout[j].isdigit():
                j += 1
            yield layout[i:j]
            i = j
        else:
            yield layout[i]
            i += 1


def uncompressed_rdata(pieces):
    out = bytearray()
    for kind, v in pieces:
        if kind == "raw":
            out += v
        else:
            out += encode_name(v.labels)
    return bytes(out)


class RR:
    __slots__ = (
        "section", "owner", "rdtype", "rdclass", "ttl", "rdlen", "rdata_start",
        "rdata_end", "start", "end", "pieces",
    )


class Msg:
    pass


def walk_message(buf, parse_rdata=True):
    """Walk a complete DNS message; return Msg with header fields, questions, rrs and the
    list of all names (NameInfo) found, in order of appearance."""
    if len(buf) < 12:
        raise WireError("short header")
    m = Msg()
    (m.id, m.flags, qd, an, ns, ar) = struct.unpack("!HHHHHH", buf[:12])
    zone_class = None  # UPDATE: RDATA under class ANY/NONE is in the format of the zone's class
    m.counts = (qd, an, ns, ar)
    m.questions = []
    m.rrs = []
    m.names = []
    pos = 12
    for _ in range(qd):
        info = read_name(buf, pos)
        m.names.append(info)
        pos = info.end
        if pos + 4 > len(buf):
            raise WireError("question runs past end")
        t, c = struct.unpack("!HH", buf[pos : pos + 4])
        pos += 4
        m.questions.append((info, t, c))
        if (m.flags >> 11) & 0xF == 5 and zone_class is None:
            zone_class = c
    for section, cnt in ((1, an), (2, ns), (3, ar)):
        for _ in range(cnt):
            rr = RR()
            rr.section = section
            rr.start = pos
            info = read_name(buf, pos)
            m.names.append(info)
            rr.owner = info
            pos = info.end
            if pos + 10 > len(buf):
                raise WireError("RR header runs past end")
            rr.rdtype, rr.rdclass, rr.ttl, rr.rdlen = struct.unpack(
                "!HHIH", buf[pos : pos + 10]
            )
            pos += 10
            rr.rdata_start = pos
            rr.rdata_end = pos + rr.rdlen
            if rr.rdata_end > len(buf):
                raise WireError("RDATA runs past end")
            rr.pieces = None
            if parse_rdata and rr.rdlen > 0:
                # class-specific layouts apply to IN (and ANY for TSIG/TKEY); update
                # messages use class NONE/ANY with real RDATA of the zone class
                eff = zone_class if (zone_class is not None and rr.rdclass in (254, 255)) else rr.rdclass
                rr.pieces = split_rdata(rr.rdtype, eff, buf, pos, rr.rdata_end)
                for kind, v in rr.pieces:
                    if kind == "name":
                        m.names.append(v)
            pos = rr.rdata_end
            rr.end = pos
            m.rrs.append(rr)
    m.end = pos
    return m


def check_pointers(buf, m):
    """Every pointer must target the start of a literal label that an earlier-or-same
    name decoding recorded, at offset <= 0x3FFF and strictly before the pointer itself.
    Returns the number of pointers; raises WireError otherwise."""
    starts = set()
    for info in m.names:
        for off, _ in info.label_starts:
            starts.add(off)
    n = 0
    for info in m.names:
        for poff, target in info.pointers:
            n += 1
            if target > 0x3FFF:
                raise WireError("pointer target beyond 0x3FFF")
            if target >= poff:
                raise WireError("pointer not strictly backwards")
            if target not in starts:
                raise WireError(f"pointer at {poff} targets {target}, not a label start")
    return n
