"""Independent master-file (RFC 1035 section 5) writer and RESPELLING ENGINE for C09.

Imports nothing from dns.  A *model* is a list of items in file order; its meaning is the
multiset of in-zone records, independent of how each is spelled:

  {"k": "rr",   "owner": [labels... b""], "ttl": int, "rdtype": int, "type": "MX",
                "text": "<rdata presentation text, absolute names>", "wire": bytes,
                "name_rd": None | {"prefix": ["10"], "target": [labels... b""]},
                "generic_ok": bool | callable(current origin labels) -> bool,
                "p": {per-record spelling plan}}
  {"k": "gen",  ... a $GENERATE pattern, see expand_generate() ...}
  {"k": "junk", "owner": [labels out of zone], "ttl": int, "type": "A", "text": "...",
                "cont": bool, "p": {...}}            -- must be ignored by the reader
  {"k": "origin", "to": [labels... b""]}              -- mid-file $ORIGIN
  {"k": "blank", "v": int} / {"k": "comment", "text": str, "v": int}

canonical(model)  -> one fully explicit absolute line per RR, nothing else
respell(model, ...) -> the same meaning written with the requested meaning-preserving
                     rewrites, each applied only where the *documented* reader rules make it
                     equivalent (the engine tracks the reader-visible state itself):

  owner:  omitted (leading white space)  = the owner of the previous RR line (RFC 1035 5.1),
          also across $ORIGIN and after an ignored out-of-zone line (then: that owner)
  names:  not ending in "." = relative to the current $ORIGIN; "@" = the current origin
  TTL:    omitted = the $TTL default if one is in force (RFC 2308 4), else the last
          explicitly stated TTL (RFC 1035 5.1), else -- for the SOA RR itself -- the SOA
          minimum; an SOA seen while no $TTL is in force makes its minimum the default for
          what follows (documented in dns.zonefile.Reader._rr_line)
  TTL spelling: seconds or BIND units w d h m s in either case
  class:  omitted = the zone's class; TTL and class in either order; CLASSnnn
  type:   mnemonic in either case or TYPEnnn; RDATA as text or as RFC 3597 "\\# len hex"
  layout: parentheses make line ends white space; ";" comments; blank lines; tabs
  $GENERATE start-stop[/step] lhs [ttl] [class] type rhs  with $ / ${offset[,width[,base]]}
"""

from collections import Counter

from vlib.ref import canon as C
from vlib.ref import wire as W

ESCAPED = b'"().;\\@$'
SOA = 6
RRSIG = 46
SIG = 24
CLASS_MNEMONIC = {1: "IN", 3: "CH", 4: "HS"}


# ---------------------------------------------------------------------------
# names


def label_text(label, ddd=0):
    """Master-file spelling of one label.  ddd: bit i (mod 16) set = spell octet i as \\DDD
    even though it is printable (an equivalent spelling); ddd == -1: only "$" is spelled
    \\036 (for $GENERATE templates, where a literal "$" would be substituted)."""
    out = []
    for i, c in enumerate(label):
        force = (c == 0x24) if ddd == -1 else (ddd >> (i % 16)) & 1
        if force or c <= 0x20 or c >= 0x7F:
            out.append("\\%03d" % c)
        elif c in ESCAPED:
            out.append("\\" + chr(c))
        else:
            out.append(chr(c))
    return "".join(out)


def abs_text(labels, ddd=0):
    assert labels and labels[-1] == b""
    if len(labels) == 1:
        return "."
    return ".".join(label_text(l, ddd) for l in labels[:-1]) + "."


def relative_part(labels, origin):
    """labels below origin (list, possibly empty) if name is at or below origin, else None"""
    n, o = len(labels), len(origin)
    if n < o:
        return None
    if [W.lower(l) for l in labels[n - o:]] != [W.lower(l) for l in origin]:
        return None
    return list(labels[: n - o])


def rel_text(rel, ddd=0):
    if not rel:
        return "@"
    return ".".join(label_text(l, ddd) for l in rel)


def same_name(a, b):
    return a is not None and b is not None and W.name_key(a) == W.name_key(b)


# ---------------------------------------------------------------------------
# small pieces


def split_tokens(text):
    """split RDATA presentation text at white space outside quotes (backslash escapes the
    next character); the pieces are carried verbatim"""
    toks, cur, inq, i = [], "", False, 0
    while i < len(text):
        c = text[i]
        if c == "\\":
            cur += text[i: i + 2]
            i += 2
            continue
        if c == '"':
            inq = not inq
            cur += c
        elif c in " \t" and not inq:
            if cur:
                toks.append(cur)
            cur = ""
        else:
            cur += c
        i += 1
    if cur:
        toks.append(cur)
    return toks


_UNITS = ((604800, "w"), (86400, "d"), (3600, "h"), (60, "m"), (1, "s"))


def ttl_text(ttl, variant):
    """0: seconds; 1/2/3: greedy w d h m s (lower / upper / alternating case);
    4: the largest single unit that divides the value; 5: explicit seconds unit"""
    if variant == 0:
        return str(ttl)
    if variant == 5 or ttl == 0:
        return f"{ttl}s" if variant != 2 else f"{ttl}S"
    if variant == 4:
        for size, u in _UNITS:
            if ttl % size == 0:
                return f"{ttl // size}{u}"
    parts, rest = [], ttl
    for size, u in _UNITS:
        if rest >= size:
            parts.append((rest // size, u))
            rest %= size
    out = ""
    for i, (n, u) in enumerate(parts):
        if variant == 2 or (variant == 3 and i % 2 == 0):
            u = u.upper()
        out += f"{n}{u}"
    return out


def class_text(rdclass):
    return CLASS_MNEMONIC.get(rdclass, f"CLASS{rdclass}")


def soa_minimum(wire):
    return int.from_bytes(wire[-4:], "big")


def generic_tokens(wire, chunk):
    toks = ["\\#", str(len(wire))]
    h = wire.hex()
    if chunk <= 0:
        chunk = len(h) or 1
    toks += [h[i: i + chunk] for i in range(0, len(h), chunk)]
    return toks


_SEPS = [" ", "\t", "  ", " \t"]


# ---------------------------------------------------------------------------
# $GENERATE (BIND 9 ARM: range lhs [ttl] [class] type rhs; $ = iterator value,
# ${offset,width,base}: value+offset, zero-padded to width, base d o x X n N; n = nibbles,
# least significant first, separated by dots, width counts the dots)


def fmt_index(idx, base, width):
    if base in "doxX":
        return format(idx, base).zfill(width)
    k = (width + 1) // 2
    assert width % 2 == 1 and 0 <= idx < 16 ** k
    h = format(idx, "x").zfill(k)
    s = ".".join(reversed(h))
    return s.upper() if base == "N" else s


def mod_text(mod, plus=False):
    if mod is None:
        return "$"
    off, width, base = mod
    o = str(off) if off < 0 or not plus else f"+{off}"
    if base is not None:
        return "${%s,%d,%s}" % (o, width, base)
    if width is not None:
        return "${%s,%d}" % (o, width)
    return "${%s}" % o


def _expand_side(pre, mod, post, i):
    if mod is None:
        return pre + str(i) + post
    off, width, base = mod
    return pre + fmt_index(i + off, base or "d", width or 0) + post


def _ldh_labels(s):
    return [x.encode("ascii") for x in s.split(".")]


def expand_generate(g):
    """-> list of rr items (owner, ttl, rdtype, type, text, wire) in generation order"""
    out = []
    for i in range(g["start"], g["stop"] + 1, g["step"]):
        owner = _ldh_labels(_expand_side(g["lpre"], g["lmod"], g["lpost"], i)) + list(g["lbase"])
        r = _expand_side(g["rpre"], g["rmod"], g["rpost"], i)
        t = g["type"]
        if t == "A":
            wire = bytes(int(x) for x in r.split("."))
            text = r
            rdtype = 1
        elif t == "TXT":
            wire = bytes([len(r)]) + r.encode("ascii")
            text = '"' + r + '"'
            rdtype = 16
        else:
            target = _ldh_labels(r) + list(g["rbase"])
            wire = W.encode_name(target)
            text = abs_text(target)
            rdtype = {"NS": 2, "CNAME": 5, "PTR": 12}[t]
        out.append({"k": "rr", "owner": owner, "ttl": g["ttl"], "rdtype": rdtype, "type": t,
                    "text": text, "wire": wire, "name_rd": None, "generic_ok": False,
                    "p": g.get("xp") or {}})
    return out


# ---------------------------------------------------------------------------
# meaning


def records(model):
    for it in model["items"]:
        if it["k"] == "rr":
            yield it
        elif it["k"] == "gen":
            yield from expand_generate(it)


def expected(model):
    """{owner_key: {(rdtype, covers): (ttl, frozenset(canonical rdata))}} -- the conventions
    of vlib.zoneutil.extract; an RRset's TTL is the least TTL of its records (documented
    TTL minimisation of Rdataset.update_ttl)"""
    out = {}
    for r in records(model):
        k = W.name_key(r["owner"])
        covers = 0
        if r["rdtype"] in (RRSIG, SIG):
            covers = int.from_bytes(r["wire"][:2], "big")
        tk = (r["rdtype"], covers)
        node = out.setdefault(k, {})
        cr = C.canonical_rdata(r["rdtype"], r["wire"])
        if tk in node:
            ttl, s = node[tk]
            node[tk] = (min(ttl, r["ttl"]), s | {cr})
        else:
            node[tk] = (r["ttl"], frozenset([cr]))
    return out


def canonical(model):
    ct = class_text(model["rdclass"])
    lines = []
    for r in records(model):
        lines.append(f"{abs_text(r['owner'])} {r['ttl']} {ct} {r['type']} {r['text']}")
    return "\n".join(lines) + "\n"


# ---------------------------------------------------------------------------
# respelling


class _State:
    def __init__(self, origin):
        self.origin = list(origin)
        self.default = None  # $TTL / SOA-minimum default in force
        self.default_src = None
        self.last = None  # last explicitly stated TTL
        self.last_owner = None

    def omitted_ttl(self, rec):
        """(value the documented rules give an RR without a TTL field, rule name)"""
        if self.default is not None:
            return self.default, ("ttl-soa-default" if self.default_src == "soa" else "ttl-default")
        if self.last is not None:
            return self.last, "ttl-inherit-last"
        if rec is not None and rec["rdtype"] == SOA:
            return soa_minimum(rec["wire"]), "ttl-soa-minimum"
        return None, None


_OPEN, _CLOSE = object(), object()


def _layout(tokens, p, applied, lead):
    """join tokens (tokens[0] is the owner, or None when the owner is inherited and the line
    starts with the white space ``lead``) into one logical line, optionally parenthesised
    over several physical lines with comments and blank lines inside the parentheses"""
    sv = p.get("sep", 0) % len(_SEPS)
    sep = _SEPS[sv]
    if sv:
        applied["whitespace"] += 1
    owner, body = tokens[0], tokens[1:]
    ml = p.get("ml")
    if not ml:
        return (owner + sep if owner is not None else lead) + sep.join(body)
    n = len(body)
    op = ml[0] % (n + 1)
    cl = op + ml[1] % (n - op + 1)
    brk, cmt = ml[2], ml[3]
    applied["multiline"] += 1
    elems = []
    for i in range(n + 1):
        if i == op:
            elems.append(_OPEN)
        if i == cl:
            elems.append(_CLOSE)
        if i < n:
            elems.append(body[i])
    out = owner if owner is not None else lead
    inside = False
    for j, e in enumerate(elems):
        if j == 0:
            s = sep if owner is not None else ""
        elif inside:
            b = (brk >> (2 * (j % 8))) & 3
            if (cmt >> (j % 16)) & 1:
                s = " ; c%d (x \"y\n" % j + ("" if b == 0 else "  ")
                applied["multiline-comment"] += 1
            elif b == 1:
                s = "\n"
            elif b == 2:
                s = "\n\n\t"
                applied["multiline-blank"] += 1
            elif b == 3:
                s = "\n   "
            else:
                s = sep
        else:
            s = sep
        if e is _OPEN:
            out += s + "("
            inside = True
        elif e is _CLOSE:
            out += s + ")"
            inside = False
        else:
            out += s + e
    return out


def respell(model, top_origin=False, top_ttl=None, no_directives=False, rel_origin_ok=False,
            final_newline=True):
    """-> (text, applied: Counter of rewrite kinds, default_ttl_param)

    no_directives: the text is meant for dns.zonefile.read_rrsets (no directive
    processing): an initial $TTL becomes the function's default_ttl parameter, $GENERATE is
    written expanded, mid-file $ORIGIN / $TTL are not used."""
    origin = list(model["origin"])
    rdclass = model["rdclass"]
    st = _State(origin)
    applied = Counter()
    lines = []
    default_param = None
    if top_origin and not no_directives:
        lines.append("$ORIGIN " + abs_text(origin))
        applied["origin-top"] += 1
    if top_ttl is not None:
        st.default, st.default_src = top_ttl[0], "ttl"
        if no_directives:
            default_param = top_ttl[0]
        else:
            lines.append("$TTL " + ttl_text(top_ttl[0], top_ttl[1]))

    def owner_tokens(it, p):
        owner = it["owner"]
        ddd = p.get("esc", 0)
        want = p.get("own", 0)
        if want == 2 and same_name(st.last_owner, owner):
            applied["owner-inherit"] += 1
            return None
        rel = relative_part(owner, st.origin) if want >= 1 else None
        if rel is not None:
            t = rel_text(rel, ddd)
            applied["owner-at" if not rel else "owner-relative"] += 1
            if not same_name(st.origin, origin):
                applied["relative-under-mid-origin"] += 1
        else:
            t = abs_text(owner, ddd)
        if ddd and t != (rel_text(rel) if rel is not None else abs_text(owner)):
            applied["name-escape"] += 1
        return t

    def header(it, p, allow_dollar_ttl=True):
        """TTL/class tokens for an rr item; may emit a $TTL line first"""
        ttl = it["ttl"]
        mode = p.get("ttl", 0)
        if mode == 2 and allow_dollar_ttl and not no_directives and st.default != ttl:
            lines.append("$TTL " + ttl_text(ttl, p.get("tfmt", 0)))
            st.default, st.default_src = ttl, "ttl"
            applied["ttl-dollar"] += 1
        toks_ttl = None
        eff, rule = st.omitted_ttl(it)
        if mode in (1, 2) and eff == ttl:
            applied[rule] += 1
        else:
            toks_ttl = ttl_text(ttl, p.get("tfmt", 0))
            if p.get("tfmt", 0):
                applied["ttl-units"] += 1
            st.last = ttl
        cm = p.get("cls", 0)
        if cm == 1:
            toks_cls = None
            applied["class-omitted"] += 1
        elif cm == 2:
            toks_cls = f"CLASS{rdclass}"
            applied["class-generic"] += 1
        elif cm == 3:
            toks_cls = class_text(rdclass).lower()
            applied["mnemonic-case"] += 1
        else:
            toks_cls = class_text(rdclass)
        out = [t for t in (toks_ttl, toks_cls) if t is not None]
        if len(out) == 2 and p.get("ord", 0) == 1:
            out.reverse()
            applied["class-ttl-order"] += 1
        return out

    def type_token(it, p):
        tm = p.get("typ", 0)
        if tm == 1:
            applied["type-generic"] += 1
            return f"TYPE{it['rdtype']}"
        if tm == 2 and it["type"].lower() != it["type"]:
            applied["mnemonic-case"] += 1
            return it["type"].lower()
        return it["type"]

    def rdata_tokens(it, p):
        rm = p.get("rd", 0)
        ok = it.get("generic_ok")
        if callable(ok):
            ok = ok(st.origin)  # may depend on the origin in force (see C09 EXCLUDE_GENERIC_READ)
        if rm == 1 and ok:
            applied["rdata-generic"] += 1
            return generic_tokens(it["wire"], p.get("hexchunk", 0))
        nr = it.get("name_rd")
        if rm == 2 and nr is not None:
            rel = relative_part(nr["target"], st.origin)
            if rel is not None:
                applied["rdata-relative"] += 1
                if not same_name(st.origin, origin):
                    applied["rdata-relative-under-mid-origin"] += 1
                return list(nr["prefix"]) + [rel_text(rel)]
        return split_tokens(it["text"])

    def finish(line, p):
        c = p.get("cmt")
        if c is not None:
            applied["trailing-comment"] += 1
            line += " ;" + c
        lines.append(line)

    def write_rr(it, junk=False):
        nonlocal applied
        p = it.get("p") or {}
        before = len(lines)
        if junk:
            # nothing on an ignored line may influence what follows (except the owner); the
            # spellings used on it are not counted as rewrites of the model
            keep = (st.default, st.default_src, st.last, applied)
            applied = Counter()
            ot = owner_tokens(it, p)
            hd = header(it, p, allow_dollar_ttl=False)
            toks = [ot] + hd + [type_token(it, p)] + rdata_tokens(it, p)
            lead = "\t" if p.get("sep", 0) % 2 else "    "
            finish(_layout(toks, p, applied, lead), p)
            st.default, st.default_src, st.last, applied = keep
            st.last_owner = list(it["owner"])
            return before
        ot = owner_tokens(it, p)
        hd = header(it, p)
        toks = [ot] + hd + [type_token(it, p)] + rdata_tokens(it, p)
        lead = "\t" if p.get("sep", 0) % 2 else "    "
        finish(_layout(toks, p, applied, lead), p)
        st.last_owner = list(it["owner"])
        if not junk and it["rdtype"] == SOA and st.default is None:
            st.default, st.default_src = soa_minimum(it["wire"]), "soa"
        return before

    for it in model["items"]:
        k = it["k"]
        if k == "rr":
            write_rr(it)
        elif k == "junk":
            applied["out-of-zone"] += 1
            if it.get("cont") and same_name(st.last_owner, it["owner"]):
                applied["out-of-zone-inherited"] += 1
            write_rr(dict(it, rdtype=0, wire=b"", name_rd=None, generic_ok=False), junk=True)
        elif k == "blank":
            lines.append(["", "   ", "\t", " \t "][it.get("v", 0) % 4])
            applied["blank-line"] += 1
        elif k == "comment":
            lines.append(("; " if it.get("v", 0) % 2 == 0 else "   ;") + it["text"])
            applied["comment-line"] += 1
        elif k == "origin":
            if no_directives:
                continue
            to = list(it["to"])
            rel = relative_part(to, st.origin) if rel_origin_ok else None
            if rel:
                lines.append("$ORIGIN " + rel_text(rel))
                applied["origin-mid-relative"] += 1
            else:
                lines.append("$ORIGIN " + abs_text(to) + (" ; now here" if it.get("v", 0) % 3 == 0 else ""))
            applied["origin-mid"] += 1
            if same_name(to, origin):
                applied["origin-back"] += 1
            st.origin = to
        elif k == "gen":
            exp = expand_generate(it)
            p = it.get("p") or {}
            eff, rule = st.omitted_ttl(None)
            if no_directives or p.get("expand"):
                for r in exp:
                    write_rr(r)
                continue
            applied["generate"] += 1
            rng = f"{it['start']}-{it['stop']}"
            if it["step"] != 1 or p.get("step1"):
                rng += f"/{it['step']}"
                applied["generate-step"] += 1
            lhs = it["lpre"] + mod_text(it["lmod"], p.get("plus")) + it["lpost"]
            if it["lmod"] is not None:
                applied["generate-modifier"] += 1
            rel = relative_part(it["lbase"], st.origin) if p.get("own", 0) >= 1 else None
            if rel is not None:
                if rel:
                    lhs += "." + rel_text(rel, -1)
                applied["generate-relative"] += 1
                if not same_name(st.origin, origin):
                    applied["generate-under-mid-origin"] += 1
            else:
                lhs += ("." + abs_text(it["lbase"], -1)) if len(it["lbase"]) > 1 else "."
            rhs = it["rpre"] + mod_text(it["rmod"], p.get("plus")) + it["rpost"]
            if it["rmod"] is not None:
                applied["generate-modifier"] += 1
            if it["type"] in ("NS", "CNAME", "PTR"):
                rrel = relative_part(it["rbase"], st.origin) if p.get("rd", 0) == 2 else None
                if rrel is not None:
                    if rrel:
                        rhs += "." + rel_text(rrel, -1)
                else:
                    rhs += ("." + abs_text(it["rbase"], -1)) if len(it["rbase"]) > 1 else "."
            toks = ["$GENERATE", rng, lhs]
            if p.get("ttl", 0) in (1, 2) and eff == it["ttl"]:
                applied["generate-" + rule] += 1
            else:
                toks.append(ttl_text(it["ttl"], p.get("tfmt", 0)))
                st.last = it["ttl"]
            if p.get("cls", 0) != 1:
                toks.append(class_text(rdclass))
            toks += [it["type"], rhs]
            sep = _SEPS[p.get("sep", 0) % len(_SEPS)]
            finish(sep.join(toks), p)
            st.last_owner = list(exp[-1]["owner"])
        else:
            raise ValueError(k)
    text = "\n".join(lines)
    if final_newline:
        text += "\n"
    else:
        applied["no-final-newline"] += 1
    return text, applied, default_param
