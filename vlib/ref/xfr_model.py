"""Independent interpreter for zone-transfer response streams (RFC 5936 AXFR, RFC 1995 IXFR).

Imports nothing from dns.  Everything is plain data:

    RR(owner, rdtype, rdclass, ttl, rdata, serial)
        owner   tuple of lower-cased labels of the ABSOLUTE owner name, most significant label
                first (vlib.ref.wire.name_key)
        rdata   canonical RDATA octets (vlib.ref.canon.canonical_rdata of the uncompressed RDATA)
        serial  the SOA serial for rdtype == SOA, else None
    Msg(rcode, question, rrs)
        question  None (no question section) or (owner_key, qtype, qclass)
    zone content  { owner_key : { (rdtype, covers) : (ttl, frozenset(rdata)) } }   (= zoneutil.extract)

    interpret(origin, content, serial, qtype, is_udp, messages) -> Accept | Reject

The stream grammar is the one of the RFCs:

    AXFR  (RFC 5936 2.2):  SOA  rr*  SOA            first and last RR are the same apex SOA
    IXFR  (RFC 1995 4):    SOA_new                  alone: client is up to date (serial equal) /
                                                    the server is behind / over UDP: "use TCP"
                           SOA_new rr* SOA_new      second RR is not an SOA: AXFR-style answer
                           SOA_new (SOA_a del* SOA_b add*)+ SOA_new
                                                    first SOA_a carries the client's serial, every
                                                    later SOA_a the serial of the preceding SOA_b,
                                                    the last SOA_b is SOA_new
    a message with rcode != 0 or with a question that is not (origin, qtype) ends the transfer;
    the stream is consumed message by message and the receiver stops reading at the message
    that holds the final SOA, so RRs after the final SOA *in that message* are an error and
    later messages are never looked at.

Where the RFCs and the library documentation leave the verdict open the model follows the
documented transaction semantics of dnspython and records the decision in ``lenient``:

    add_existing            IXFR/AXFR addition of an RR that is already there: union (no-op)
    ttl_min_on_add          addition to an existing RRset with another TTL: the RRset keeps the
                            lower TTL (RFC 2181 5.2; Rdataset.update_ttl "TTL minimization")
    delete_missing          IXFR deletion of an RR that is not there: rejected (delete_exact)
    delete_ttl_ignored      IXFR deletion matches on RDATA, the TTL of the deletion RR is not
                            compared
    singleton_replace       adding a second CNAME/DNAME/NSEC/NXT replaces the first
                            (dns.rdatatype.is_singleton)
    cname_other_data        storing a CNAME removes "other data" at the node and vice versa
                            (dns.node.Node: "the most recent change wins")
    out_of_zone_ignored     RRs whose owner is not at or below the origin are skipped
    serial_incomparable     first SOA exactly 2^31 away from the client's serial: RFC 1982
                            leaves the comparison undefined; treated as "not backwards"
    diff_serial_not_increasing
                            an IXFR difference sequence whose target serial is not RFC 1982
                            greater than its base is applied all the same (RFC 1995 is silent)
    no_question             a message without a question section is accepted (RFC 5936 2.2.1
                            allows that only after the first message)
    soa_fields_ignored      the base SOA of a difference sequence is only checked for its
                            serial, not compared with the SOA the client holds
    final_soa_ttl           the final SOA equals the first one up to its TTL; the TTL of the
                            final one is stored
"""

from collections import namedtuple

AXFR = 252
IXFR = 251
SOA = 6
CNAME = 5
KEY = 25
NXT = 30
DNAME = 39
RRSIG = 46
NSEC = 47
NSEC3 = 50
IN = 1

SINGLETONS = {CNAME, DNAME, NSEC, NXT}  # SOA is handled on its own
CNAME_KIND, NEUTRAL_KIND, REGULAR_KIND = "cname", "neutral", "regular"

RR = namedtuple("RR", "owner rdtype rdclass ttl rdata serial")
Msg = namedtuple("Msg", "rcode question rrs")

REASONS = (
    "malformed",
    "out_of_order",
    "different_serial",
    "backwards",
    "use_tcp",
    "ends_early",
    "surplus",
    "rcode",
    "question",
)


class Accept:
    def __init__(self, content, serial, changed, final_msg, lenient, additions, deletions):
        self.ok = True
        self.content = content
        self.serial = serial
        self.changed = changed  # False only for the "already up to date" answer
        self.final_msg = final_msg  # index of the message that completed the transfer
        self.lenient = lenient
        self.additions = additions
        self.deletions = deletions

    def __repr__(self):
        return f"Accept(serial={self.serial}, changed={self.changed}, final_msg={self.final_msg})"


class Reject:
    def __init__(self, reason, why, lenient, applied):
        assert reason in REASONS
        self.ok = False
        self.reason = reason
        self.why = why
        self.lenient = lenient
        # True when the rejection comes after a complete, well-formed transfer (RRs after
        # the final SOA in the same message): the class a receiver could wrongly apply
        self.after_complete_transfer = applied

    def __repr__(self):
        return f"Reject({self.reason}: {self.why})"


def serial_lt(a, b):
    """RFC 1982 3.2: a < b for 32-bit serials"""
    a &= 0xFFFFFFFF
    b &= 0xFFFFFFFF
    return (a < b and b - a < 0x80000000) or (a > b and a - b > 0x80000000)


def serial_gt(a, b):
    return serial_lt(b, a)


def covers_of(rr):
    if rr.rdtype == RRSIG and len(rr.rdata) >= 2:
        return (rr.rdata[0] << 8) | rr.rdata[1]
    return 0


def kind_of(rdtype, covers):
    for kinds, result in (((CNAME,), CNAME_KIND), ((NSEC, NSEC3, KEY), NEUTRAL_KIND)):
        if rdtype in kinds or (rdtype == RRSIG and covers in kinds):
            return result
    return REGULAR_KIND


def copy_content(content):
    return {k: dict(v) for k, v in (content or {}).items()}


class _Zone:
    """the zone being assembled, with the documented storage rules"""

    def __init__(self, content, lenient):
        self.c = copy_content(content)
        self.lenient = lenient

    def put(self, owner, key, ttl, rdatas):
        node = self.c.setdefault(owner, {})
        kind = kind_of(*key)
        if kind != NEUTRAL_KIND:
            clash = REGULAR_KIND if kind == CNAME_KIND else CNAME_KIND
            for other in [k for k in node if k != key and kind_of(*k) == clash]:
                del node[other]
                self.lenient.add("cname_other_data")
        node[key] = (ttl, frozenset(rdatas))

    def add(self, rr):
        key = (rr.rdtype, covers_of(rr))
        node = self.c.get(rr.owner, {})
        old = node.get(key)
        if old is None:
            self.put(rr.owner, key, rr.ttl, [rr.rdata])
            return
        ttl, rdatas = old
        if rr.rdata in rdatas:
            self.lenient.add("add_existing")
        if rr.ttl != ttl:
            self.lenient.add("ttl_min_on_add")
        ttl = min(ttl, rr.ttl)
        if rr.rdtype in SINGLETONS:
            if rr.rdata not in rdatas:
                self.lenient.add("singleton_replace")
            rdatas = frozenset([rr.rdata])
        else:
            rdatas = rdatas | {rr.rdata}
        self.put(rr.owner, key, ttl, rdatas)

    def delete(self, rr):
        """-> True if the RR was there"""
        key = (rr.rdtype, covers_of(rr))
        node = self.c.get(rr.owner)
        old = None if node is None else node.get(key)
        if old is None or rr.rdata not in old[1]:
            return False
        ttl, rdatas = old
        if ttl != rr.ttl:
            self.lenient.add("delete_ttl_ignored")
        rdatas = rdatas - {rr.rdata}
        if rdatas:
            self.put(rr.owner, key, ttl, rdatas)
        else:
            del node[key]
            if not node:
                del self.c[rr.owner]
        return True

    def set_soa(self, rr):
        self.put(rr.owner, (SOA, 0), rr.ttl, [rr.rdata])


def interpret(origin, content, serial, qtype, is_udp, messages):
    """origin: owner key of the zone apex; content/serial: what the client holds (None, None
    for an empty zone; serial is required for IXFR); qtype: AXFR or IXFR; is_udp: the IXFR is
    attempted over UDP (a single datagram); messages: list of Msg."""
    if qtype not in (AXFR, IXFR):
        raise ValueError("qtype")
    if qtype == IXFR and serial is None:
        raise ValueError("IXFR needs the client's serial")
    if qtype == AXFR and is_udp:
        raise ValueError("AXFR over UDP")
    lenient = set()
    nlab = len(origin)

    def in_zone(owner):
        return owner[:nlab] == origin

    state = "first"
    zone = None
    first = None  # the first SOA RR
    cur = serial  # serial the next difference sequence must start from
    adds = dels = 0
    changed = True

    def reject(reason, why, applied=False):
        return Reject(reason, why, lenient, applied)

    for mi, msg in enumerate(messages):
        if msg.rcode != 0:
            return reject("rcode", f"message {mi} has rcode {msg.rcode}")
        if msg.question is None:
            lenient.add("no_question")
        else:
            qname, qt, _qc = msg.question
            if qname != origin:
                return reject("question", f"message {mi}: question name is not the origin")
            if qt != qtype:
                return reject("question", f"message {mi}: question type {qt} is not {qtype}")
        if state == "first" and not msg.rrs:
            return reject("malformed", "first message has no answer")
        for ri, rr in enumerate(msg.rrs):
            apex_soa = rr.rdtype == SOA and rr.owner == origin
            if state == "done":
                return reject(
                    "surplus", f"message {mi}: RR {ri} follows the final SOA", applied=changed
                )
            if state == "first":
                if not apex_soa:
                    return reject("out_of_order", "first RR is not the SOA of the origin")
                first = rr
                if qtype == IXFR:
                    if rr.serial == serial:
                        state = "done"
                        changed = False
                        zone = _Zone(content, lenient)
                        continue
                    if serial_lt(rr.serial, serial):
                        return reject("backwards", f"server serial {rr.serial} < client serial {serial}")
                    if not serial_gt(rr.serial, serial):
                        lenient.add("serial_incomparable")
                    if is_udp and len(msg.rrs) == 1:
                        return reject("use_tcp", "single SOA over UDP with a newer serial")
                    state = "second"
                else:
                    zone = _Zone(None, lenient)
                    state = "axfr"
                continue
            if state == "second":
                if apex_soa:
                    if rr.rdata == first.rdata:
                        return reject("malformed", "empty IXFR difference sequence")
                    if rr.serial != serial:
                        return reject(
                            "different_serial",
                            f"differences start from serial {rr.serial}, client holds {serial}",
                        )
                    lenient.add("soa_fields_ignored")
                    zone = _Zone(content, lenient)
                    state = "del"
                    continue
                # RFC 1995 4: the second RR is not an SOA -> the whole zone follows
                zone = _Zone(None, lenient)
                state = "axfr"
                # fall through: this RR is the first record of the zone
            if state == "axfr":
                if apex_soa:
                    if rr.rdata != first.rdata:
                        return reject("out_of_order", "another apex SOA inside an AXFR")
                    if rr.ttl != first.ttl:
                        lenient.add("final_soa_ttl")
                    zone.set_soa(rr)
                    state = "done"
                    continue
                if not in_zone(rr.owner):
                    lenient.add("out_of_zone_ignored")
                    continue
                if rr.rdclass != IN:
                    return reject("malformed", "RR of another class")
                if rr.rdtype == SOA:
                    return reject("malformed", "SOA below the apex")
                zone.add(rr)
                adds += 1
                continue
            if state == "del":
                if apex_soa:
                    if not serial_gt(rr.serial, cur):
                        lenient.add("diff_serial_not_increasing")
                    cur = rr.serial
                    zone.set_soa(rr)
                    state = "add"
                    continue
                if not in_zone(rr.owner):
                    lenient.add("out_of_zone_ignored")
                    continue
                if rr.rdclass != IN:
                    return reject("malformed", "RR of another class")
                if not zone.delete(rr):
                    lenient.add("delete_missing")
                    return reject("malformed", "deletion of an RR the zone does not hold")
                dels += 1
                continue
            if state == "add":
                if apex_soa:
                    if rr.rdata == first.rdata:
                        if cur != rr.serial:
                            return reject("different_serial", "final SOA does not close the last sequence")
                        if rr.ttl != first.ttl:
                            lenient.add("final_soa_ttl")
                        zone.set_soa(rr)
                        state = "done"
                        continue
                    if rr.serial != cur:
                        return reject(
                            "different_serial",
                            f"next sequence starts from {rr.serial}, zone is at {cur}",
                        )
                    state = "del"
                    continue
                if not in_zone(rr.owner):
                    lenient.add("out_of_zone_ignored")
                    continue
                if rr.rdclass != IN:
                    return reject("malformed", "RR of another class")
                if rr.rdtype == SOA:
                    return reject("malformed", "SOA below the apex")
                zone.add(rr)
                adds += 1
                continue
            raise AssertionError(state)
        # end of message
        if state == "done":
            if not changed:
                return Accept(zone.c, serial, False, mi, lenient, 0, 0)
            return Accept(zone.c, first.serial, True, mi, lenient, adds, dels)
        if is_udp:
            return reject("ends_early", "UDP IXFR does not finish in its datagram")
    return reject("ends_early", "stream ends before the final SOA")
