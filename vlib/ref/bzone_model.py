"""Reference model of the derived state of a B-tree zone (imports nothing from dns).

Everything is recomputed from the committed zone CONTENT alone, by definition, never
incrementally:

    content  = { owner_key : set of rdtypes (ints) }        owner_key = tuple of lower-cased
    apex     = owner_key of the zone origin                  labels of the absolute name, most
                                                             significant label first
                                                             (vlib.zoneutil.owner_key)

Python's tuple/bytes comparison of owner keys IS the RFC 4034 section 6.1 canonical order
(labels compared from the most significant one, each as lower-cased octet strings, a name that
is a proper prefix of another -- i.e. an ancestor -- sorting first).

Definitions (dns/btreezone.py docstrings: NodeFlags, Bounds, ImmutableVersion.bounds; property
C20 statement):

* ORIGIN      on the apex, nowhere else.
* cut         a non-apex owner of an NS rdataset that has no NS-owning proper ancestor inside
              the zone other than the apex ("not at the origin, and not on nodes beneath a
              delegation").  DELEGATION flag + one delegation-index entry per cut.
* GLUE        every existing name that is a proper subdomain of a cut ("occluded").
* nothing else is flagged.
* bounds(q)   over the NON-OCCLUDED existing names S (everything without GLUE):
      left              greatest s in S with s <= q
      right             least s in S with s > q, or None
      closest_encloser  longest ancestor-or-self p of q (not shorter than the apex) such that
                        some s in S is at or below p  (so empty non-terminals count)
      is_equal          left == q
      is_delegation     q is at or below a cut
  For a q at or below a cut C these definitions give left == closest_encloser == C (all names
  between C and q in canonical order are descendants of C, hence occluded); the model asserts
  that about itself.
"""

ORIGIN = 0x01
DELEGATION = 0x02
GLUE = 0x04

NS = 2


def is_proper_ancestor(a, b):
    """a, b owner keys: is a a proper ancestor of b?"""
    return len(a) < len(b) and b[: len(a)] == a


def is_at_or_below(b, a):
    """is b equal to a or a descendant of a?"""
    return len(a) <= len(b) and b[: len(a)] == a


def flag_names(f):
    out = [n for bit, n in ((ORIGIN, "ORIGIN"), (DELEGATION, "DELEGATION"), (GLUE, "GLUE")) if f & bit]
    return "|".join(out) or "NONE"


class Bounds:
    __slots__ = ("left", "right", "closest_encloser", "is_equal", "is_delegation", "cut", "full_pred")

    def __init__(self, left, right, closest_encloser, is_equal, is_delegation, cut, full_pred):
        self.left = left
        self.right = right
        self.closest_encloser = closest_encloser
        self.is_equal = is_equal
        self.is_delegation = is_delegation
        self.cut = cut  # the cut q is at or below, or None
        self.full_pred = full_pred  # greatest EXISTING name <= q, occluded or not


class Model:
    def __init__(self, apex, content):
        self.apex = tuple(apex)
        self.content = {tuple(k): set(v) for k, v in content.items() if v}
        for k in self.content:
            if not is_at_or_below(k, self.apex):
                raise AssertionError(f"owner {k!r} is not inside the zone {self.apex!r}")
        self._names = sorted(self.content)
        self._ns_owners = [k for k in self._names if k != self.apex and NS in self.content[k]]
        self._cuts = [
            k
            for k in self._ns_owners
            if not any(is_proper_ancestor(a, k) for a in self._ns_owners)
        ]
        self._flags = {}
        for k in self._names:
            f = 0
            if k == self.apex:
                f |= ORIGIN
            if k in self._cuts:
                f |= DELEGATION
            if any(is_proper_ancestor(c, k) for c in self._cuts):
                f |= GLUE
            self._flags[k] = f
        self._visible = [k for k in self._names if not self._flags[k] & GLUE]

    # -- derived state -----------------------------------------------------

    def names(self):
        """existing owner keys in canonical order"""
        return list(self._names)

    def flags(self):
        return dict(self._flags)

    def cuts(self):
        """delegation index: cut keys in canonical order"""
        return list(self._cuts)

    def ns_owners(self):
        return list(self._ns_owners)

    def nested_ns_owners(self):
        """NS owners that lie beneath a cut (no DELEGATION flag, no index entry)"""
        return [k for k in self._ns_owners if k not in self._cuts]

    def visible(self):
        return list(self._visible)

    def cut_of(self, q):
        """the cut q is at or below, or None"""
        for c in self._cuts:
            if is_at_or_below(q, c):
                return c
        return None

    def is_glue(self, q):
        c = self.cut_of(q)
        return c is not None and c != q

    def bounds(self, q):
        q = tuple(q)
        if not is_at_or_below(q, self.apex):
            raise AssertionError("query name outside the zone")
        if self.apex not in self.content:
            raise AssertionError("model needs the apex to exist")
        left = None
        right = None
        for k in self._visible:
            if k <= q:
                left = k
            elif right is None:
                right = k
                break
        full_pred = None
        for k in self._names:
            if k <= q:
                full_pred = k
            else:
                break
        ce = None
        for n in range(len(q), len(self.apex) - 1, -1):
            p = q[:n]
            if any(is_at_or_below(k, p) for k in self._visible):
                ce = p
                break
        cut = self.cut_of(q)
        if cut is not None and (left != cut or ce != cut):
            raise AssertionError("model self-check: a name at/below a cut must be bounded by the cut")
        return Bounds(left, right, ce, left == q, cut is not None, cut, full_pred)
