"""RFC 4034 section 6.2 canonical RDATA form (with RFC 6840 5.1: NSEC is not down-cased),
written independently of dnspython.  Works on *uncompressed* RDATA wire."""

from vlib.ref import wire as W

# RFC 4034 6.2 list: NS, MD, MF, CNAME, SOA, MB, MG, MR, PTR, HINFO, MINFO, MX, HINFO, RP, AFSDB,
# RT, SIG, PX, NXT, NAPTR, KX, SRV, DNAME, A6, RRSIG, NSEC -- minus NSEC (RFC 6840 5.1).
# Those that carry names and that dnspython implements:
LOWERCASED_TYPES = {
    W.NS, W.CNAME, W.SOA, W.PTR, W.MX, W.RP, W.AFSDB, W.RT, W.SIG, W.PX, W.NAPTR, W.KX, W.SRV,
    W.DNAME, W.RRSIG,
}


def canonical_rdata(rdtype, rdata):
    """rdata: uncompressed RDATA octets.  Returns the canonical form."""
    if rdtype not in LOWERCASED_TYPES:
        return bytes(rdata)
    pieces = W.split_rdata(rdtype, 1, rdata, 0, len(rdata))
    out = bytearray()
    for kind, v in pieces:
        if kind == "raw":
            out += v
        else:
            if v.pointers:
                raise W.WireError("compressed name in canonical input")
            out += W.encode_name([W.lower(l) for l in v.labels])
    return bytes(out)


def canonical_rrset_order(rdtype, rdatas):
    """sorted, de-duplicated canonical RDATA list (RFC 4034 6.3)"""
    return sorted(set(canonical_rdata(rdtype, r) for r in rdatas))


def name_positions(rdtype, rdata, rdclass=1):
    """list of (start, end) of embedded names in uncompressed rdata (any type with a layout)"""
    if W.layout_for(rdtype, rdclass) is None:
        return []
    out = []
    pos = 0
    for kind, v in W.split_rdata(rdtype, rdclass, rdata, 0, len(rdata)):
        if kind == "raw":
            pos += len(v)
        else:
            n = len(W.encode_name(v.labels))
            out.append((pos, pos + n))
            pos += n
    return out
