"""Independent model of the documented stub-resolver behaviour (property C16).

This module imports nothing from ``dns``.  It is a table-driven re-statement, written from
the docstrings of dns.resolver.Resolver.resolve / dns.message.QueryMessage.resolve_chaining /
dns.message.ChainingResult, doc/resolver-class.rst, doc/resolver-caching.rst and the C16
property statement, of

  * which absolute names are tried for a query name (search list, domain, ndots),
  * what each kind of per-query outcome means for the server that produced it
    (DISPOSITION table below),
  * how sweeps over the server list, the one-shot TCP retry, the back-off and the lifetime
    budget interact,
  * what a usable reply yields (CNAME walk, bounded length, minimum TTL, negative TTL),
  * what is cached under which key and when a cached entry may be used.

It also fixes the *environment* conventions shared with the scripted nameservers of
vlib/props/c16.py (how an outcome descriptor turns into a reply: chain owner names, rdata
texts, SOA owner) so that both sides talk about the same replies.

Names are tuples of lower-case label strings without the root label; every name handled
after candidate construction is absolute.  () is the root.
"""

# ---------------------------------------------------------------------------
# documented constants

MAX_CHAIN = 16          # dns.message.MAX_CHAIN: "CNAME chain is too long" limit
BACKOFF_FIRST = 0.1     # first pause when the server list is re-armed
BACKOFF_CAP = 2         # pauses double up to this many seconds
DEFAULT_NDOTS = 1
UNBOUNDED = None        # "no TTL information in the reply": never expires within a test

# ---------------------------------------------------------------------------
# environment conventions (what the scripted servers send)



def tick(now, dt):
    """Advance a float clock by dt.  A positive dt always makes progress: a real clock cannot
    stand still while time is being consumed, and without this a remaining lifetime of a few
    ulps would be absorbed by the addition and the simulated world would spin for ever."""
    import math

    new = now + dt
    if dt > 0 and new <= now:
        new = math.nextafter(now, math.inf)
    return new

def text(name):
    return ".".join(name) + "." if name else "."


def chain_owner(i):
    """owner of the i-th CNAME target (1-based) in a scripted chain"""
    return ("c%d" % i, "chain", "test")


def rdata_texts(rdtype, nrd, first_target=None):
    if rdtype == "A":
        return ["192.0.2.%d" % (j + 1) for j in range(nrd)]
    if rdtype == "AAAA":
        return ["2001:db8::%x" % (j + 1) for j in range(nrd)]
    if rdtype == "TXT":
        return ['"t%d"' % j for j in range(nrd)]
    if rdtype == "MX":
        return ["%d mx%d.test." % (10 * (j + 1), j) for j in range(nrd)]
    if rdtype == "CNAME":
        return [text(first_target)]
    raise ValueError(rdtype)


def ancestor(name, up):
    """strip *up* leading labels (clamped at the root)"""
    return tuple(name[min(up, len(name)):])


UNRELATED_SOA_OWNER = ("zone", "elsewhere", "invalid")

# ---------------------------------------------------------------------------
# what a reply means


def interpret_reply(o, qname, rdtype):
    """Classify a scripted NOERROR / NXDOMAIN reply for question (qname, rdtype).

    Returns a dict
      {"usable": False, "why": <exception class name>}                     or
      {"usable": True, "canonical": name, "rdatas": [text] | None, "rrttl": int | None,
       "minttl": int | UNBOUNDED}
    """
    k = o["k"]
    if k == "chainfail":
        how = o["how"]
        if how == "notresponse":
            return {"usable": False, "why": "NotQueryResponse"}
        if how in ("noquestion", "twoquestions"):
            return {"usable": False, "why": "FormError"}
        if how == "loop":
            # qname CNAME qname: an endless chain is longer than any bound
            if rdtype == "CNAME":
                # the CNAME RRset itself is the answer to a CNAME question
                return {
                    "usable": True,
                    "canonical": qname,
                    "rdatas": [text(qname)],
                    "rrttl": o["ttl"],
                    "minttl": o["ttl"],
                }
            return {"usable": False, "why": "ChainTooLong"}
        raise ValueError(how)

    chain = o.get("chain", 0)
    cttl = o.get("cttl", [])
    ttls = []
    canonical = qname
    if rdtype == "CNAME":
        # No chaining for a CNAME question: the CNAME RRset at the query name, if there is
        # one, is the answer.
        if k == "answer":
            tgt = chain_owner(1)
            res = {
                "usable": True,
                "canonical": qname,
                "rdatas": [text(tgt)],
                "rrttl": o["ttl"],
                "minttl": o["ttl"],
            }
            return res
        if chain > 0:
            # nodata / nxdomain scripted "after a chain": the first link answers the question
            if k == "nxdomain":
                return {"usable": False, "why": "AnswerForNXDOMAIN"}
            return {
                "usable": True,
                "canonical": qname,
                "rdatas": [text(chain_owner(1))],
                "rrttl": cttl[0],
                "minttl": cttl[0],
            }
    else:
        if chain >= MAX_CHAIN:
            return {"usable": False, "why": "ChainTooLong"}
        for i in range(chain):
            ttls.append(cttl[i])
            canonical = chain_owner(i + 1)

    if k == "answer":
        ttls.append(o["ttl"])
        return {
            "usable": True,
            "canonical": canonical,
            "rdatas": rdata_texts(rdtype, o["nrd"]),
            "rrttl": o["ttl"],
            "minttl": min(ttls),
        }
    if k == "nxdomain" and o.get("bogus"):
        return {"usable": False, "why": "AnswerForNXDOMAIN"}
    # negative reply: SOA TTL and SOA minimum count when the SOA sits at the canonical name
    # or above it
    soa = o.get("soa")
    if soa is not None and soa["up"] >= 0:
        ttls.append(soa["ttl"])
        ttls.append(soa["min"])
    return {
        "usable": True,
        "canonical": canonical,
        "rdatas": None,
        "rrttl": None,
        "minttl": min(ttls) if ttls else UNBOUNDED,
    }


# ---------------------------------------------------------------------------
# what an outcome means for the server that produced it

DROP = "drop"              # proved broken: not asked again for this query name
KEEP = "keep"              # may be asked again in the next sweep
TCP_RETRY = "tcp-retry"    # ask the same server again at once, over TCP
DONE_ANSWER = "answer"
NEXT_NAME = "next-name"
RAISE_YXDOMAIN = "yxdomain"

# outcome kind -> disposition; a callable row decides from (over_tcp, retry_servfail)
DISPOSITION = {
    "formerr": DROP,        # malformed reply
    "eof": DROP,            # connection closed early
    "oserror": DROP,        # network error
    "notimpl": DROP,        # transport cannot do what was asked
    "rcode": DROP,          # REFUSED, FORMERR, NOTIMP, ... : not an answer we can use
    "servfail": lambda over_tcp, retry_servfail: KEEP if retry_servfail else DROP,
    "timeout": KEEP,
    "truncated": lambda over_tcp, retry_servfail: DROP if over_tcp else TCP_RETRY,
    "yxdomain": RAISE_YXDOMAIN,
}

# outcome kind -> how the failure reads in the error trace of NoNameservers/LifetimeTimeout
# (exception class name, or the rcode's text)
TRACE_TEXT = {
    "formerr": lambda o: o["exc"],
    "oserror": lambda o: o["exc"],
    "eof": lambda o: "EOFError",
    "notimpl": lambda o: "NotImplementedError",
    "rcode": lambda o: o["rc"],
    "servfail": lambda o: "SERVFAIL",
    "timeout": lambda o: "Timeout",
    "truncated": lambda o: "Truncated",
    "yxdomain": lambda o: None,
}


def dispose(o, over_tcp, retry_servfail, reply):
    """-> (disposition, error-trace description or None)"""
    k = o["k"]
    if k in DISPOSITION:
        row = DISPOSITION[k]
        if callable(row):
            row = row(over_tcp, retry_servfail)
        return (row, TRACE_TEXT[k](o))
    # NOERROR / NXDOMAIN replies
    if not reply["usable"]:
        return (DROP, reply["why"])
    if k == "nxdomain":
        return (NEXT_NAME, None)
    return (DONE_ANSWER, None)


FAILURE_KINDS = (
    "formerr", "eof", "oserror", "notimpl", "timeout", "rcode", "servfail", "truncated",
    "unusable",
)

# ---------------------------------------------------------------------------
# candidate names


def candidates(case):
    q = tuple(case["qname"])
    if case["absolute"]:
        return [q]
    use = case["use_search_by_default"] if case["search_arg"] is None else case["search_arg"]
    if not use:
        return [q]
    if case["search"]:
        suffixes = [tuple(s) for s in case["search"]]
    elif case["domain"]:
        suffixes = [tuple(case["domain"])]
    else:
        suffixes = []
    ndots = DEFAULT_NDOTS if case["ndots"] is None else case["ndots"]
    dots = len(q) - 1
    searched = [q + s for s in suffixes]
    if dots >= ndots:
        return [q] + searched
    return searched + [q]


# ---------------------------------------------------------------------------
# the world: scripts and clock (shared by successive resolutions of one case)


class World:
    def __init__(self, case):
        self.case = case
        self.clock = case["t0"]
        self.pos = {}
        self.gpos = 0
        self.ordinal = 0  # number of queries served so far (reply ordinals are 0-based)
        self.cache = {} if case["cache"] else None

    def next_outcome(self, server, over_tcp):
        g = self.case.get("gscript")
        if g is not None:
            i = self.gpos
            self.gpos += 1
            return g["seq"][i] if i < len(g["seq"]) else g["default"]
        ns = self.case["ns"][server]
        seq = ns["tcp" if over_tcp else "udp"]
        key = (server, over_tcp)
        i = self.pos.get(key, 0)
        self.pos[key] = i + 1
        return seq[i] if i < len(seq) else ns["default"]

    def cache_get(self, key):
        if self.cache is None:
            return None
        e = self.cache.get(key)
        if e is None:
            return None
        if e["exp"] is not UNBOUNDED and e["exp"] <= self.clock:
            return None
        return e


def effective_kind(o, granted):
    """A reply that takes at least as long as the granted timeout is a timeout."""
    if o["k"] == "timeout":
        return "timeout", granted
    d = o.get("delay", 0)
    if d >= granted:
        return "timeout", granted
    return o["k"], d


def resolve(world):
    """Model one resolution.  Returns a record:

      log      [(qname, server, tcp, granted, clock)]
      outcome  {"kind": "answer", ...} | {"kind": "NXDOMAIN", ...} | {"kind": "NoAnswer", ...}
               | {"kind": "YXDOMAIN"} | {"kind": "NoNameservers", "errors": [...]}
               | {"kind": "LifetimeTimeout", "errors": [...], "elapsed": float}
      start, end   clock values
      trace    per query: {"kind": effective outcome kind ("unusable" for a reply that fails
               chaining), "server", "tcp", "action", "chain", "why"}
      stats    dict of counters for the class histogram
    """
    case = world.case
    rdtype, rdclass = case["rdtype"], case["rdclass"]
    lifetime, timeout = case["lifetime"], case["timeout"]
    names = candidates(case)
    start = world.clock
    log = []
    trace = []
    stats = {
        "tcp_retry": 0, "trunc_tcp_drop": 0, "backoff": 0, "backoff_cap": 0,
        "names_queried": 0, "cache_hit": 0, "cache_nx_hit": 0, "slow_timeout": 0,
        "rearm": 0, "overshoot": 0,
    }
    nx = {}  # name -> reply ordinal

    def finish(outcome):
        return {
            "log": log, "outcome": outcome, "start": start, "end": world.clock,
            "trace": trace, "stats": stats, "candidates": names,
            "cache_after": None if world.cache is None else dict(world.cache),
        }

    def answer_outcome(entry):
        if entry["rdatas"] is None and case["raise_on_no_answer"]:
            return {
                "kind": "NoAnswer", "resp": entry["resp"], "minttl": entry["minttl"],
                "exp": entry["exp"], "qname": entry["qname"],
            }
        return dict(entry, kind="answer")

    for name in names:
        # a configured cache is consulted first
        e = world.cache_get((name, rdtype, rdclass))
        if e is not None:
            stats["cache_hit"] += 1
            return finish(answer_outcome(e))
        e = world.cache_get((name, "ANY", rdclass))
        if e is not None and e["nx"]:
            stats["cache_nx_hit"] += 1
            nx[name] = e["resp"]
            continue

        stats["names_queried"] += 1
        alive = list(range(len(case["ns"])))   # usable for this name
        sweep = list(alive)                    # not yet asked in this sweep
        pause = BACKOFF_FIRST
        errors = []
        forced_tcp = None
        moved_on = False
        while not moved_on:
            if forced_tcp is not None:
                server, over_tcp = forced_tcp, True
                forced_tcp = None
            else:
                if not sweep:
                    if not alive:
                        return finish({"kind": "NoNameservers", "errors": errors})
                    sweep = list(alive)
                    stats["rearm"] += 1
                    stats["backoff"] += 1
                    if pause >= BACKOFF_CAP:
                        stats["backoff_cap"] += 1
                    # the pause never runs past the end of the lifetime
                    remaining = lifetime - (world.clock - start)
                    if pause > remaining:
                        stats["backoff_clamped"] = stats.get("backoff_clamped", 0) + 1
                    world.clock = tick(world.clock, max(0.0, min(pause, remaining)))
                    pause = min(pause * 2, BACKOFF_CAP)
                server = sweep.pop(0)
                over_tcp = bool(case["tcp"] or case["ns"][server]["maxsize"])
            elapsed = world.clock - start
            if elapsed >= lifetime:
                if elapsed > lifetime:
                    stats["overshoot"] += 1
                return finish(
                    {"kind": "LifetimeTimeout", "errors": errors, "elapsed": elapsed}
                )
            granted = min(lifetime - elapsed, timeout)
            o = world.next_outcome(server, over_tcp)
            ordinal = world.ordinal
            world.ordinal += 1
            log.append((name, server, over_tcp, granted, world.clock))
            kind, took = effective_kind(o, granted)
            if kind == "timeout" and o["k"] != "timeout":
                stats["slow_timeout"] += 1
                o = {"k": "timeout"}
            world.clock = tick(world.clock, took)
            reply = None
            if kind in ("answer", "nodata", "nxdomain", "chainfail"):
                reply = interpret_reply(o, name, rdtype)
            action, descr = dispose(o, over_tcp, case["retry_servfail"], reply)
            if reply is not None and not reply["usable"]:
                tkind = "unusable"
            elif kind == "chainfail":
                tkind = "answer"  # a CNAME question answered by the looping CNAME itself
            else:
                tkind = kind
            trace.append(
                {"kind": tkind, "server": server, "tcp": over_tcp, "action": action,
                 "chain": o.get("chain"), "why": descr}
            )
            if action == DROP:
                alive.remove(server)
                errors.append((server, over_tcp, descr))
                if kind == "truncated":
                    stats["trunc_tcp_drop"] += 1
            elif action == KEEP:
                errors.append((server, over_tcp, descr))
            elif action == TCP_RETRY:
                errors.append((server, over_tcp, descr))
                forced_tcp = server
                stats["tcp_retry"] += 1
            elif action == RAISE_YXDOMAIN:
                return finish({"kind": "YXDOMAIN"})
            elif action == NEXT_NAME:
                nx[name] = ordinal
                if world.cache is not None:
                    world.cache[(name, "ANY", rdclass)] = {
                        "nx": True, "resp": ordinal, "rdatas": None,
                        "exp": _expiry(world.clock, reply["minttl"]),
                    }
                moved_on = True
            elif action == DONE_ANSWER:
                entry = {
                    "nx": False,
                    "qname": name,
                    "canonical": reply["canonical"],
                    "rdatas": reply["rdatas"],
                    "rrttl": reply["rrttl"],
                    "exp": _expiry(world.clock, reply["minttl"]),
                    "minttl": reply["minttl"],
                    "resp": ordinal,
                    "server": server,
                }
                if world.cache is not None:
                    world.cache[(name, rdtype, rdclass)] = entry
                return finish(answer_outcome(entry))
            else:  # pragma: no cover
                raise AssertionError(action)

    # every candidate name got NXDOMAIN (from a server or from the cache)
    return finish({"kind": "NXDOMAIN", "qnames": list(names), "responses": dict(nx)})


def _expiry(now, minttl):
    return UNBOUNDED if minttl is UNBOUNDED else now + minttl


def step_bound(case):
    """An upper bound on the queries of one resolution that does not depend on the sweep
    model: every re-arm of the server list pauses for at least BACKOFF_FIRST seconds of a
    finite lifetime, and a sweep asks each server at most twice (UDP, then the TCP retry)."""
    rearms = int(case["lifetime"] / BACKOFF_FIRST) + 2
    return (rearms + len(candidates(case))) * 2 * len(case["ns"])


def second_gap(case, first):
    """Clock advance between the first and the second resolution of a case."""
    sec = case.get("second")
    if sec is None:
        return None
    mode, x = sec["gap"]
    if mode == "ttl":
        out = first["outcome"]
        ttl = out.get("minttl") if out["kind"] in ("answer", "NoAnswer") else None
        if ttl is None or ttl is UNBOUNDED:
            return float(max(0, 5 + x))
        return float(max(0, ttl + x))
    return float(x)


def predict(case):
    """Run the model over the whole case: one or two identical resolutions."""
    world = World(case)
    out = [resolve(world)]
    gap = second_gap(case, out[0])
    if gap is not None:
        world.clock = tick(world.clock, gap)
        out.append(resolve(world))
    return {"resolutions": out, "gap": gap, "cache": world.cache, "end": world.clock}
