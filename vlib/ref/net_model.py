"""Independent reference model for C18 (network exchange acceptance + stream framing).

Imports nothing from ``dns``.  Three pieces:

* a tiny DNS message *encoder* (``build_message``) used by the generators to assemble
  replies, decoys and malformed datagrams octet by octet;
* a lenient header+question *decoder* (``decode``) built on ``vlib.ref.wire.read_name``
  that reports how far a datagram parses (header, the questions read before the first
  error, whether the whole message is well formed, trailing octets, TC, full rcode);
* the *interpreters*: ``interpret_udp`` walks a datagram script under the documented
  option semantics of ``dns.query.udp`` / ``receive_udp`` and says which datagram is
  returned or which error class is raised; ``StreamModel`` does the same for a byte
  stream cut into recv events.
"""

import ipaddress
import struct

from vlib.ref import wire as W

QR = 0x8000
AA = 0x0400
TC = 0x0200
RD = 0x0100
RA = 0x0080

FORMERR, SERVFAIL, NXDOMAIN, NOTIMP, REFUSED = 1, 2, 3, 4, 5
SPECIAL_RCODES = frozenset([FORMERR, SERVFAIL, NOTIMP, REFUSED])

T_A, T_NS, T_CNAME, T_MX, T_TXT, T_AAAA, T_OPT, T_TSIG = 1, 2, 5, 15, 16, 28, 41, 250
C_IN, C_CH, C_NONE, C_ANY = 1, 3, 254, 255


# ---------------------------------------------------------------------------
# encoder


def flags_for(opcode, rcode=0, qr=True, tc=False, rd=True, ra=True, aa=False):
    f = (opcode & 0xF) << 11 | (rcode & 0xF)
    if qr:
        f |= QR
    if tc:
        f |= TC
    if rd:
        f |= RD
    if ra:
        f |= RA
    if aa:
        f |= AA
    return f


def enc_name(labels):
    """labels: list of bytes ending with b"" (absolute), or ("ptr", offset) as last item"""
    out = bytearray()
    for l in labels:
        if isinstance(l, tuple):
            off = l[1]
            out += bytes([0xC0 | (off >> 8), off & 0xFF])
            return bytes(out)
        out.append(len(l))
        out += l
    return bytes(out)


def enc_rr(owner, rtype, rclass, ttl, rdata):
    return enc_name(owner) + struct.pack("!HHIH", rtype, rclass, ttl, len(rdata)) + rdata


def build_message(mid, flags, questions, answer=(), authority=(), additional=(), counts=None):
    """questions: [(labels, qtype, qclass)]; sections: [(owner, type, class, ttl, rdata)].
    ``counts`` overrides the header counts (to forge inconsistent headers)."""
    body = bytearray()
    for labels, t, c in questions:
        body += enc_name(labels) + struct.pack("!HH", t, c)
    for sec in (answer, authority, additional):
        for rr in sec:
            body += enc_rr(*rr)
    if counts is None:
        counts = (len(questions), len(answer), len(authority), len(additional))
    return struct.pack("!HHHHHH", mid & 0xFFFF, flags & 0xFFFF, *counts) + bytes(body)


def opt_rr(ext_rcode=0, payload=1232):
    return ([b""], T_OPT, payload, (ext_rcode & 0xFF) << 24, b"")


def tsig_rr(keyname=(b"key", b""), mid=0):
    alg = enc_name([b"hmac-sha256", b""])
    mac = bytes(range(32))
    rdata = alg + b"\x00\x00\x65\x00\x00\x00" + struct.pack("!HH", 300, len(mac)) + mac
    rdata += struct.pack("!HHH", mid & 0xFFFF, 0, 0)
    return (list(keyname), T_TSIG, C_ANY, 0, rdata)


# ---------------------------------------------------------------------------
# decoder


class Decoded:
    __slots__ = (
        "raw", "header_ok", "id", "flags", "qr", "opcode", "tc", "rcode", "counts",
        "questions", "questions_complete", "complete", "trailing", "end", "error",
        "err_kind", "sections", "has_tsig", "has_opt",
    )

    def __repr__(self):
        if not self.header_ok:
            return f"<short datagram {len(self.raw)} octets>"
        return (
            f"<id={self.id} flags={self.flags:#06x} rcode={self.rcode} counts={self.counts} "
            f"questions={self.questions} complete={self.complete} trailing={self.trailing} "
            f"error={self.error}>"
        )


_FIXED_RDLEN = {T_A: 4, T_AAAA: 16}


def decode(buf):
    """Lenient walk.  ``questions`` holds the questions fully read before the first
    error; ``complete`` says that header, every question and every RR were structurally
    sound (names legal, lengths inside the buffer, RDATA of the name-bearing types
    well laid out); ``trailing`` that octets remain after the last counted RR."""
    buf = bytes(buf)
    d = Decoded()
    d.raw = buf
    d.questions = []
    d.sections = ([], [], [])
    d.questions_complete = False
    d.complete = False
    d.trailing = False
    d.end = None
    d.error = None
    d.err_kind = None
    d.has_tsig = False
    d.has_opt = False
    if len(buf) < 12:
        d.header_ok = False
        d.id = d.flags = d.opcode = d.rcode = None
        d.qr = d.tc = False
        d.counts = None
        d.error = "short header"
        d.err_kind = "short"
        return d
    d.header_ok = True
    d.id, d.flags, qd, an, ns, ar = struct.unpack("!HHHHHH", buf[:12])
    d.counts = (qd, an, ns, ar)
    d.qr = bool(d.flags & QR)
    d.tc = bool(d.flags & TC)
    d.opcode = (d.flags >> 11) & 0xF
    d.rcode = d.flags & 0xF
    pos = 12
    try:
        for _ in range(qd):
            info = W.read_name(buf, pos)
            p = info.end
            if p + 4 > len(buf):
                raise W.WireError("question runs past end")
            t, c = struct.unpack("!HH", buf[p : p + 4])
            pos = p + 4
            d.questions.append((tuple(info.labels), t, c))
        d.questions_complete = True
        for secno, cnt in ((0, an), (1, ns), (2, ar)):
            for i in range(cnt):
                info = W.read_name(buf, pos)
                p = info.end
                if p + 10 > len(buf):
                    raise W.WireError("RR header runs past end")
                t, c, ttl, rdlen = struct.unpack("!HHIH", buf[p : p + 10])
                p += 10
                if p + rdlen > len(buf):
                    raise W.WireError("RDATA runs past end")
                if t in _FIXED_RDLEN and c == C_IN and rdlen != _FIXED_RDLEN[t]:
                    raise W.WireError("bad fixed RDATA length")
                pieces = W.split_rdata(t, c, buf, p, p + rdlen) if rdlen else [("raw", b"")]
                if t == T_OPT:
                    if secno != 2 or d.has_opt or tuple(info.labels) != (b"",):
                        raise W.WireError("misplaced OPT")
                    d.has_opt = True
                    d.rcode = ((ttl >> 24) & 0xFF) << 4 | (d.flags & 0xF)
                elif t == T_TSIG:
                    if secno != 2 or c != C_ANY or i != cnt - 1:
                        raise W.WireError("misplaced TSIG")
                    d.has_tsig = True
                else:
                    d.sections[secno].append(
                        (tuple(info.labels), t, c, ttl, W.uncompressed_rdata(pieces))
                    )
                pos = p + rdlen
    except W.WireError as e:
        d.error = str(e)
        d.err_kind = "form"
        return d
    d.end = pos
    d.trailing = pos != len(buf)
    d.complete = True
    return d


def parse_status(d, ignore_trailing, have_keyring=False):
    """None if a conforming parser accepts the datagram under the option, else the kind
    of error: 'short' (fewer than 12 octets), 'form' (malformed / trailing octets),
    'tsig' (signed message, no key)."""
    if not d.header_ok:
        return "short"
    if not d.complete:
        return "form"
    if d.has_tsig and not have_keyring:
        return "tsig"
    if d.trailing and not ignore_trailing:
        return "form"
    return None


def question_key(q):
    labels, t, c = q
    return (tuple(W.lower(l) for l in labels), t, c)


def is_response_to(query, d):
    """The acceptance predicate of the property, on decoded header + questions.
    query: dict(id, opcode, questions=[(labels, type, class)])."""
    if not d.header_ok:
        return False
    if not d.qr or d.id != query["id"] or d.opcode != query["opcode"]:
        return False
    if d.rcode in SPECIAL_RCODES and len(d.questions) == 0:
        return True
    mine = {question_key(q) for q in query["questions"]}
    theirs = {question_key(q) for q in d.questions}
    return mine == theirs


# ---------------------------------------------------------------------------
# addresses


def packed(text):
    return ipaddress.ip_address(text).packed


def is_multicast(text):
    return ipaddress.ip_address(text).is_multicast


def source_acceptable(destination, source):
    """destination/source: low-level tuples as lists ([addr, port] or [addr, port, flow,
    scope]); destination None = accept anything."""
    if not destination:
        return True
    destination = list(destination)
    source = list(source)
    try:
        same = packed(source[0]) == packed(destination[0])
    except ValueError:
        same = False
    if same and source[1:] == destination[1:]:
        return True
    if is_multicast(destination[0]) and source[1:] == destination[1:]:
        return True
    return False


# ---------------------------------------------------------------------------
# UDP script interpreter


def interpret_udp(script, destination, opts, query, api, has_deadline, send_expire=False):
    """script: list of events ["wb"] | ["expire"] | ["dg", kind, source, hexwire].
    opts: dict(iu, ie, rot, it, orr).  query: dict or None (receive_udp without query).
    api: "udp" | "receive_udp".

    Returns dict(outcome, index, consumed, skipped, d19):
      outcome in {"return", "UnexpectedSource", "ParseError", "Truncated", "BadResponse",
      "Timeout", "hang"}; index = script position of the deciding datagram (or None);
      consumed = script positions of the datagrams read; skipped = kinds passed over;
      d19 = the script reaches a datagram on which a parser running in
      continue-on-error mode would diverge (see props/c18.py, D19).
    """
    res = {"outcome": None, "index": None, "consumed": [], "skipped": [], "d19": False, "wb": 0}
    if send_expire:
        res["outcome"] = "Timeout"
        return res
    iu, ie, rot, it = opts["iu"], opts["ie"], opts["rot"], opts["it"]
    for i, ev in enumerate(script):
        if ev[0] == "wb":
            res["wb"] += 1
            continue
        if ev[0] == "expire":
            res["outcome"] = "Timeout"
            return res
        _, kind, source, hexwire = ev
        res["consumed"].append(i)
        if not source_acceptable(destination, source):
            if iu:
                res["skipped"].append(kind)
                continue
            res["outcome"], res["index"] = "UnexpectedSource", i
            return res
        d = decode(bytes.fromhex(hexwire))
        status = parse_status(d, it)
        matches = query is None or is_response_to(query, d)
        if (
            ie
            and status in ("form", "tsig")
            and not (rot and d.tc and status == "form")
            and matches
        ):
            res["d19"] = True
        if rot and d.header_ok and d.tc and status in (None, "form"):
            # truncation is reported for anything that has a TC header ...
            if ie and query is not None and not matches:
                # ... except that with ignore_errors a forged TC header is passed over
                res["skipped"].append(kind)
                continue
            res["outcome"], res["index"] = "Truncated", i
            return res
        if status is not None:
            if ie:
                res["skipped"].append(kind)
                continue
            res["outcome"], res["index"] = "ParseError", i
            return res
        if ie and query is not None and not matches:
            res["skipped"].append(kind)
            continue
        if api == "udp" and not ie and not is_response_to(query, d):
            res["outcome"], res["index"] = "BadResponse", i
            return res
        res["outcome"], res["index"] = "return", i
        return res
    res["outcome"] = "Timeout" if has_deadline else "hang"
    return res


# ---------------------------------------------------------------------------
# stream model


def frame(wire):
    return struct.pack("!H", len(wire)) + wire


class StreamModel:
    """A byte stream S delivered through recv events.

    events: ["data", n>=1] (at most n more octets become readable), ["wb"], ["eof"],
    ["expire"].  When the events run out the rest of S is readable at once; after S is
    exhausted the stream ends with ``tail``: "eof" or "block" (nothing more ever
    arrives: Timeout if there is a deadline, otherwise the reader waits for ever).

    Only the *first* eof/expire matters: it sits after ``fault_pos`` delivered octets, and
    a reader that needs octets beyond that position gets the fault instead."""

    def __init__(self, stream_len, events, tail, has_deadline):
        pos = 0
        self.fault = None
        self.wb_positions = []
        self.data_cuts = set()
        for ev in events:
            if ev[0] == "data":
                pos = min(stream_len, pos + ev[1])
                self.data_cuts.add(pos)
            elif ev[0] == "wb":
                self.wb_positions.append(pos)
            elif ev[0] in ("eof", "expire"):
                self.fault = (pos, "EOFError" if ev[0] == "eof" else "Timeout")
                break
        if self.fault is None:
            kind = "EOFError" if tail == "eof" else ("Timeout" if has_deadline else "hang")
            self.fault = (stream_len, kind)

    def read_frames(self, stream, max_frames):
        """Yield per attempted frame: ("frame", start, wire) or (fault_kind, start, None)."""
        out = []
        start = 0
        fpos, fkind = self.fault
        for _ in range(max_frames):
            if start + 2 > fpos or start + 2 > len(stream):
                out.append((fkind, start, None))
                return out
            (l,) = struct.unpack("!H", stream[start : start + 2])
            end = start + 2 + l
            if end > fpos or end > len(stream):
                out.append((fkind, start, None))
                return out
            out.append(("frame", start, stream[start + 2 : end]))
            start = end
        return out


def send_model(total, events, has_deadline):
    """events: ["acc", n] | ["wb"] | ["expire"].  Returns ("ok", total) or
    ("Timeout", accepted_before)."""
    acc = 0
    for ev in events:
        if acc >= total:
            break
        if ev[0] == "acc":
            acc = min(total, acc + ev[1])
        elif ev[0] == "expire":
            return ("Timeout", acc)
    return ("ok", total)
