"""Independent RFC 8945 TSIG implementation (HMAC algorithms only).  Imports nothing from dns.

sign(...) / digest_input(...) work on raw wire bytes located with vlib/ref/wire.py.
"""

import hashlib
import hmac
import struct

from vlib.ref import wire as W

# algorithm name (lower-case, absolute, as label tuple) -> (hashlib name, truncated length in octets or None)
ALGS = {
    (b"hmac-md5", b"sig-alg", b"reg", b"int", b""): ("md5", None),
    (b"hmac-sha1", b""): ("sha1", None),
    (b"hmac-sha224", b""): ("sha224", None),
    (b"hmac-sha256", b""): ("sha256", None),
    (b"hmac-sha256-128", b""): ("sha256", 16),
    (b"hmac-sha384", b""): ("sha384", None),
    (b"hmac-sha384-192", b""): ("sha384", 24),
    (b"hmac-sha512", b""): ("sha512", None),
    (b"hmac-sha512-256", b""): ("sha512", 32),
}
ALG_LIST = sorted(ALGS)


class TsigFields:
    pass


def locate(wire):
    """Find the TSIG RR of a message.  Returns TsigFields or None when the last RR is not a
    TSIG.  Raises W.WireError when the message cannot be walked."""
    m = W.walk_message(wire, parse_rdata=False)
    if not m.rrs:
        return None
    rr = m.rrs[-1]
    if rr.rdtype != W.TSIG or rr.section != 3:
        return None
    f = TsigFields()
    f.msg = m
    f.start = rr.start
    f.end = rr.end
    f.key = tuple(rr.owner.labels)
    f.key_compressed = bool(rr.owner.pointers)
    f.rdclass = rr.rdclass
    f.ttl = rr.ttl
    pos = rr.rdata_start
    alg = W.read_name(wire, pos)
    f.alg = tuple(alg.labels)
    f.alg_compressed = bool(alg.pointers)
    pos = alg.end
    if pos + 10 > rr.rdata_end:
        raise W.WireError("TSIG RDATA too short")
    hi, lo, f.fudge, maclen = struct.unpack("!HIHH", wire[pos : pos + 10])
    f.time = (hi << 32) | lo
    pos += 10
    f.mac = bytes(wire[pos : pos + maclen])
    pos += maclen
    if pos + 6 > rr.rdata_end:
        raise W.WireError("TSIG RDATA too short")
    f.orig_id, f.error, olen = struct.unpack("!HHH", wire[pos : pos + 6])
    pos += 6
    f.other = bytes(wire[pos : pos + olen])
    pos += olen
    if pos != rr.rdata_end or len(f.mac) != maclen or len(f.other) != olen:
        raise W.WireError("TSIG RDATA length mismatch")
    f.trailing = len(wire) - rr.end
    return f


def stripped_message(wire, f):
    """the DNS message as it is digested: original id, ARCOUNT - 1, TSIG RR removed"""
    arcount = struct.unpack("!H", wire[10:12])[0]
    return struct.pack("!H", f.orig_id) + bytes(wire[2:10]) + struct.pack("!H", (arcount - 1) & 0xFFFF) + bytes(wire[12 : f.start])


def variables(f, full=True, use_rr_fields=True):
    """TSIG variables (RFC 8945 4.3.3) or only the timers (4.3.3.1, subsequent messages)."""
    t = struct.pack("!HIH", (f.time >> 32) & 0xFFFF, f.time & 0xFFFFFFFF, f.fudge)
    if not full:
        return t
    rdclass = f.rdclass if use_rr_fields else 255
    ttl = f.ttl if use_rr_fields else 0
    return (
        W.encode_name([W.lower(l) for l in f.key])
        + struct.pack("!HI", rdclass, ttl)
        + W.encode_name([W.lower(l) for l in f.alg])
        + t
        + struct.pack("!HH", f.error, len(f.other))
        + f.other
    )


def digest_input(wire, f, request_mac=b"", prior_mac=None, between=(), use_rr_fields=True):
    """octets fed to the HMAC for this message.

    request_mac: MAC of the request when this is a response (first message of the answer).
    prior_mac:   MAC of the previous *signed* message of a multi-message sequence (then only the
                 timers are digested, 4.3.3.1 / 5.3.1), `between` = wires of the unsigned messages
                 in between, digested whole."""
    out = b""
    if prior_mac is not None:
        out += struct.pack("!H", len(prior_mac)) + prior_mac
        for b in between:
            out += bytes(b)
        out += stripped_message(wire, f)
        out += variables(f, full=False)
        return out
    if request_mac:
        out += struct.pack("!H", len(request_mac)) + request_mac
    out += stripped_message(wire, f)
    out += variables(f, full=True, use_rr_fields=use_rr_fields)
    return out


def mac_for(secret, alg, data):
    name, trunc = ALGS[tuple(W.lower(l) for l in alg)]
    d = hmac.new(secret, data, getattr(hashlib, name)).digest()
    return d[:trunc] if trunc else d


def append_tsig(wire, key_labels, alg_labels, secret, time, fudge, orig_id=None, error=0, other=b"",
                request_mac=b"", prior_mac=None, between=()):
    """Independently sign an unsigned message: returns (signed wire, mac)."""
    f = TsigFields()
    f.start = len(wire)
    f.key = tuple(key_labels)
    f.alg = tuple(alg_labels)
    f.rdclass, f.ttl = 255, 0
    f.time, f.fudge, f.error, f.other = time, fudge, error, other
    f.orig_id = struct.unpack("!H", wire[0:2])[0] if orig_id is None else orig_id
    arcount = struct.unpack("!H", wire[10:12])[0]
    bumped = bytes(wire[:10]) + struct.pack("!H", arcount + 1) + bytes(wire[12:])
    data = digest_input(bumped, f, request_mac, prior_mac, between)
    mac = mac_for(secret, alg_labels, data)
    rdata = (
        W.encode_name(alg_labels)
        + struct.pack("!HIHH", (time >> 32) & 0xFFFF, time & 0xFFFFFFFF, fudge, len(mac))
        + mac
        + struct.pack("!HHH", f.orig_id, error, len(other))
        + other
    )
    rr = W.encode_name(key_labels) + struct.pack("!HHIH", 250, 255, 0, len(rdata)) + rdata
    return bumped + rr, mac
