"""Reference model of zone content and of the transaction API (C10, C11, C12).

Imports nothing from dns.  Content has the same shape as vlib.zoneutil.extract():

    { owner_key : { (rdtype:int, covers:int) : (ttl:int, frozenset(canonical rdata: bytes)) } }

owner_key = tuple of lower-cased labels of the absolute owner name, most significant label
first (vlib.ref.wire.name_key).  Records are their canonical RDATA octets
(vlib/ref/canon.py); the caller canonicalises, the model only does set algebra.

The rules are the DOCUMENTED ones:

* add (Transaction.add: "Add records") = set union with the existing rdataset; TTL
  minimisation as documented by Rdataset.update_ttl ("the lesser of the set's current TTL or
  the specified TTL; if the set contains no rdatas, the specified TTL").
* replace (Transaction.replace: "Replace the existing rdataset at the name with the specified
  rdataset, or add the specified rdataset if there was no existing rdataset"): the whole
  rdataset, TTL included, becomes the given one.
* singleton types (dns.rdatatype.is_singleton: SOA, NXT, DNAME, NSEC, CNAME) hold one record:
  the newest (Rdataset.add: "if the type is a singleton, the set is cleared first").
* CNAME / other data (dns.node.Node docstring, NodeKind): storing CNAME or RRSIG(CNAME)
  deletes every rdataset that is not neutral; storing a regular rdataset deletes CNAME and
  RRSIG(CNAME).  Neutral = NSEC, NSEC3, KEY and the RRSIGs covering them.
* a node without rdatasets does not exist (name_exists is False, it is not iterated).
* delete(name) removes the node; delete(name, type[, covers]) removes that rdataset;
  delete(name, rdataset|rdata) removes the listed records only ("It is not an error if some
  of the records are not in the existing set").  delete_exact raises DeleteNotExact when the
  name / rdataset / any listed record is missing and then changes nothing.
* SOA may only be stored at the origin (ValueError "non-origin SOA"); the comparison is with
  the *effective* origin, so the spelling of the owner matters (DESIGN section 4.5): the
  caller passes ``effective_spelling=False`` when the owner is spelled in the other form.
* records of another class -> ValueError; a TTL above 2**32-1 in the name+ttl+rdata form ->
  ValueError; a name outside the zone -> KeyError (zone API: "name parameter must be a
  subdomain of the zone origin").
* update_serial(value=1, relative=True): ValueError for a negative value or a relative
  increment above 2**31-1 (docstring: "so large that it would cause the new serial to be less
  than the prior value"; RFC 1982 3.1); KeyError without an SOA; addition modulo 2**32;
  relative=False sets the value; a result of 0 becomes 1.
* changed(): documented as "True if at some time during the life of the transaction the
  content was changed".  The model keeps a lower bound (``content_changed``: the content
  differed from the content at the start) and an upper bound (``touched``: some store or some
  delete of existing data was performed); the implementation may answer anything in between.
* commit publishes the transaction's content; rollback publishes nothing.
"""

SOA, CNAME, DNAME, NSEC, NXT, RRSIG, NSEC3, KEY = 6, 5, 39, 47, 30, 46, 50, 25
SINGLETONS = frozenset((SOA, CNAME, DNAME, NSEC, NXT))
NEUTRAL = frozenset((NSEC, NSEC3, KEY))
MAX_TTL = 2**32 - 1
MAX_INCREMENT = 2**31 - 1


class ModelError(Exception):
    """outcome class of an operation that the documentation says must fail"""

    def __init__(self, outcome, why=""):
        super().__init__(f"{outcome}: {why}")
        self.outcome = outcome
        self.why = why


def kind(rdtype, covers):
    """'cname' | 'neutral' | 'regular' (dns.node.NodeKind, from its documentation)"""
    if rdtype == CNAME or (rdtype == RRSIG and covers == CNAME):
        return "cname"
    if rdtype in NEUTRAL or (rdtype == RRSIG and covers in NEUTRAL):
        return "neutral"
    return "regular"


def copy_content(content):
    return {k: dict(v) for k, v in content.items()}


def serial_of(soa_canonical):
    return int.from_bytes(soa_canonical[-20:-16], "big")


def with_serial(soa_canonical, serial):
    return soa_canonical[:-20] + serial.to_bytes(4, "big") + soa_canonical[-16:]


def serial_add(serial, value):
    """RFC 1982 section 3.1 addition for SERIAL_BITS = 32"""
    if value < 0 or value > MAX_INCREMENT:
        raise ModelError("ValueError", "increment outside [0, 2**31-1]")
    return (serial + value) % 2**32


class ZoneModel:
    def __init__(self, origin_key, content=None, rdclass=1):
        self.origin = tuple(origin_key)
        self.rdclass = rdclass
        self.content = copy_content(content or {})

    def in_zone(self, owner):
        return tuple(owner[: len(self.origin)]) == self.origin

    def begin(self, replacement=False, read_only=False):
        return TxnModel(self, replacement, read_only)

    def snapshot(self):
        return copy_content(self.content)


class TxnModel:
    def __init__(self, zone, replacement=False, read_only=False):
        self.zone = zone
        self.read_only = read_only
        self.replacement = replacement
        self.content = {} if replacement else copy_content(zone.content)
        self._start = copy_content(self.content)
        self.content_changed = False  # lower bound of changed()
        self.touched = False  # upper bound of changed()
        self.ended = False
        # observations for the coverage classes of the checks
        self.events = []

    # ------------------------------------------------------------------ helpers

    def _check(self, write):
        if self.ended:
            raise ModelError("AlreadyEnded")
        if write and self.read_only:
            raise ModelError("ReadOnly")

    def _name(self, owner):
        owner = tuple(owner)
        if not self.zone.in_zone(owner):
            raise ModelError("KeyError", "name is not a subdomain of the origin")
        return owner

    def _after_write(self):
        self.touched = True
        if self.content != self._start:
            self.content_changed = True

    def _store(self, owner, tk, ttl, rdatas):
        """store a (non-empty) rdataset at owner, applying the CNAME/other-data rule"""
        existed = owner in self.content
        node = self.content.setdefault(owner, {})
        k = kind(*tk)
        if k == "cname":
            drop = [t for t in node if t != tk and kind(*t) == "regular"]
        elif k == "regular":
            drop = [t for t in node if t != tk and kind(*t) == "cname"]
        else:
            drop = []
        for t in drop:
            del node[t]
        if drop:
            self.events.append("cname-other-data")
        if not existed:
            self.events.append(("node-created", owner))
        node[tk] = (ttl, frozenset(rdatas))
        self._after_write()

    def _remove_rdataset(self, owner, tk):
        node = self.content[owner]
        del node[tk]
        if not node:
            del self.content[owner]
            self.events.append(("node-removed", owner))
        self._after_write()

    # ------------------------------------------------------------------ writes

    def _put(self, replace, owner, rdtype, covers, ttl, rdatas, rdclass, effective_spelling, ttl_form):
        self._check(True)
        owner = tuple(owner)
        rdatas = list(rdatas)
        if ttl_form and ttl > MAX_TTL:
            raise ModelError("ValueError", "TTL value too big")
        if rdclass is not None and rdclass != self.zone.rdclass:
            raise ModelError("ValueError", "wrong class")
        if rdtype == SOA and (owner != self.zone.origin or not effective_spelling):
            raise ModelError("ValueError", "non-origin SOA")
        owner = self._name(owner)
        tk = (rdtype, covers)
        if not rdatas:
            # an empty rdataset is refused (ValueError), like an empty RRset
            raise ModelError("ValueError", "empty rdataset")
        if rdtype in SINGLETONS and len(rdatas) > 1:
            rdatas = rdatas[-1:]
        existing = self.content.get(owner, {}).get(tk)
        if replace or existing is None:
            new_ttl, new = ttl, set(rdatas)
        else:
            ettl, eset = existing
            new_ttl = min(ettl, ttl) if eset else ttl
            if rdtype in SINGLETONS and rdatas:
                if set(rdatas) != set(eset):
                    self.events.append("singleton-replaced")
                new = set(rdatas)
            else:
                new = set(eset) | set(rdatas)
            if ttl != ettl and eset:
                self.events.append("ttl-merged")
        self._store(owner, tk, new_ttl, new)

    def add(self, owner, rdtype, covers, ttl, rdatas, rdclass=None, effective_spelling=True, ttl_form=False):
        self._put(False, owner, rdtype, covers, ttl, rdatas, rdclass, effective_spelling, ttl_form)

    def replace(self, owner, rdtype, covers, ttl, rdatas, rdclass=None, effective_spelling=True, ttl_form=False):
        self._put(True, owner, rdtype, covers, ttl, rdatas, rdclass, effective_spelling, ttl_form)

    def delete_name(self, owner, exact=False):
        self._check(True)
        owner = self._name(owner)
        if owner not in self.content:
            if exact:
                raise ModelError("DeleteNotExact", "name not known")
            return
        del self.content[owner]
        self.events.append(("node-removed", owner))
        self._after_write()

    def delete_rdataset(self, owner, rdtype, covers=0, exact=False):
        self._check(True)
        owner = self._name(owner)
        tk = (rdtype, covers)
        if tk not in self.content.get(owner, {}):
            if exact:
                raise ModelError("DeleteNotExact", "missing rdataset")
            return
        self._remove_rdataset(owner, tk)

    def delete_rdatas(self, owner, rdtype, covers, rdatas, rdclass=None, exact=False):
        """only what is listed.  An empty list deletes nothing."""
        self._check(True)
        owner = tuple(owner)
        rdatas = set(rdatas)
        if rdatas and rdclass is not None and rdclass != self.zone.rdclass:
            raise ModelError("ValueError", "wrong class")
        owner = self._name(owner)
        tk = (rdtype, covers)
        if not rdatas:
            # deleting nothing: no content change; an existing rdataset is stored back as it is,
            # which may count as a write for changed()
            if self.content.get(owner, {}).get(tk) is not None:
                self._after_write()
            return
        existing = self.content.get(owner, {}).get(tk)
        if existing is None:
            if exact:
                raise ModelError("DeleteNotExact", "missing rdataset")
            return
        ettl, eset = existing
        if exact and not rdatas <= eset:
            raise ModelError("DeleteNotExact", "missing rdatas")
        rest = eset - rdatas
        if rest:
            self.content[owner][tk] = (ettl, frozenset(rest))
            # a store of the remaining records: counts as a write even when nothing listed
            # was present
            self._after_write()
        else:
            self._remove_rdataset(owner, tk)

    def update_serial(self, value=1, relative=True, effective_spelling=True):
        if self.ended:
            raise ModelError("AlreadyEnded")
        if value < 0:
            raise ModelError("ValueError", "negative update_serial() value")
        origin = self.zone.origin
        existing = self.content.get(origin, {}).get((SOA, 0))
        if existing is None or not existing[1]:
            raise ModelError("KeyError", "no SOA")
        ttl, rds = existing
        (soa,) = tuple(rds)
        if relative:
            serial = serial_add(serial_of(soa), value)
        else:
            if value > 2**32 - 1:
                raise ModelError("unspecified", "absolute serial above 2**32-1")
            serial = value
        if serial == 0:
            serial = 1
        if self.read_only:
            raise ModelError("ReadOnly")
        if not effective_spelling:
            raise ModelError("ValueError", "non-origin SOA")
        self._store(origin, (SOA, 0), ttl, [with_serial(soa, serial)])
        return serial

    # ------------------------------------------------------------------ reads

    def get(self, owner, rdtype, covers=0):
        self._check(False)
        owner = self._name(owner)
        return self.content.get(owner, {}).get((rdtype, covers))

    def get_node(self, owner):
        self._check(False)
        owner = self._name(owner)
        node = self.content.get(owner)
        return None if node is None else dict(node)

    def name_exists(self, owner):
        self._check(False)
        owner = self._name(owner)
        return owner in self.content

    def names(self):
        self._check(False)
        return set(self.content)

    def rdatasets(self):
        self._check(False)
        return copy_content(self.content)

    def changed_bounds(self):
        """(lower, upper) for changed(); a reader's answer is always False"""
        self._check(False)
        if self.read_only:
            return (False, False)
        return (self.content_changed, self.touched)

    # ------------------------------------------------------------------ endings

    def commit(self):
        self._check(False)
        self.ended = True
        if not self.read_only:
            self.zone.content = copy_content(self.content)

    def rollback(self):
        self._check(False)
        self.ended = True
