"""Sequential reference models of the resolver caches (imports nothing from dns).

Both models are driven by the same operation tuples and own the clock (``now``), so that a
history containing clock advances can be replayed in any order by the linearizability search
of vlib/props/c17.py.

    ("put", key, vid, expiration)     -> None        vid identifies the stored answer
    ("get", key)                      -> vid | None
    ("flush", key | None)             -> None
    ("setmax", n)                     -> None        LRU only
    ("khits", key)                    -> int         LRU only (get_hits_for_key)
    ("hits",) ("misses",)             -> int
    ("snap",)                         -> (hits, misses)
    ("reset",)                        -> None
    ("adv", dt)                       -> None        clock += dt

Freshness rule shared by both: an answer is returned only while ``expiration > now``.

``SimpleCacheModel`` (dns.resolver.Cache): key -> most recent put, unless flushed.  The
periodic sweep is not modelled: it only removes entries that can never be returned again.

``LRUModel`` (dns.resolver.LRUCache): recency list, most recent first.  A put of a new or
existing key makes it most recent; a successful get makes it most recent; a get that finds an
expired entry drops it; put evicts from the least-recent end until there is room
(``len < max_size``) -- so after every put ``len <= max_size``; set_max_size only records the
limit (values < 1 mean 1) and never evicts by itself (DESIGN section 4 item 7).
"""


class _Base:
    def __init__(self, now):
        self.now = now
        self.hits = 0
        self.misses = 0
        self.events = []  # what happened in the last apply(): "expiry_miss", "evict", ...

    def apply(self, op):
        self.events = []
        name = op[0]
        if name == "adv":
            self.now += op[1]
            return None
        if name == "hits":
            return self.hits
        if name == "misses":
            return self.misses
        if name == "snap":
            return (self.hits, self.misses)
        if name == "reset":
            self.hits = 0
            self.misses = 0
            return None
        return getattr(self, "_" + name)(*op[1:])


class SimpleCacheModel(_Base):
    kind = "cache"

    def __init__(self, now):
        super().__init__(now)
        self.d = {}  # key -> (vid, expiration)

    def copy(self):
        m = SimpleCacheModel(self.now)
        m.hits, m.misses = self.hits, self.misses
        m.d = dict(self.d)
        return m

    def fresh(self):
        """key -> vid for everything a get could still return (now or later)."""
        return {k: v for k, (v, exp) in self.d.items() if exp > self.now}

    def key(self):
        return (self.now, self.hits, self.misses, tuple(sorted(self.fresh().items())))

    def final(self):
        return {"fresh": self.fresh(), "hits": self.hits, "misses": self.misses}

    def _put(self, key, vid, exp):
        if key in self.d:
            self.events.append("overwrite")
        self.d[key] = (vid, exp)
        return None

    def _get(self, key):
        e = self.d.get(key)
        if e is None:
            self.misses += 1
            self.events.append("absent_miss")
            return None
        if e[1] <= self.now:
            self.misses += 1
            self.events.append("expiry_miss")
            if e[1] == self.now:
                self.events.append("at_expiry_instant")
            return None
        self.hits += 1
        self.events.append("hit")
        return e[0]

    def _flush(self, key):
        if key is None:
            self.d = {}
        else:
            self.d.pop(key, None)
        return None


class LRUModel(_Base):
    kind = "lru"

    def __init__(self, now, max_size):
        super().__init__(now)
        self.order = []  # [key, vid, expiration, hits], most recently used first
        self.max_size = max(1, max_size)

    def copy(self):
        m = LRUModel(self.now, self.max_size)
        m.hits, m.misses = self.hits, self.misses
        m.order = [list(e) for e in self.order]
        return m

    def key(self):
        return (self.now, self.hits, self.misses, self.max_size, tuple(tuple(e) for e in self.order))

    def final(self):
        return {
            "ring": [(e[0], e[1], e[3]) for e in self.order],
            "hits": self.hits,
            "misses": self.misses,
            "max_size": self.max_size,
        }

    def _find(self, key):
        for i, e in enumerate(self.order):
            if e[0] == key:
                return i
        return None

    def _put(self, key, vid, exp):
        i = self._find(key)
        if i is not None:
            del self.order[i]
            self.events.append("overwrite")
        n = 0
        while len(self.order) >= self.max_size:
            victim = self.order.pop()
            self.events.append(("evict", victim[0]))
            n += 1
        if n >= 2:
            self.events.append("multi_eviction")
        self.order.insert(0, [key, vid, exp, 0])
        return None

    def _get(self, key):
        i = self._find(key)
        if i is None:
            self.misses += 1
            self.events.append("absent_miss")
            return None
        e = self.order.pop(i)
        if e[2] <= self.now:
            self.misses += 1
            self.events.append("expiry_miss")
            if e[2] == self.now:
                self.events.append("at_expiry_instant")
            return None
        self.order.insert(0, e)
        self.hits += 1
        e[3] += 1
        self.events.append("hit")
        if i > 0:
            self.events.append("relink")
        return e[1]

    def _khits(self, key):
        i = self._find(key)
        if i is None or self.order[i][2] <= self.now:
            return 0
        return self.order[i][3]

    def _flush(self, key):
        if key is None:
            self.order = []
        else:
            i = self._find(key)
            if i is not None:
                del self.order[i]
        return None

    def _setmax(self, n):
        self.max_size = max(1, n)
        if len(self.order) > self.max_size:
            self.events.append("overfull")
        return None


def linearize(history, model, final_ok):
    """Search a total order of ``history`` that is consistent with real-time precedence and
    that the sequential model reproduces (results and final state).

    history: list of (inv, resp, op, result); inv/resp are positions in one global log.
    model:   initial model (copied, never mutated).
    final_ok(model) -> bool: does the model's final state equal the observed final state?
    Returns (order or None, number of complete orders tried).
    """
    n = len(history)
    full = (1 << n) - 1
    pred = []
    for i in range(n):
        m = 0
        for j in range(n):
            if j != i and history[j][1] < history[i][0]:
                m |= 1 << j
        pred.append(m)
    seen = set()
    stats = {"complete": 0}

    def dfs(mask, mdl, acc):
        if mask == full:
            stats["complete"] += 1
            return list(acc) if final_ok(mdl) else None
        k = (mask, mdl.key())
        if k in seen:
            return None
        seen.add(k)
        for i in range(n):
            if (mask >> i) & 1 or (pred[i] & ~mask):
                continue
            m2 = mdl.copy()
            if m2.apply(history[i][2]) != history[i][3]:
                continue
            acc.append(i)
            r = dfs(mask | (1 << i), m2, acc)
            if r is not None:
                return r
            acc.pop()
        return None

    return dfs(0, model.copy(), []), stats["complete"]
