"""atheris (libFuzzer) driver for the C04 parser targets.

usage: python -m vlib.fuzz.driver <target> [libFuzzer args...]

The semantic oracle lives in vlib/props/c04.py (run_* functions); this driver only decodes the
fuzzer's bytes into a case descriptor (decode()) and lets a Violation crash the process, so that
libFuzzer saves the input.  decode() is also used by the C04 check to replay a saved input
in-process.
"""

import os
import sys


def _bool(b, i):
    return bool(b[i % len(b)] & (1 << (i % 8))) if b else False


def decode(target, data):
    """bytes -> case descriptor for vlib.props.c04.run_<target>"""
    from vlib.gen import rdata as R

    data = bytes(data)
    head, body = data[:4], data[4:]
    h = list(head) + [0, 0, 0, 0]
    if target == "wire_message":
        opts = {k: bool(h[0] & (1 << i)) for i, k in enumerate(
            ["question_only", "one_rr_per_rrset", "ignore_trailing", "raise_on_truncation", "continue_on_error", "xfr", "keyring"])}
        origin = [None, ["", ], ["6578616d706c65", ""]][h[1] % 3]
        return {"wire": body.hex(), "opts": opts, "origin": origin}
    if target == "wire_name":
        return {"buf": body.hex(), "off": h[0] % (len(body) + 1)}
    if target == "wire_rdata":
        name = R.ALL_TYPES[h[0] % len(R.ALL_TYPES)]
        pre = [b"", b"\x03www\x07example\x00\x01a\xc0\x04"][h[1] % 2]
        origin = [None, [""], ["6578616d706c65", ""]][h[2] % 3]
        return {"type": name, "rdclass": R.rdclass_for(name), "rdtype": R.TYPECODES[name], "wire": body.hex(), "pre": pre.hex(), "origin": origin}
    text = body.decode("utf-8", "replace")
    if target == "text_name":
        return {"text": text, "origin": ["root", "none", "ex"][h[0] % 3]}
    if target == "text_rdata":
        types = [t for t in R.ALL_TYPES if t != "OPT"]
        name = types[h[0] % len(types)]
        return {"type": name, "rdclass": R.rdclass_for(name), "rdtype": R.TYPECODES[name], "text": text,
                "origin": ["root", "none", "ex"][h[1] % 3], "relativize": bool(h[2] & 1)}
    if target == "text_zone":
        import re

        text = re.sub(r"(\d{3,})(-|/)", lambda m: m.group(1)[:2] + m.group(2), text)
        text = re.sub(r"-(\d{3,})", lambda m: "-" + m.group(1)[:2], text)
        return {"text": text, "factory": ["plain", "versioned", "btree"][h[0] % 3], "origin": ["ex", "none", "root"][h[1] % 3],
                "relativize": bool(h[2] & 1), "check_origin": bool(h[2] & 2), "allow_directives": [True, False, "some"][h[3] % 3]}
    if target == "read_rrsets":
        import re

        text = re.sub(r"(\d{3,})(-|/)", lambda m: m.group(1)[:2] + m.group(2), text)
        text = re.sub(r"-(\d{3,})", lambda m: "-" + m.group(1)[:2], text)
        pick = lambda xs, i: xs[h[i] % len(xs)]
        return {"text": text, "origin": pick(["ex", "none", "root"], 0), "relativize": bool(h[1] & 1),
                "name": pick([None, "forced.example.", "@"], 1), "ttl": pick([None, 300, "1h", "x"], 2), "rdclass": pick([None, "IN", "CH"], 3),
                "default_rdclass": None, "rdtype": pick([None, None, "A", "TXT"], 2), "default_ttl": pick([None, 60], 3)}
    if target == "text_message":
        return {"text": text, "one_rr_per_rrset": bool(h[0] & 1)}
    if target == "text_misc":
        return {"text": text}
    raise ValueError(target)


TARGETS = ["wire_message", "wire_name", "wire_rdata", "text_name", "text_rdata", "text_zone", "read_rrsets", "text_message", "text_misc"]


def main():
    target = sys.argv[1]
    here = os.path.dirname(os.path.dirname(os.path.dirname(os.path.abspath(__file__))))
    sys.path.insert(0, here)
    from vlib import runner

    runner.setup_import_path()
    import atheris

    with atheris.instrument_imports(include=["dns"]):
        import dns  # noqa
        import dns.message  # noqa
        import dns.zone  # noqa
        import dns.zonefile  # noqa
        import dns.rdata  # noqa
        import dns.btreezone  # noqa
        import dns.versioned  # noqa
        import dns.tsig  # noqa
        import dns.rdatatype

        dns.rdata.load_all_types(disable_dynamic_load=False)
    from vlib.props import c04

    fn = getattr(c04, "run_" + target)

    def one(data):
        try:
            fn(decode(target, data))
        except runner.Violation:
            raise
        except RecursionError:
            raise

    atheris.Setup([sys.argv[0]] + sys.argv[2:], one)
    atheris.Fuzz()


if __name__ == "__main__":
    main()
