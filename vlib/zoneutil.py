"""Helpers shared by the zone-level checks (C09, C10, C11, C13, C20).

extract(zone_or_txn) turns zone content into plain data, using the independent canonical
form of vlib/ref/canon.py, WITH TTLs (Zone.__eq__ ignores TTLs):

    { owner_key : { (rdtype:int, covers:int) : (ttl:int, frozenset(canonical_rdata: bytes)) } }

owner_key = tuple of lower-cased labels of the ABSOLUTE owner name, most significant label
first (i.e. vlib.ref.wire.name_key of the absolute name), so relativized and absolute zones
with the same content extract to equal values.
"""

from vlib.ref import canon as C
from vlib.ref import wire as W


def owner_key(name, origin):
    """name: dns.name.Name (relative or absolute); origin: dns.name.Name (absolute)"""
    if not name.is_absolute():
        name = name.derelativize(origin)
    return W.name_key(name.labels)


def rdata_key(rd, origin):
    """canonical octets of one rdata (names made absolute with origin)"""
    return C.canonical_rdata(int(rd.rdtype), rd.to_wire(origin=origin))


def extract_rdataset(rds, origin):
    return (int(rds.ttl), frozenset(rdata_key(rd, origin) for rd in rds))


def extract(zone, origin=None):
    """zone: dns.zone.Zone (any flavour) or anything with iterate_rdatasets()."""
    origin = origin if origin is not None else zone.origin
    out = {}
    for name, rds in zone.iterate_rdatasets():
        k = owner_key(name, origin)
        node = out.setdefault(k, {})
        tk = (int(rds.rdtype), int(rds.covers))
        if tk in node:
            raise AssertionError(f"two rdatasets of type {tk} at {name}")
        node[tk] = extract_rdataset(rds, origin)
    return out


def extract_txn(txn, origin):
    """content seen through a transaction (reader or writer)"""
    out = {}
    for name, rds in txn.iterate_rdatasets():
        k = owner_key(name, origin)
        out.setdefault(k, {})[(int(rds.rdtype), int(rds.covers))] = extract_rdataset(rds, origin)
    return out


def diff(a, b, limit=6):
    """human-readable differences between two extractions"""
    out = []
    for k in sorted(set(a) | set(b)):
        na, nb = a.get(k, {}), b.get(k, {})
        for tk in sorted(set(na) | set(nb)):
            if na.get(tk) != nb.get(tk):
                def show(v):
                    if v is None:
                        return "absent"
                    return f"ttl={v[0]} {sorted(x.hex() for x in v[1])}"
                out.append(f"{b'.'.join(reversed(k)).decode('latin1')} type{tk}: {show(na.get(tk))} vs {show(nb.get(tk))}")
                if len(out) >= limit:
                    return out
    return out
