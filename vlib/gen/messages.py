"""Hypothesis strategies producing *message descriptors* (plain JSON data) and the builder that
turns a descriptor into a dns.message.Message (dns imported lazily).

descriptor:
  {"id": int, "flags": int (16-bit header flags incl. opcode and low rcode bits),
   "origin": [hex labels] | None,
   "question": [[labels_hex, rdtype, rdclass], ...],
   "sections": [[rrset, ...], [rrset, ...], [rrset, ...]]   answer / authority / additional
        rrset = {"name": labels_hex, "rdclass": int, "type": name, "rdtype": int, "ttl": int,
                 "rdatas": [wire hex, ...]}            (empty list = empty rrset)
   "edns": None | {"version": int, "flags": int (16 low bits of the OPT TTL), "payload": int,
                   "options": OPT RDATA wire hex, "xrcode": int (upper 8 bits of the rcode)},
   "update": None | {"zone_class": int, "ops": [[op, ...], ...]}}   (opcode UPDATE only)
"""

from hypothesis import strategies as st

from vlib.gen import names as G
from vlib.gen import rdata as R

MSG_TYPES = [t for t in R.ZONE_TYPES]
# types whose RDATA the renderer may compress / that carry names: over-sampled
NAMEY = ["NS", "CNAME", "PTR", "MX", "SOA", "SRV", "NAPTR", "RRSIG", "SIG", "NSEC", "DNAME", "RP", "KX", "AFSDB", "RT", "PX", "LP", "SVCB", "HIP"]
PLAIN = ["A", "AAAA", "TXT", "DS", "DNSKEY", "CAA", "HINFO", "TLSA"]


@st.composite
def owner(draw, pool, origin):
    labs = list(draw(st.sampled_from(pool)))
    labs = [G.flip_case(draw, l) for l in labs]
    return labs


@st.composite
def rrset(draw, pool, origin, big=False, twin_of=None):
    tname = draw(st.one_of(st.sampled_from(NAMEY), st.sampled_from(PLAIN), st.sampled_from(MSG_TYPES)))
    if big:
        tname = "TXT"
    if twin_of is not None:
        # a second signature RRset at the same owner (same spelling or a case variant) that covers
        # another type: same (name, class, type), distinct only by the covered type
        tname = twin_of["type"]
    ctx = {"pool": pool}
    if origin is not None:
        ctx["origin"] = origin
    n = draw(st.sampled_from([1, 1, 1, 2, 3])) if not big else 80
    if tname in ("SOA", "CNAME", "DNAME", "NSEC"):
        n = min(n, 1)
    rdatas = []
    seen = set()
    covers = None
    if big:
        # >= 16 KiB of TXT so that later names sit beyond offset 0x3FFF
        k = draw(st.integers(62, 70))
        rdatas = [(bytes([255]) + bytes([i]) * 255).hex() for i in range(k)]
        n = 0
    for _ in range(n):
        rec = draw(R.record(ctx=ctx, name=tname))
        w = rec["wire"]
        if tname in ("RRSIG", "SIG"):
            # one covered type per rrset
            if covers is None:
                covers = w[:4]
                if twin_of is not None and twin_of["rdatas"]:
                    other = int(twin_of["rdatas"][0][:4], 16)
                    mine = draw(st.sampled_from([1, 2, 5, 6, 15, 16, 28, 46, 47, 48, 255, 65534]))
                    if mine == other:
                        mine = 1 if other != 1 else 2
                    covers = "%04x" % mine
            w = covers + w[4:]
        if w in seen:
            continue
        seen.add(w)
        rdatas.append(w)
    ttl = draw(st.one_of(st.sampled_from([0, 1, 300, 86400, 2**31 - 1]), st.integers(0, 2**31 - 1)))
    if twin_of is not None:
        oname = G.hexl([G.flip_case(draw, l) for l in G.unhexl(twin_of["name"])])
    else:
        oname = G.hexl(draw(owner(pool, origin)))
    return {
        "name": oname,
        "rdclass": 1,
        "type": tname,
        "rdtype": R.TYPECODES[tname],
        "ttl": ttl,
        "rdatas": rdatas,
    }


@st.composite
def name_pool(draw, origin):
    fam = draw(G.name_family(2, 5, absolute=True))
    if origin is not None:
        # some names under the origin
        for i in range(len(fam)):
            if draw(st.booleans()):
                pre = fam[i][:-1][:2]
                while G.wire_len(pre) + G.wire_len(origin) > 255:
                    pre = pre[1:]
                fam[i] = pre + list(origin)
        if draw(st.integers(0, 3)) == 0:
            # a name under the origin that is exactly (or one short of) 255 octets on the wire: it is
            # held relative and only reaches full length when the origin is appended at render time
            room = 255 - G.wire_len(origin) - draw(st.sampled_from([0, 0, 1]))
            if room >= 2:
                fam.append(draw(G.long_rel_labels(target=room)) + list(origin))
    return fam


@st.composite
def edns(draw):
    if draw(st.integers(0, 2)) == 0:
        return None
    b = R.B(draw, {})
    R.t_OPT(b)
    return {
        "version": draw(st.sampled_from([0, 0, 0, 1, 255])),
        "flags": draw(st.sampled_from([0, 0x8000, 0x8000, 0x4000, 0xFFFF, 0x0001])),
        "payload": draw(st.sampled_from([512, 1232, 4096, 65535, 0, 1])),
        "options": bytes(b.out).hex(),
        "xrcode": draw(st.sampled_from([0, 0, 0, 1, 0xFF, 0x10])),
        "normalizing": "normalizing" in b.flags,
        "pad": draw(st.sampled_from([0, 0, 0, 0, 16, 128, 31])),
    }


@st.composite
def message(draw, allow_update=True, big_ok=True, sections_max=3):
    origin = None
    if draw(st.integers(0, 3)) == 0:
        origin = draw(G.abs_name(max_wire=30))
    pool = draw(name_pool(origin))
    kind = draw(st.sampled_from(["query", "response", "response", "response", "notify", "update", "other"]))
    if kind == "update" and not allow_update:
        kind = "response"
    stair = None
    if kind in ("response", "notify", "other") and draw(st.integers(0, 9)) == 0:
        # a staircase: every name is the previous one with one more label in front, used as owners
        # shortest first, so that the k-th is rendered as "label + pointer to the (k-1)-th" and a
        # decoder follows k pointers to read it (RFC 1035 4.1.4 sets no limit on the chain)
        base = list(origin) if origin is not None else list(pool[0])[-2:]
        if G.wire_len(base) > 100:
            base = [b"x", b""]
        stair = [base]
        for i in range(draw(st.integers(11, 24))):
            lab = draw(st.sampled_from([b"a", b"B", b"0", b"zz", b"\x00", b"_"]))
            stair.append([lab] + stair[-1])
        pool = stair + pool[:2]
    opcode = {"query": 0, "response": 0, "notify": 4, "update": 5}.get(kind)
    if opcode is None:
        opcode = draw(st.sampled_from([1, 2, 3, 6, 7, 15]))
    flags = draw(st.integers(0, 0xFFFF)) & 0x87FF  # clear opcode
    if kind == "query":
        flags &= 0x7FFF
    flags |= opcode << 11
    flags &= ~0x0200  # TC is decided by the renderer; a set TC bit makes parsers raise on request
    desc = {"id": draw(st.integers(0, 65535)), "flags": flags, "origin": None if origin is None else G.hexl(origin), "update": None}
    if kind == "update":
        zone = origin if origin is not None else draw(st.sampled_from(pool))
        zc = draw(st.sampled_from([1, 1, 1, 3, 4]))  # IN, CH, HS
        desc["update"] = {"zone": G.hexl(zone), "zone_class": zc, "ops": draw(update_ops(pool, origin, zc))}
        desc["question"] = []
        desc["sections"] = [[], [], []]
    else:
        nq = draw(st.sampled_from([1, 1, 1, 0, 2]))
        desc["question"] = [
            [G.hexl(draw(owner(pool, origin))), draw(st.sampled_from([1, 2, 6, 15, 28, 255, 252, 65535])), draw(st.sampled_from([1, 1, 3, 255, 254, 65535, 0xFE00]))]
            for _ in range(nq)
        ]
        # distinct questions only (find_rrset(force_unique) keeps duplicates, fine either way)
        big = big_ok and draw(st.integers(0, 19)) == 0
        secs = []
        for si in range(3):
            k = draw(st.integers(0, sections_max)) if kind != "query" else draw(st.sampled_from([0, 0, 1]))
            sec = []
            keys = set()
            if stair is not None and si == 0:
                for nm in stair:
                    t = draw(st.sampled_from(["A", "A", "TXT"]))
                    rs = {"name": G.hexl(nm), "rdclass": 1, "type": t, "rdtype": R.TYPECODES[t], "ttl": 300,
                          "rdatas": ["0a000001"] if t == "A" else ["0161"]}
                    keys.add((tuple(l.lower() for l in rs["name"]), rs["rdtype"], ""))
                    sec.append(rs)
            for j in range(k):
                rs = draw(rrset(pool, origin, big=(big and si == 0 and j == 0)))
                key = (tuple(l.lower() for l in rs["name"]), rs["rdtype"], rs["rdatas"][0][:4] if rs["type"] in ("RRSIG", "SIG") and rs["rdatas"] else "")
                if key in keys:
                    continue
                keys.add(key)
                sec.append(rs)
                if rs["type"] in ("RRSIG", "SIG") and rs["rdatas"] and draw(st.booleans()):
                    tw = draw(rrset(pool, origin, twin_of=rs))
                    key = (tuple(l.lower() for l in tw["name"]), tw["rdtype"], tw["rdatas"][0][:4] if tw["rdatas"] else "")
                    if key not in keys:
                        keys.add(key)
                        sec.append(tw)
            secs.append(sec)
        desc["sections"] = secs
    desc["edns"] = draw(edns())
    return desc


@st.composite
def update_ops(draw, pool, origin, zone_class=1):
    ops = []
    n = draw(st.integers(0, 6))
    ctx = {"pool": pool}
    if origin is not None:
        ctx["origin"] = origin
    for _ in range(n):
        op = draw(st.sampled_from(["add", "add", "delete_name", "delete_type", "delete_rdata", "replace", "present_name", "present_type", "present_rdata", "absent_name", "absent_type"]))
        nm = G.hexl(draw(owner(pool, origin)))
        if zone_class == 1:
            tname = draw(st.sampled_from(["A", "TXT", "MX", "NS", "AAAA", "SRV", "CNAME"]))
        elif zone_class == 3:
            tname = draw(st.sampled_from(["CH_A", "CH_A", "TXT", "MX", "NS", "CNAME"]))  # CH A is class-specific
        else:
            tname = draw(st.sampled_from(["TXT", "MX", "NS", "CNAME"]))
        rds = [draw(R.record(ctx=ctx, name=tname))["wire"] for _ in range(draw(st.integers(1, 2)))]
        ttl = draw(st.sampled_from([0, 300, 86400]))
        ops.append([op, nm, ttl, tname, sorted(set(rds))])
    return ops


# ---------------------------------------------------------------------------
# builder (imports dns lazily so that VERIF_REPO is honoured)


def _name(hl, origin, relative_ok=True):
    import dns.name

    n = dns.name.Name(G.unhexl(hl))
    if origin is not None and relative_ok:
        n = n.relativize(origin)
    return n


def build(desc):
    import dns.edns
    import dns.flags
    import dns.message
    import dns.name
    import dns.opcode
    import dns.rdata
    import dns.rdataclass
    import dns.rdatatype
    import dns.update

    origin = None if desc["origin"] is None else dns.name.Name(G.unhexl(desc["origin"]))
    opcode = (desc["flags"] >> 11) & 0xF
    if desc.get("update") is not None:
        u = desc["update"]
        zone = dns.name.Name(G.unhexl(u["zone"]))
        m = dns.update.UpdateMessage(zone, rdclass=u["zone_class"], id=desc["id"])
        origin = m.origin
        m.flags = dns.flags.Flag(desc["flags"])
        for op, nm, ttl, tname, rds in u["ops"]:
            name = _name(nm, origin)
            rdtype = R.TYPECODES[tname]
            rdatas = [dns.rdata.from_wire(u["zone_class"], rdtype, bytes.fromhex(w), 0, len(w) // 2, origin) for w in rds]
            if op == "add":
                m.add(name, ttl, *rdatas)
            elif op == "replace":
                m.replace(name, ttl, *rdatas)
            elif op == "delete_name":
                m.delete(name)
            elif op == "delete_type":
                m.delete(name, rdtype)
            elif op == "delete_rdata":
                m.delete(name, *rdatas)
            elif op == "present_name":
                m.present(name)
            elif op == "present_type":
                m.present(name, rdtype)
            elif op == "present_rdata":
                m.present(name, *rdatas)
            elif op == "absent_name":
                m.absent(name)
            elif op == "absent_type":
                m.absent(name, rdtype)
    else:
        factory = dns.message._message_factory_from_opcode(opcode)
        m = factory(id=desc["id"])
        m.flags = dns.flags.Flag(desc["flags"])
        m.origin = origin
        for nm, rdtype, rdclass in desc["question"]:
            m.find_rrset(m.question, _name(nm, origin), rdclass, rdtype, create=True, force_unique=True)
        for si, sec in enumerate(desc["sections"]):
            section = m.sections[si + 1]
            for rs in sec:
                rdatas = [
                    dns.rdata.from_wire(rs["rdclass"], rs["rdtype"], bytes.fromhex(w), 0, len(w) // 2, origin)
                    for w in rs["rdatas"]
                ]
                covers = rdatas[0].covers() if rdatas else dns.rdatatype.NONE
                rr = m.find_rrset(section, _name(rs["name"], origin), rs["rdclass"], rs["rdtype"], covers, None, True)
                for rd in rdatas:
                    rr.add(rd, rs["ttl"])
                if not rdatas:
                    rr.ttl = 0
    e = desc.get("edns")
    if e is not None:
        w = bytes.fromhex(e["options"])
        opt = dns.rdata.from_wire(e["payload"], dns.rdatatype.OPT, w, 0, len(w))
        eflags = (e["xrcode"] << 24) | (e["flags"] & 0xFFFF)
        m.use_edns(edns=e["version"], ednsflags=e["flags"] & 0xFFFF, payload=e["payload"], options=list(opt.options), pad=e.get("pad", 0))
        # the extended rcode goes in through the public setter
        m.set_rcode((e["xrcode"] << 4) | (desc["flags"] & 0xF))
    return m


def expected_header(desc):
    """what the descriptor says the header / EDNS state must be (independent of the library)"""
    e = desc.get("edns")
    out = {
        "id": desc["id"],
        "flags": desc["flags"],
        "opcode": (desc["flags"] >> 11) & 0xF,
        "rcode": (desc["flags"] & 0xF) | ((e["xrcode"] << 4) if e else 0),
        "edns": e["version"] if e else -1,
        "payload": e["payload"] if e else 0,
        "ednsflags": ((e["xrcode"] << 24) | (e["version"] << 16) | (e["flags"] & 0xFFFF)) if e else 0,
    }
    return out
