"""Hypothesis strategies for DNS names.  Names are produced as lists of label *bytes*
(absolute names end with b""); descriptors carry them as lists of hex strings."""

from hypothesis import strategies as st

HOSTILE = (
    b'."();\\@$ \t\n\r0123456789'
    + bytes([0x00, 0x01, 0x1F, 0x20, 0x21, 0x7E, 0x7F, 0x80, 0xFF])
    + b"AaZz@[`{*_-"
)

_any_octet = st.integers(0, 255)
_hostile_octet = st.sampled_from(list(HOSTILE))
_letter = st.sampled_from(list(b"abcxyzABCXYZ"))


def label(min_size=1, max_size=63):
    sz = st.one_of(
        st.integers(min_size, min(max_size, 6)),
        st.integers(min_size, min(max_size, 6)),
        st.integers(min_size, max_size),
        st.sampled_from([x for x in (1, 2, 62, 63) if min_size <= x <= max_size] or [min_size]),
    )

    @st.composite
    def _lab(draw):
        n = draw(sz)
        mode = draw(st.integers(0, 5))
        if mode == 0:
            return bytes(draw(st.lists(_any_octet, min_size=n, max_size=n)))
        if mode == 1:
            return bytes(draw(st.lists(_hostile_octet, min_size=n, max_size=n)))
        if mode == 2:
            return bytes([draw(st.one_of(_hostile_octet, _any_octet))]) * n
        if mode == 3:
            return bytes(draw(st.lists(_letter, min_size=n, max_size=n)))
        # mostly letters with one hostile octet somewhere
        body = bytearray(draw(st.lists(_letter, min_size=n, max_size=n)))
        body[draw(st.integers(0, n - 1))] = draw(_hostile_octet)
        return bytes(body)

    return _lab()


def wire_len(labels):
    return sum(len(l) + 1 for l in labels)


@st.composite
def rel_labels(draw, max_wire=254, min_labels=0, max_labels=8):
    """a relative label sequence with wire length <= max_wire (not counting a root)"""
    out = []
    total = 0
    n = draw(st.integers(min_labels, max_labels))
    for _ in range(n):
        room = max_wire - total - 1
        if room < 1:
            break
        l = draw(label(1, min(63, room)))
        out.append(l)
        total += len(l) + 1
    return out


@st.composite
def long_rel_labels(draw, target=None, max_wire=254):
    """relative labels whose wire length is exactly/near a target (boundary cases)"""
    tgt = target if target is not None else draw(st.sampled_from([250, 251, 252, 253, 254]))
    tgt = min(tgt, max_wire)
    out = []
    total = 0
    while total < tgt:
        room = tgt - total - 1
        if room < 1:
            break
        n = min(63, room)
        if room - n == 1:  # would leave 1 octet: impossible (label needs >= 2)
            n -= 1
        c = draw(st.one_of(_letter, _hostile_octet))
        out.append(bytes([c]) * n)
        total += n + 1
    return out


@st.composite
def abs_name(draw, max_wire=255):
    kind = draw(st.integers(0, 9))
    if kind == 0:
        labs = draw(long_rel_labels(max_wire=max_wire - 1))
    else:
        labs = draw(rel_labels(max_wire=max_wire - 1))
    return labs + [b""]


@st.composite
def any_name(draw):
    """absolute or relative (relative may be empty)"""
    if draw(st.booleans()):
        return draw(abs_name())
    kind = draw(st.integers(0, 9))
    if kind == 0:
        return draw(long_rel_labels())
    return draw(rel_labels())


def flip_case(draw, lab):
    if not draw(st.booleans()):
        return lab
    mask = draw(st.integers(0, (1 << min(len(lab), 16)) - 1))
    b = bytearray(lab)
    for i in range(min(len(b), 16)):
        if mask >> i & 1:
            c = b[i]
            if 65 <= c <= 90:
                b[i] = c + 32
            elif 97 <= c <= 122:
                b[i] = c - 32
    return bytes(b)


@st.composite
def name_family(draw, n_min=2, n_max=6, absolute=True, suffix=None):
    """a list of names sharing suffixes drawn from a small pool, with independent case
    flips: drives compression, canonical order and sub/super-domain relations"""
    pool = draw(st.lists(label(1, 12), min_size=1, max_size=4))
    if suffix is None:
        nsuf = draw(st.integers(1, 3))
        suffixes = []
        for _ in range(nsuf):
            k = draw(st.integers(0, 3))
            suffixes.append([draw(st.sampled_from(pool)) for _ in range(k)])
    else:
        suffixes = [list(suffix)]
    names = []
    n = draw(st.integers(n_min, n_max))
    for _ in range(n):
        suf = draw(st.sampled_from(suffixes))
        k = draw(st.integers(0, 3))
        pre = [draw(st.one_of(st.sampled_from(pool), label(1, 10))) for _ in range(k)]
        labs = [flip_case(draw, l) for l in pre + suf]
        # stay within limits
        while wire_len(labs) > 254:
            labs.pop(0)
        names.append(labs + ([b""] if absolute else []))
    if draw(st.integers(0, 2)) == 0:
        # a boundary twin of one of the names: same octets, same number of labels, one label
        # boundary moved by an octet (ab.c <-> a.bc) -- a different name that any flattened
        # comparison or hash confuses with the original
        src = draw(st.sampled_from(names))
        real = [l for l in src if l != b""]
        cand = [i for i in range(len(real) - 1) if len(real[i]) >= 2 and len(real[i + 1]) <= 62]
        if cand:
            i = draw(st.sampled_from(cand))
            tw = list(real)
            tw[i], tw[i + 1] = real[i][:-1], real[i][-1:] + real[i + 1]
            names.append([flip_case(draw, l) for l in tw] + ([b""] if absolute else []))
    return names


def hexl(labels):
    return [l.hex() for l in labels]


def unhexl(hl):
    return [bytes.fromhex(x) for x in hl]
