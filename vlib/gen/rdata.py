"""Wire grammars for every record type dnspython implements, written from the RFCs.

Each grammar *produces uncompressed RDATA wire* from Hypothesis draws; the record object is
then obtained with dns.rdata.from_wire by the checks.  This file imports nothing from dns.

build(draw, rdtype_name, ctx) -> (wire: bytes, flags: set[str])

flags describe the generated value:
  "normalizing"   the codec is documented/observed to normalise this value on re-encoding
                  (APL trailing-zero trimming, ECS masking, EDE trailing NUL, LOC zero-mantissa
                  sizes, SVCB empty generic value): identity w1 == w is not required, only
                  idempotence
  "text-lossy"    the presentation format cannot spell this value distinctly (empty blob where
                  the grammar needs >= 1 token, trailing zero octets in a type bitmap / WKS
                  bitmap, APL family other than 1/2, ...): text round-trip equality is not
                  claimed (to_text() must still not raise)
  "boundary"      some field sits on a boundary value
  "name>=2"       an embedded name has >= 2 labels
  "upper"         an embedded name contains an upper-case ASCII letter
"""

import struct

from hypothesis import strategies as st

from vlib.gen import names as G

IN, CH, HS, NONE_, ANY = 1, 3, 4, 254, 255

TYPECODES = {
    "A": 1, "NS": 2, "CNAME": 5, "SOA": 6, "WKS": 11, "PTR": 12, "HINFO": 13, "MX": 15,
    "TXT": 16, "RP": 17, "AFSDB": 18, "X25": 19, "ISDN": 20, "RT": 21, "NSAP": 22,
    "NSAP_PTR": 23, "SIG": 24, "KEY": 25, "PX": 26, "GPOS": 27, "AAAA": 28, "LOC": 29,
    "SRV": 33, "NAPTR": 35, "KX": 36, "CERT": 37, "DNAME": 39, "OPT": 41, "APL": 42,
    "DS": 43, "SSHFP": 44, "IPSECKEY": 45, "RRSIG": 46, "NSEC": 47, "DNSKEY": 48,
    "DHCID": 49, "NSEC3": 50, "NSEC3PARAM": 51, "TLSA": 52, "SMIMEA": 53, "HIP": 55,
    "NINFO": 56, "CDS": 59, "CDNSKEY": 60, "OPENPGPKEY": 61, "CSYNC": 62, "ZONEMD": 63,
    "SVCB": 64, "HTTPS": 65, "DSYNC": 66, "HHIT": 67, "BRID": 68, "SPF": 99, "NID": 104,
    "L32": 105, "L64": 106, "LP": 107, "EUI48": 108, "EUI64": 109, "TKEY": 249,
    "TSIG": 250, "URI": 256, "CAA": 257, "AVC": 258, "AMTRELAY": 260, "RESINFO": 261,
    "WALLET": 262, "DLV": 32769, "CH_A": 1,
}

# types that may appear in a zone / ordinary RRset (no meta types)
META = {"OPT", "TSIG", "TKEY"}
# class-specific implementations
IN_ONLY = {"A", "AAAA", "APL", "DHCID", "HTTPS", "IPSECKEY", "KX", "NAPTR", "NSAP",
           "NSAP_PTR", "PX", "SRV", "SVCB", "WKS"}


def u_int(bits):
    mx = (1 << bits) - 1
    edge = [0, 1, 2, mx, mx - 1, mx >> 1, (mx >> 1) + 1, 255, 256, 127, 128]
    edge = sorted({e for e in edge if 0 <= e <= mx})
    return st.one_of(st.sampled_from(edge), st.integers(0, mx), st.integers(0, min(mx, 300)))


_octets = st.one_of(
    st.binary(min_size=0, max_size=12),
    st.binary(min_size=0, max_size=12),
    st.binary(min_size=0, max_size=70),
    st.builds(lambda c, n: bytes([c, 0xFF - c]) * n, st.integers(0, 255), st.sampled_from([128, 129, 150, 300])),
    st.builds(lambda c, n: bytes([c]) * n, st.sampled_from([0, 0x22, 0x5C, 0x20, 0x7F, 0x80, 0xFF, 0x3B, 0x28, 0x0A]), st.integers(1, 8)),
    st.lists(st.sampled_from(list(G.HOSTILE)), max_size=10).map(bytes),
)


# valid UTF-8 text with the code points that text escaping has to get right: C0/C1 controls, DEL,
# NBSP, combining / zero-width / line-separator characters, BMP and astral characters
_UTF8_ALPHABET = (
    [chr(c) for c in (0x00, 0x09, 0x0A, 0x1F, 0x20, 0x22, 0x5C, 0x7E, 0x7F, 0x80, 0x85, 0x9B, 0x9F, 0xA0, 0xE9, 0xFF,
                      0x0301, 0x200B, 0x2028, 0x6F22, 0xFEFF, 0xFFFD, 0x1F600)]
    + list("ab;()@$")
)
_utf8_text = st.lists(st.sampled_from(_UTF8_ALPHABET), min_size=1, max_size=10).map(lambda l: "".join(l).encode("utf-8"))


class B:
    def __init__(self, draw, ctx):
        self.draw = draw
        self.ctx = ctx or {}
        self.out = bytearray()
        self.flags = set()
        self.names = []  # label lists of the domain names emitted, in order

    # -- primitive fields
    def raw(self, b):
        self.out += b

    def u8(self, v=None):
        v = self.draw(u_int(8)) if v is None else v
        if v in (0, 255):
            self.flags.add("boundary")
        self.out.append(v)
        return v

    def u16(self, v=None):
        v = self.draw(u_int(16)) if v is None else v
        if v in (0, 65535):
            self.flags.add("boundary")
        self.out += struct.pack("!H", v)
        return v

    def u32(self, v=None):
        v = self.draw(u_int(32)) if v is None else v
        if v in (0, 0xFFFFFFFF, 0x7FFFFFFF, 0x80000000):
            self.flags.add("boundary")
        self.out += struct.pack("!I", v)
        return v

    def u48(self, v=None):
        v = self.draw(u_int(48)) if v is None else v
        self.out += v.to_bytes(6, "big")
        return v

    def octets(self, min_size=0, max_size=None):
        b = self.draw(_octets)
        if max_size is not None:
            b = b[:max_size]
        while len(b) < min_size:
            b += b"\x00"
        if len(b) == 0:
            self.flags.add("boundary")
        return b

    def blob(self, min_size=0, max_size=None, lossy_if_empty=False):
        b = self.octets(min_size, max_size)
        if lossy_if_empty and len(b) == 0:
            self.flags.add("text-lossy")
        self.out += b
        return b

    def fixed(self, n):
        b = self.draw(st.one_of(st.binary(min_size=n, max_size=n),
                                st.sampled_from([b"\x00" * n, b"\xff" * n, b"\x80" + b"\x00" * (n - 1)])))
        self.out += b
        return b

    def charstr(self, max_size=255):
        b = self.draw(st.one_of(_octets, _octets, st.binary(min_size=250, max_size=255), _utf8_text))[:max_size]
        if len(b) in (0, 255):
            self.flags.add("boundary")
        self.out.append(len(b))
        self.out += b
        return b

    def counted16(self, b=None):
        b = self.octets() if b is None else b
        self.out += struct.pack("!H", len(b))
        self.out += b
        return b

    def name(self):
        labels = self.draw(rdata_name(self.ctx))
        if len(labels) >= 3:
            self.flags.add("name>=2")
        if any(65 <= c <= 90 for l in labels for c in l):
            self.flags.add("upper")
        for l in labels:
            self.out.append(len(l))
            self.out += l
        self.names.append(list(labels))
        return labels

    def bitmap(self):
        nwin = self.draw(st.integers(0, 3))
        wins = sorted(self.draw(st.lists(st.one_of(st.sampled_from([0, 1, 255]), st.integers(0, 255)),
                                         min_size=nwin, max_size=nwin, unique=True)))
        for w in wins:
            n = self.draw(st.sampled_from([1, 1, 2, 7, 32]))
            bm = bytearray(self.draw(st.binary(min_size=n, max_size=n)))
            if w == 0:
                bm[0] &= 0x7F  # type 0 is not a legal bitmap member in presentation form
            if bm[-1] == 0:
                if self.draw(st.booleans()):
                    bm[-1] = self.draw(st.integers(1, 127 if (w == 0 and n == 1) else 255))
                else:
                    self.flags.add("text-lossy")  # trailing zero octet cannot be spelled
            self.out += bytes([w, len(bm)]) + bytes(bm)
        if nwin == 0:
            self.flags.add("boundary")


@st.composite
def rdata_name(draw, ctx):
    k = draw(st.integers(0, 9))
    origin = ctx.get("origin")
    pool = ctx.get("pool")
    if k == 0:
        return [b""]
    if k == 9:
        # a single hostile label, alone under the origin (printed relative it is the whole token) or
        # under the root: the characters that mean something to the master-file syntax
        lab = draw(st.sampled_from([b"@", b"@", b"*", b"$", b"$ORIGIN", b"\\", b'"', b";", b" ", b".", b"(", b")", b"\t", b"\n", b"\\#", b"a b", b"\x00", b"\xff", b"@@", b"a@"]))
        return [lab] + (list(origin) if origin is not None and draw(st.booleans()) else [b""])
    if k <= 3 and origin is not None:
        pre = draw(G.rel_labels(max_wire=254 - G.wire_len(origin), max_labels=3))
        # the origin part is sometimes spelled in another case than the origin itself
        tail = [G.flip_case(draw, l) for l in origin] if draw(st.integers(0, 3)) == 0 else list(origin)
        return [G.flip_case(draw, l) for l in pre] + tail
    if k <= 5 and pool:
        labs = draw(st.sampled_from(pool))
        return [G.flip_case(draw, l) for l in labs]
    if k == 6:
        return draw(G.abs_name())
    n = draw(st.integers(1, 3))
    labs = [draw(st.sampled_from([b"example", b"EXAMPLE", b"Example", b"www", b"WWW", b"a", b"Z", b"ns1", b"com", b"*"])) for _ in range(n)]
    return labs + [b""]


# ---------------------------------------------------------------------------
# per-type grammars


def t_A(b):
    b.fixed(4)


def t_AAAA(b):
    k = b.draw(st.integers(0, 5))
    if k == 0:
        b.raw(b"\x00" * 10 + b"\xff\xff" + b.draw(st.binary(min_size=4, max_size=4)))  # v4-mapped
    elif k == 1:
        b.raw(b"\x00" * 12 + b.draw(st.binary(min_size=4, max_size=4)))  # v4-compatible
    elif k == 2:
        # runs of zero groups in various places
        groups = [b.draw(st.sampled_from([0, 0, 1, 0xFFFF, 0x0ABC])) for _ in range(8)]
        b.raw(b"".join(struct.pack("!H", g) for g in groups))
    else:
        b.fixed(16)


def t_name(b):
    b.name()


def t_mx(b):
    b.u16()
    b.name()


def t_SOA(b):
    b.name()
    b.name()
    for _ in range(5):
        b.u32()


def t_txt(b):
    n = b.draw(st.sampled_from([1, 1, 2, 3, 6]))
    for _ in range(n):
        b.charstr()


def t_HINFO(b):
    b.charstr()
    b.charstr()


def t_X25(b):
    b.charstr()


def t_ISDN(b):
    b.charstr()
    if b.draw(st.booleans()):
        s = b.charstr()
        if len(s) == 0:
            b.flags.add("normalizing")  # empty subaddress is re-encoded as absent


def t_RP(b):
    b.name()
    b.name()


def t_PX(b):
    b.u16()
    b.name()
    b.name()


def t_SRV(b):
    b.u16()
    b.u16()
    b.u16()
    b.name()


def t_NAPTR(b):
    b.u16()
    b.u16()
    b.charstr()
    b.charstr()
    b.charstr()
    b.name()


def t_WKS(b):
    b.fixed(4)
    b.u8()
    bm = b.octets(0, 40)
    if len(bm) and bm[-1] == 0:
        b.flags.add("text-lossy")
    if len(bm) == 0:
        b.flags.add("boundary")
    b.raw(bm)


def t_NSAP(b):
    b.blob(min_size=0, lossy_if_empty=True)


def t_GPOS(b):
    def fl(lo, hi):
        k = b.draw(st.integers(0, 5))
        if k == 0:
            return str(b.draw(st.integers(lo, hi))).encode()
        if k == 1:
            return str(b.draw(st.sampled_from([lo, hi, 0]))).encode()
        if k == 2:
            return ("%d.%d" % (b.draw(st.integers(lo + 1, hi - 1)), b.draw(st.integers(0, 99999)))).encode()
        if k == 3:
            return b.draw(st.sampled_from([b"+1", b"-0", b".5", b"5.", b"-.25", b"+0.0", b"00", b"007.5"]))
        if k == 4:
            return ("%s%d.%s" % (b.draw(st.sampled_from(["", "-", "+"])), b.draw(st.integers(0, hi - 1)),
                                 "0" * b.draw(st.integers(0, 5)) + str(b.draw(st.integers(0, 9))))).encode()
        return str(b.draw(st.integers(lo, hi))).encode()

    for lo, hi in ((-90, 90), (-180, 180), (-100000, 100000)):
        s = fl(lo, hi)
        b.raw(bytes([len(s)]) + s)


def t_LOC(b):
    def size():
        m = b.draw(st.integers(0, 9))
        e = b.draw(st.integers(0, 9))
        if m == 0 and e != 0:
            b.flags.add("normalizing")  # 0 x 10^e re-encodes as 0x00
        return (m << 4) | e

    b.raw(bytes([0, size(), size(), size()]))
    lat = b.draw(st.one_of(st.sampled_from([0x80000000, 0x80000000 - 90 * 3600000, 0x80000000 + 90 * 3600000,
                                            0x80000000 + 1, 0x80000000 - 1]),
                           st.integers(0x80000000 - 90 * 3600000, 0x80000000 + 90 * 3600000)))
    lon = b.draw(st.one_of(st.sampled_from([0x80000000, 0x80000000 - 180 * 3600000, 0x80000000 + 180 * 3600000,
                                            0x80000000 + 999, 0x80000000 - 59999]),
                           st.integers(0x80000000 - 180 * 3600000, 0x80000000 + 180 * 3600000)))
    b.u32(lat)
    b.u32(lon)
    alt = b.draw(st.one_of(st.sampled_from([0, 10000000, 9999999, 10000001, 0xFFFFFFFF, 10000029, 10000000 - 29]),
                           st.integers(0, 0xFFFFFFFF), st.integers(10000000 - 100000, 10000000 + 100000)))
    b.u32(alt)


def t_CERT(b):
    b.u16()
    b.u16()
    b.u8()
    b.blob(lossy_if_empty=True)


def t_ds(b, allow_zero=False):
    b.u16()
    b.u8()
    dt = b.draw(st.sampled_from(([0] if allow_zero else []) + [1, 2, 3, 4, 5, 100, 255]))
    b.u8(dt)
    if dt == 0:
        b.fixed(1)
    elif dt in (1, 2, 3, 4):
        b.fixed({1: 20, 2: 32, 3: 32, 4: 48}[dt])
    else:
        b.blob(lossy_if_empty=True)


def t_CDS(b):
    t_ds(b, allow_zero=True)


def t_dnskey(b):
    b.u16()
    b.u8()
    b.u8(b.draw(st.sampled_from([1, 5, 8, 13, 15, 0, 255, 253])))
    b.blob(lossy_if_empty=True)


def t_KEY(b):
    flags = b.u16()
    b.u8()
    b.u8(b.draw(st.sampled_from([1, 5, 8, 13, 15, 0, 255, 253])))
    if flags & 0xC000 == 0xC000:
        return  # RFC 2535 3.1.2: NOKEY -> the RR stops after the algorithm octet
    b.blob(lossy_if_empty=True)


def t_SSHFP(b):
    b.u8()
    b.u8()
    b.blob(lossy_if_empty=True)


def t_tlsa(b):
    b.u8()
    b.u8()
    b.u8()
    b.blob(lossy_if_empty=True)


def t_blob(b):
    b.blob(lossy_if_empty=True)


def t_rrsig(b):
    b.u16()  # type covered
    b.u8()
    b.u8()
    b.u32()
    b.u32()
    b.u32()
    b.u16()
    b.name()
    b.blob(lossy_if_empty=True)


def t_NSEC(b):
    b.name()
    b.bitmap()


def t_NSEC3(b):
    b.u8()
    b.u8()
    b.u16()
    b.charstr()
    nxt = b.charstr()
    if len(nxt) == 0:
        b.flags.add("text-lossy")
    b.bitmap()


def t_NSEC3PARAM(b):
    b.u8()
    b.u8()
    b.u16()
    b.charstr()


def t_CSYNC(b):
    b.u32()
    b.u16()
    b.bitmap()


def t_ZONEMD(b):
    b.u32()
    b.u8(b.draw(st.sampled_from([1, 2, 255, 240])))
    h = b.draw(st.sampled_from([1, 2, 3, 255]))
    b.u8(h)
    if h == 1:
        b.fixed(48)
    elif h == 2:
        b.fixed(64)
    else:
        b.blob(min_size=1)


def t_HIP(b):
    hit = b.octets(0, 255)
    key = b.octets()
    if len(hit) == 0 or len(key) == 0:
        b.flags.add("text-lossy")
    b.raw(struct.pack("!BBH", len(hit), b.draw(u_int(8)), len(key)))
    b.raw(hit)
    b.raw(key)
    for _ in range(b.draw(st.integers(0, 3))):
        b.name()


def t_eui48(b):
    b.fixed(6)


def t_eui64(b):
    b.fixed(8)


def t_l32(b):
    b.u16()
    b.fixed(4)


def t_l64(b):
    b.u16()
    b.fixed(8)


def t_URI(b):
    b.u16()
    b.u16()
    b.blob(min_size=1)


def t_CAA(b):
    b.u8()
    n = b.draw(st.sampled_from([1, 1, 5, 15, 255]))
    tag = bytes(b.draw(st.lists(st.sampled_from(list(b"abcxyzABCXYZ0189")), min_size=n, max_size=n)))
    b.raw(bytes([len(tag)]) + tag)
    b.blob()


def t_TKEY(b):
    b.name()
    b.u32()
    b.u32()
    b.u16()
    b.u16()
    if len(b.counted16()) == 0:
        b.flags.add("text-lossy")  # the ad-hoc text form cannot spell an empty key
    b.counted16()


def t_TSIG(b):
    b.name()
    b.u48()
    b.u16()
    if len(b.counted16()) == 0:
        b.flags.add("text-lossy")  # ... nor an empty MAC
    b.u16()
    err = b.draw(st.sampled_from([0, 16, 17, 18, 22, 1, 4095, 65535]))
    if err > 4095:
        b.flags.add("must-reject")  # the library holds the TSIG error as a 12-bit Rcode
    b.u16(err)
    b.counted16()


def t_DSYNC(b):
    b.u16()
    b.u8()
    b.u16()
    b.name()


def _gateway(b, gtype):
    if gtype == 1:
        b.fixed(4)
    elif gtype == 2:
        t_AAAA(b)
    elif gtype == 3:
        b.name()


def t_IPSECKEY(b):
    b.u8()
    gt = b.draw(st.sampled_from([0, 1, 2, 3, 3, 3]))
    b.u8(gt)
    b.u8()
    _gateway(b, gt)
    b.blob(lossy_if_empty=True)


def t_AMTRELAY(b):
    b.u8()
    gt = b.draw(st.sampled_from([0, 1, 2, 3, 3, 3]))
    b.u8(gt | (0x80 if b.draw(st.booleans()) else 0))
    _gateway(b, gt)


def t_APL(b):
    for _ in range(b.draw(st.integers(0, 3))):
        fam = b.draw(st.sampled_from([1, 1, 2, 2, 3, 0xFFFF]))
        neg = b.draw(st.booleans())
        if fam == 1:
            prefix = b.draw(st.one_of(st.sampled_from([0, 32]), st.integers(0, 32)))
            addr = b.draw(st.binary(min_size=0, max_size=4))
        elif fam == 2:
            prefix = b.draw(st.one_of(st.sampled_from([0, 127, 128]), st.integers(0, 128)))
            addr = b.draw(st.binary(min_size=0, max_size=16))
        else:
            prefix = b.draw(st.integers(0, 255))
            addr = b.draw(st.binary(min_size=0, max_size=63))
            b.flags.add("text-lossy")
        if len(addr) and addr[-1] == 0:
            if b.draw(st.booleans()):
                addr = addr[:-1] + b"\x01"
            else:
                b.flags.add("normalizing")
        b.raw(struct.pack("!HBB", fam, prefix, len(addr) | (0x80 if neg else 0)))
        b.raw(addr)


def t_CH_A(b):
    b.name()
    b.u16()


_ALPN_ID = st.one_of(st.sampled_from([b"h2", b"h3", b"http/1.1", b"a,b", b"a\\b", b'q"', b"\x00", b"\xff"]),
                     st.binary(min_size=1, max_size=8))


def t_svcb(b):
    prio = b.draw(st.sampled_from([0, 1, 1, 1, 2, 65535]))
    b.u16(prio)
    b.name()
    if prio == 0:
        return
    keys = sorted(b.draw(st.lists(st.sampled_from([1, 2, 3, 4, 5, 6, 7, 8, 9, 10, 11, 100, 65280, 65534, 65535]),
                                  max_size=5, unique=True)))
    if 2 in keys and 1 not in keys:
        keys = sorted(keys + [1])
    mand = []
    if keys and b.draw(st.booleans()):
        mand = sorted(b.draw(st.lists(st.sampled_from(keys), min_size=1, max_size=3, unique=True)))
    items = []
    if mand:
        items.append((0, b"".join(struct.pack("!H", k) for k in mand)))
    for k in keys:
        if k in (1, 10):
            ids = b.draw(st.lists(_ALPN_ID, min_size=1, max_size=3))
            v = b"".join(bytes([len(i)]) + i for i in ids)
            if any(x in i for i in ids for x in (b",", b"\\", b'"')) or any(c < 0x21 or c > 0x7E for i in ids for c in i):
                b.flags.add("svcb-escapes")
        elif k in (2, 8):
            v = b""
        elif k == 3:
            v = struct.pack("!H", b.draw(u_int(16)))
        elif k == 4:
            v = b"".join(b.draw(st.lists(st.binary(min_size=4, max_size=4), min_size=1, max_size=3)))
        elif k == 6:
            v = b"".join(b.draw(st.lists(st.binary(min_size=16, max_size=16), min_size=1, max_size=2)))
        elif k == 5:
            v = b.octets(1)
        else:
            v = b.octets()
        items.append((k, v))
    for k, v in items:
        b.raw(struct.pack("!HH", k, len(v)) + v)


def _edns_option(b):
    code = b.draw(st.sampled_from([3, 8, 8, 10, 15, 15, 18, 16, 17, 12, 5, 65001, 20292, 22, 23, 24, 25, 22, 23, 24, 25]))
    if code == 8:
        fam = b.draw(st.sampled_from([1, 2]))
        mx = 32 if fam == 1 else 128
        src = b.draw(st.one_of(st.sampled_from([0, 1, 7, 8, 9, 24, mx - 1, mx]), st.integers(0, mx)))
        scope = b.draw(st.one_of(st.sampled_from([0, mx]), st.integers(0, mx)))
        n = (src + 7) // 8
        addr = bytearray(b.draw(st.binary(min_size=n, max_size=n)))
        if src % 8 and n:
            keep = (0xFF << (8 - src % 8)) & 0xFF
            if addr[-1] & ~keep & 0xFF:
                if b.draw(st.booleans()):
                    addr[-1] &= keep
                else:
                    b.flags.add("normalizing")
        v = struct.pack("!HBB", fam, src, scope) + bytes(addr)
    elif code == 15:
        txt = b.draw(st.one_of(st.just(""), st.text(max_size=12)))
        try:
            tb = txt.encode("utf8")
        except UnicodeEncodeError:
            tb = b"x"
        # the library drops ONE trailing NUL when it parses EXTRA-TEXT ("MAY be null-terminated"),
        # so a text that still ends in NUL afterwards is not a value it keeps stable; the domain
        # is texts without trailing NULs, optionally NUL-terminated once on the wire
        tb = tb.rstrip(b"\x00")
        if b.draw(st.integers(0, 5)) == 0:
            # NUL-terminated on the wire, once or several times (D61): the decoder drops them all
            tb += b"\x00" * b.draw(st.sampled_from([1, 1, 2, 3]))
            b.flags.add("normalizing")
        v = struct.pack("!H", b.draw(st.one_of(st.integers(0, 30), u_int(16)))) + tb
    elif code == 10:
        v = b.draw(st.binary(min_size=8, max_size=8))
        if b.draw(st.booleans()):
            n = b.draw(st.sampled_from([8, 9, 16, 31, 32]))
            v += b.draw(st.binary(min_size=n, max_size=n))
    elif code == 18:
        sub = B(b.draw, b.ctx)
        sub.name()
        v = bytes(sub.out)
    elif code in (16, 17, 20292, 22, 23, 24, 25):
        # utf-8 text options (22 EDE-EXTRA-TEXT-LANGUAGE, 23-25 FILTERING-*); 16/17/20292 are generic.
        # Unlike EDE's EXTRA-TEXT these are plain values: trailing NUL octets are part of them
        try:
            v = b.draw(st.text(max_size=10)).encode("utf8")
        except UnicodeEncodeError:
            v = b"en"
        if b.draw(st.integers(0, 3)) == 0:
            v += b"\x00" * b.draw(st.sampled_from([1, 1, 2, 3]))
            b.flags.add("text-option-trailing-nul")
    else:
        v = b.octets()
    b.raw(struct.pack("!HH", code, len(v)) + v)


def t_OPT(b):
    for _ in range(b.draw(st.integers(0, 4))):
        _edns_option(b)


GRAMMARS = {
    "A": t_A, "AAAA": t_AAAA, "NS": t_name, "CNAME": t_name, "PTR": t_name, "DNAME": t_name,
    "NSAP_PTR": t_name, "MX": t_mx, "AFSDB": t_mx, "RT": t_mx, "KX": t_mx, "LP": t_mx,
    "SOA": t_SOA, "TXT": t_txt, "SPF": t_txt, "AVC": t_txt, "NINFO": t_txt, "RESINFO": t_txt,
    "WALLET": t_txt, "HINFO": t_HINFO, "X25": t_X25, "ISDN": t_ISDN, "RP": t_RP, "PX": t_PX,
    "SRV": t_SRV, "NAPTR": t_NAPTR, "WKS": t_WKS, "NSAP": t_NSAP, "GPOS": t_GPOS, "LOC": t_LOC,
    "CERT": t_CERT, "DS": t_ds, "DLV": t_ds, "CDS": t_CDS, "DNSKEY": t_dnskey, "CDNSKEY": t_dnskey,
    "KEY": t_KEY, "SSHFP": t_SSHFP, "TLSA": t_tlsa, "SMIMEA": t_tlsa, "DHCID": t_blob,
    "OPENPGPKEY": t_blob, "HHIT": t_blob, "BRID": t_blob, "RRSIG": t_rrsig, "SIG": t_rrsig,
    "NSEC": t_NSEC, "NSEC3": t_NSEC3, "NSEC3PARAM": t_NSEC3PARAM, "CSYNC": t_CSYNC,
    "ZONEMD": t_ZONEMD, "HIP": t_HIP, "EUI48": t_eui48, "EUI64": t_eui64, "L32": t_l32,
    "L64": t_l64, "NID": t_l64, "URI": t_URI, "CAA": t_CAA, "TKEY": t_TKEY, "TSIG": t_TSIG,
    "DSYNC": t_DSYNC, "IPSECKEY": t_IPSECKEY, "AMTRELAY": t_AMTRELAY, "APL": t_APL,
    "SVCB": t_svcb, "HTTPS": t_svcb, "OPT": t_OPT, "CH_A": t_CH_A,
}

ALL_TYPES = sorted(GRAMMARS)
ZONE_TYPES = sorted(t for t in GRAMMARS if t not in META and t != "CH_A")

# RDATA that embeds domain names (needs an origin when they are relative)
NAME_TYPES = {"NS", "CNAME", "PTR", "DNAME", "NSAP_PTR", "MX", "AFSDB", "RT", "KX", "LP", "SOA",
              "RP", "PX", "SRV", "NAPTR", "RRSIG", "SIG", "NSEC", "HIP", "TKEY", "TSIG", "DSYNC",
              "IPSECKEY", "AMTRELAY", "SVCB", "HTTPS", "CH_A"}


def rdclass_for(name, draw=None):
    if name == "CH_A":
        return CH
    if name in ("TSIG", "TKEY"):
        return ANY
    if name in IN_ONLY:
        return IN
    if draw is not None and name != "OPT" and draw(st.integers(0, 9)) == 0:
        return draw(st.sampled_from([CH, HS, 0xFE00]))
    if name == "OPT":
        return draw(st.sampled_from([512, 1232, 4096, 65535, 0])) if draw else 1232
    return IN


def build(draw, name, ctx=None):
    b = B(draw, ctx)
    GRAMMARS[name](b)
    return bytes(b.out), b.flags


def type_choice(draw, types=None):
    """Draw the type FIRST in a composite: Hypothesis zero-extends long examples, so a
    choice drawn late is heavily biased towards index 0."""
    tl = types or ALL_TYPES
    return tl[draw(st.integers(0, 1 << 20)) % len(tl)]


@st.composite
def record(draw, types=None, ctx=None, name=None):
    """-> dict(type=name, rdclass=int, rdtype=int, wire=hex, flags=[...])"""
    if name is None:
        name = type_choice(draw, types)
    b = B(draw, ctx)
    GRAMMARS[name](b)
    wire, flags = bytes(b.out), b.flags
    return {
        "type": name,
        "rdclass": rdclass_for(name, draw),
        "rdtype": TYPECODES[name],
        "wire": wire.hex(),
        "flags": sorted(flags),
        "names": [[l.hex() for l in n] for n in b.names],
    }


UNKNOWN_TYPES = [0xFF00, 0xFFFE, 65280, 731, 4, 3, 10, 38, 40, 54, 57, 58, 100, 251, 252, 255, 263, 32768, 65535]


@st.composite
def unknown_record(draw):
    t = draw(st.sampled_from(UNKNOWN_TYPES))
    c = draw(st.sampled_from([IN, IN, CH, 0xFE00, 0]))
    wire = draw(_octets)
    return {"type": f"TYPE{t}", "rdclass": c, "rdtype": t, "wire": wire.hex(), "flags": ["unknown"]}
