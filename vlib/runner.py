"""Shared runner: seeding, sharding, bucketing, replay files, evidence, exit protocol.

See DESIGN.md section 0.  A property module (vlib/props/cNN.py) exposes

    ID, LEVEL, RULE, ASSUMPTIONS (list of str)
    def parts(tier) -> list[Part]

A Part is either generated (``strategy`` = Hypothesis strategy producing a
JSON-serialisable *case descriptor*) or enumerated (``cases`` = callable returning a
list of descriptors, completed exhaustively).  ``run(case)`` holds the oracle: it
raises ``Violation`` or returns ``{"nontrivial": bool, "classes": [str, ...]}``.

Exit protocol: 0 held / 1 + ``VIOLATION property=<id> replay=<path>`` / 2 harness error.
"""

from __future__ import annotations

import hashlib
import importlib
import json
import os
import re
import sys
import time
import traceback
from collections import Counter

HERE = os.path.dirname(os.path.dirname(os.path.abspath(__file__)))  # /verif
REPO = os.environ.get("VERIF_REPO", "/repo")


class HarnessError(Exception):
    """The machinery itself is broken (exit 2, never a VIOLATION)."""


class Violation(Exception):
    """The property does not hold for this case.

    clause: which oracle clause (short id, e.g. "text-roundtrip")
    key:    root-cause key used for bucketing / known-finding matching
            (e.g. exception type + innermost dns frame, or a field name)
    """

    def __init__(self, clause, msg, key=None, detail=None):
        super().__init__(f"[{clause}] {msg}")
        self.clause = clause
        self.msg = msg
        self.key = key if key is not None else ""
        self.detail = detail

    @property
    def signature(self):
        return f"{self.clause}|{self.key}"


class _StopShrinking(BaseException):
    pass


class Part:
    def __init__(
        self,
        name,
        run,
        strategy=None,
        cases=None,
        n=None,
        require=None,
        shards=None,
        shrink_budget_s=60.0,
        case_timeout_s=20.0,
    ):
        self.case_timeout_s = case_timeout_s
        self.name = name
        self.run = run
        self.strategy = strategy
        self.cases = cases
        self.n = n or {"quick": 1000, "thorough": 100000}
        self.require = require or {}
        self.shards = shards or {"quick": 8, "thorough": 16}
        self.shrink_budget_s = shrink_budget_s


# ---------------------------------------------------------------------------
# environment


def setup_import_path():
    """Put the code under test first on sys.path and make sure that is what we get."""
    repo = os.path.abspath(REPO)
    deps = os.path.join(HERE, ".deps")
    if os.path.isdir(deps) and deps not in sys.path:
        sys.path.append(deps)
    if repo in sys.path:
        sys.path.remove(repo)
    sys.path.insert(0, repo)
    import dns  # noqa

    got = os.path.abspath(os.path.dirname(os.path.dirname(dns.__file__)))
    if got != repo:
        raise HarnessError(f"dns imported from {got}, expected {repo}")


def innermost_dns_frame(exc):
    """file:function of the innermost traceback frame that lies in the dns package."""
    tb = exc.__traceback__
    found = None
    while tb is not None:
        fn = tb.tb_frame.f_code.co_filename
        if "/dns/" in fn and "/verif/" not in fn:
            found = (
                fn.split("/dns/", 1)[1] + ":" + tb.tb_frame.f_code.co_name
            )
        tb = tb.tb_next
    return found or "?"


def exc_key(exc):
    return f"{type(exc).__name__}@{innermost_dns_frame(exc)}"


def case_hash(case):
    return hashlib.sha1(
        json.dumps(case, sort_keys=True, separators=(",", ":")).encode()
    ).digest()[:8]


def hx(b):
    return bytes(b).hex()


def unhx(s):
    return bytes.fromhex(s)


# ---------------------------------------------------------------------------
# known findings


def load_known(prop_id):
    path = os.path.join(HERE, "known_findings.json")
    if not os.path.exists(path):
        return []
    with open(path) as f:
        data = json.load(f)
    return [e for e in data.get("findings", []) if e.get("property") == prop_id]


def match_known(known, part_name, v):
    """Return the known-finding entry (status 'known') that covers violation v."""
    for e in known:
        if e.get("status") != "known":
            continue
        if e.get("part") not in (None, part_name):
            continue
        if e.get("clause") not in (None, v.clause):
            continue
        if re.search(e.get("key", ""), v.key or ""):
            return e
    return None


# ---------------------------------------------------------------------------
# per-shard statistics


class Stats:
    def __init__(self):
        self.evaluations = 0
        self.units = 0  # enumerated sub-evaluations reported by run() (limits, flips, faults)
        self.nontrivial = set()
        self.classes = Counter()
        self.samples = []
        self.excluded_known = Counter()
        self.failures = []  # list of dict(signature, msg, case, part)
        self.budget_hit = False
        self.exhaustive = None

    def record(self, case, res):
        self.evaluations += 1
        if not res:
            return
        self.units += int(res.get("units", 0))
        for c in res.get("classes", ()):
            self.classes[c] += 1
        if res.get("nontrivial"):
            h = case_hash(case)
            if h not in self.nontrivial:
                self.nontrivial.add(h)
                k = len(self.nontrivial)
                if k <= 2 or (k in (10, 100, 1000, 10000) and len(self.samples) < 6):
                    self.samples.append(case)

    def to_dict(self):
        return {
            "evaluations": self.evaluations,
            "units": self.units,
            "nontrivial": list(self.nontrivial),
            "classes": dict(self.classes),
            "samples": self.samples,
            "excluded_known": dict(self.excluded_known),
            "failures": self.failures,
            "budget_hit": self.budget_hit,
            "exhaustive": self.exhaustive,
        }


def _shard_seed(seed, part_name, idx):
    h = hashlib.sha1(f"{seed}:{part_name}:{idx}".encode()).digest()
    return int.from_bytes(h[:6], "big")


def last_frame_in_dns(exc):
    tb = exc.__traceback__
    last = None
    while tb is not None:
        last = tb.tb_frame.f_code.co_filename
        tb = tb.tb_next
    return bool(last) and "/dns/" in last and "/vlib/" not in last


class _CaseTimeout(BaseException):
    pass


_alarm_fired = [False]


def _on_alarm(signum, frame):
    _alarm_fired[0] = True
    raise _CaseTimeout()


def _run_with_timer(part, case, seconds):
    """Run one case under an interval timer.  The exception raised by the alarm handler can be
    swallowed or *converted* by the code it interrupts (dns.exception.ExceptionWrapper turns any
    exception, BaseException included, into FormError/SyntaxError), so whatever comes out of a run
    during which the alarm fired -- a result, a Violation, another exception -- is discarded and
    reported as a timeout."""
    import signal

    _alarm_fired[0] = False
    old = signal.signal(signal.SIGALRM, _on_alarm)
    signal.setitimer(signal.ITIMER_REAL, seconds)
    try:
        try:
            res = part.run(case)
        except _CaseTimeout:
            raise
        except BaseException:
            if _alarm_fired[0]:
                raise _CaseTimeout()
            raise
        if _alarm_fired[0]:
            raise _CaseTimeout()
        return res
    finally:
        signal.setitimer(signal.ITIMER_REAL, 0)
        signal.signal(signal.SIGALRM, old)


def call_oracle(part, case):
    """Run the oracle; an exception that escapes *from inside the dns package* where the
    oracle did not expect one is a crash violation; one raised in harness code is a
    harness error.  A case that does not finish within part.case_timeout_s is re-run once
    with four times the allowance; only if that also fails to finish is it reported as a
    hang (the property quantifies over termination; inputs are tiny, the allowance is
    seconds, so this is not a performance judgement)."""
    try:
        try:
            return _run_with_timer(part, case, part.case_timeout_s)
        except _CaseTimeout:
            try:
                return _run_with_timer(part, case, 4 * part.case_timeout_s)
            except _CaseTimeout:
                raise Violation(
                    "hang",
                    f"case did not terminate within {4 * part.case_timeout_s:.0f}s",
                    "timeout",
                )
    except Violation:
        raise
    except MemoryError as e:
        raise Violation("crash", "MemoryError (runaway allocation)", exc_key(e))
    except RecursionError as e:
        raise Violation("crash", f"unexpected RecursionError: {e}", exc_key(e))
    except Exception as e:  # noqa
        if last_frame_in_dns(e):
            raise Violation(
                "crash", f"unexpected {type(e).__name__}: {e}", exc_key(e)
            ) from e
        raise


def _run_one(part, case, stats, known):
    """Run the oracle once.  Returns None if held (or known), else the Violation."""
    try:
        res = call_oracle(part, case)
    except Violation as v:
        e = match_known(known, part.name, v)
        if e is not None:
            stats.excluded_known[e.get("id", e.get("what", "?"))] += 1
            stats.evaluations += 1
            return None
        return v
    stats.record(case, res)
    return None


def shard_worker(args):
    prop_id, part_name, tier, seed, idx, nshards, budget_s = args
    try:
        return _shard_worker(prop_id, part_name, tier, seed, idx, nshards, budget_s)
    except HarnessError as e:
        return {"harness_error": f"{part_name}[{idx}]: {e}"}
    except BaseException as e:  # noqa
        return {
            "harness_error": f"{part_name}[{idx}]: {type(e).__name__}: {e}\n"
            + traceback.format_exc()[-1500:]
        }


def _shard_worker(prop_id, part_name, tier, seed, idx, nshards, budget_s):
    import resource

    try:
        lim = int(os.environ.get("VERIF_RLIMIT_AS_GB", "6")) << 30
        resource.setrlimit(resource.RLIMIT_AS, (lim, lim))
    except Exception:
        pass
    mod = load_prop(prop_id)
    part = [p for p in mod.parts(tier) if p.name == part_name][0]
    known = load_known(prop_id)
    stats = Stats()
    t_end = time.monotonic() + budget_s

    if part.cases is not None:
        cases = part.cases()
        done_all = True
        for i, case in enumerate(cases):
            if i % nshards != idx:
                continue
            if time.monotonic() > t_end:
                stats.budget_hit = True
                done_all = False
                break
            v = _run_one(part, case, stats, known)
            if v is not None:
                stats.failures.append(
                    {
                        "signature": v.signature,
                        "msg": str(v),
                        "detail": _jsonable(v.detail),
                        "case": case,
                        "part": part.name,
                    }
                )
                if len(stats.failures) >= 5:
                    done_all = False
                    break
        stats.exhaustive = done_all
        return stats.to_dict()

    # generated part
    import hypothesis
    from hypothesis import HealthCheck, Phase, given, settings

    total = part.n[tier]
    n = max(1, total // nshards)
    state = {"first_fail_t": None, "best": None, "sig": None}

    def test(case):
        if state["first_fail_t"] is None and time.monotonic() > t_end:
            stats.budget_hit = True
            return
        if state["first_fail_t"] is not None:
            # shrinking: only the first signature counts; cap the time spent
            if time.monotonic() - state["first_fail_t"] > part.shrink_budget_s:
                raise _StopShrinking()
            try:
                call_oracle(part, case)
            except Violation as v:
                if v.signature != state["sig"] or match_known(known, part.name, v):
                    return
                sz = len(json.dumps(case))
                if state["best"] is None or sz <= state["best"][0]:
                    state["best"] = (sz, case, v)
                raise
            return
        v = _run_one(part, case, stats, known)
        if v is not None:
            state["first_fail_t"] = time.monotonic()
            state["sig"] = v.signature
            state["best"] = (len(json.dumps(case)), case, v)
            raise v

    test = given(part.strategy)(test)
    test = settings(
        max_examples=n,
        database=None,
        deadline=None,
        derandomize=False,
        report_multiple_bugs=False,
        print_blob=False,
        phases=[Phase.generate, Phase.shrink],
        suppress_health_check=[HealthCheck.too_slow, HealthCheck.data_too_large],
        verbosity=hypothesis.Verbosity.quiet,
    )(test)
    test = hypothesis.seed(_shard_seed(seed, part.name, idx))(test)

    try:
        test()
    except Violation:
        pass
    except _StopShrinking:
        pass
    except hypothesis.errors.FailedHealthCheck as e:
        raise HarnessError(f"health check: {e}")
    except hypothesis.errors.Unsatisfiable as e:
        raise HarnessError(f"unsatisfiable: {e}")
    except hypothesis.errors.Flaky as e:
        # a flaky oracle is a harness defect unless we hold a concrete failing case
        if state["best"] is None:
            raise HarnessError(f"flaky: {e}")
    if state["best"] is not None:
        _, case, v = state["best"]
        stats.failures.append(
            {
                "signature": v.signature,
                "msg": str(v),
                "detail": _jsonable(v.detail),
                "case": case,
                "part": part.name,
            }
        )
    return stats.to_dict()


def _jsonable(x):
    try:
        json.dumps(x)
        return x
    except Exception:
        return repr(x)


def load_prop(prop_id):
    return importlib.import_module(f"vlib.props.{prop_id.lower()}")


# ---------------------------------------------------------------------------
# main


def _truncate_sample(s, limit=3000):
    j = json.dumps(s)
    if len(j) <= limit:
        return s
    return {"truncated_json": j[:limit] + "...", "full_length": len(j)}


def write_replay(prop_id, seed, part_name, case, msg):
    d = os.path.join(HERE, "out", "replays")
    os.makedirs(d, exist_ok=True)
    h = hashlib.sha1(json.dumps(case, sort_keys=True).encode()).hexdigest()[:10]
    rel = os.path.join("out", "replays", f"{prop_id}-{part_name}-{seed}-{h}.json")
    with open(os.path.join(HERE, rel), "w") as f:
        json.dump(
            {"property": prop_id, "part": part_name, "message": msg, "case": case},
            f,
            indent=1,
        )
    return rel


def replay_dir_cases(prop_id):
    d = os.path.join(HERE, "replays", prop_id)
    out = []
    if os.path.isdir(d):
        for fn in sorted(os.listdir(d)):
            if fn.endswith(".json"):
                with open(os.path.join(d, fn)) as f:
                    out.append((os.path.join("replays", prop_id, fn), json.load(f)))
    return out


def main(argv=None):
    argv = list(sys.argv[1:] if argv is None else argv)
    if len(argv) < 2:
        print("usage: check <ID> <quick|thorough> [--replay FILE] [--part NAME]")
        return 2
    prop_id, tier = argv[0].upper(), argv[1]
    replay = None
    only_part = None
    if "--replay" in argv:
        replay = argv[argv.index("--replay") + 1]
    if "--part" in argv:
        only_part = argv[argv.index("--part") + 1]
    seed = int(os.environ.get("VERIF_SEED", "1") or "1")
    t0 = time.time()
    try:
        setup_import_path()
        mod = load_prop(prop_id)
        if replay:
            return do_replay(mod, prop_id, tier, replay)
        return do_run(mod, prop_id, tier, seed, t0, only_part)
    except HarnessError as e:
        print(f"HARNESS-ERROR property={prop_id} {e}")
        return 2
    except Exception:
        print(f"HARNESS-ERROR property={prop_id}")
        traceback.print_exc()
        return 2


def do_replay(mod, prop_id, tier, path):
    with open(path) as f:
        data = json.load(f)
    named = [p for p in mod.parts(tier) if p.name == data["part"]] or [p for p in mod.parts("thorough") if p.name == data["part"]]
    if not named:
        raise HarnessError(f"replay file names part {data['part']!r}, which {prop_id} does not have")
    part = named[0]
    try:
        call_oracle(part, data["case"])
    except Violation as v:
        print(f"replay violates: {v}")
        if v.detail is not None:
            print(f"  detail: {_jsonable(v.detail)}")
        print(f"VIOLATION property={prop_id} replay={path}")
        return 1
    print("replay holds")
    return 0


def do_run(mod, prop_id, tier, seed, t0, only_part=None):
    from concurrent.futures import ProcessPoolExecutor
    import multiprocessing

    known = load_known(prop_id)
    parts = mod.parts(tier)
    if only_part:
        parts = [p for p in parts if p.name == only_part]
    budget_s = float(
        os.environ.get("VERIF_BUDGET_S", "240" if tier == "quick" else "1500")
    )

    violations = []  # (signature, msg, rel_path)
    known_lines = []
    total = Stats()
    per_part = {}

    # 1. replay tier: committed regression / known-finding descriptors
    replayed = 0
    for rel, data in replay_dir_cases(prop_id):
        cand = [p for p in mod.parts(tier) if p.name == data["part"]] or [p for p in mod.parts("thorough") if p.name == data["part"]]
        if not cand:
            raise HarnessError(f"{rel}: unknown part {data['part']}")
        part = cand[0]
        replayed += 1
        try:
            call_oracle(part, data["case"])
        except Violation as v:
            e = match_known(known, part.name, v)
            if e is not None:
                known_lines.append(
                    f"KNOWN-FINDING: property={prop_id} {e.get('what', e.get('id'))}"
                )
            else:
                violations.append((v.signature, str(v), rel))

    # 2. campaigns
    jobs = []
    for part in parts:
        ns = part.shards[tier]
        for i in range(ns):
            jobs.append((prop_id, part.name, tier, seed, i, ns, budget_s))
    workers = int(os.environ.get("VERIF_WORKERS", "16"))
    ctx = multiprocessing.get_context("fork")
    harness_errors = []
    with ProcessPoolExecutor(max_workers=workers, mp_context=ctx) as ex:
        results = list(ex.map(shard_worker, jobs))
    exhaustive_parts = {}
    for job, r in zip(jobs, results):
        pname = job[1]
        if "harness_error" in r:
            harness_errors.append(r["harness_error"])
            continue
        pp = per_part.setdefault(
            pname, {"evaluations": 0, "nontrivial": set(), "classes": Counter()}
        )
        pp["evaluations"] += r["evaluations"]
        pp["nontrivial"].update(bytes(x) for x in r["nontrivial"])
        pp["classes"].update(r["classes"])
        total.evaluations += r["evaluations"]
        total.units += r.get("units", 0)
        total.nontrivial.update((pname, bytes(x)) for x in r["nontrivial"])
        total.classes.update({f"{pname}:{k}": v for k, v in r["classes"].items()})
        for s in r["samples"]:
            if len([x for x in total.samples if x["part"] == pname]) < 3:
                total.samples.append({"part": pname, "case": _truncate_sample(s)})
        total.excluded_known.update(r["excluded_known"])
        total.budget_hit = total.budget_hit or r["budget_hit"]
        if r["exhaustive"] is not None:
            exhaustive_parts[pname] = exhaustive_parts.get(pname, True) and bool(
                r["exhaustive"]
            )
        for f in r["failures"]:
            if any(f["signature"] == s for s, _, _ in violations):
                continue
            # a case that stands for a whole campaign hands back the concrete failing input
            rc = f["detail"].get("replay_case") if isinstance(f.get("detail"), dict) else None
            rel = write_replay(prop_id, seed, f["part"], rc if rc is not None else f["case"], f["msg"])
            violations.append((f["signature"], f["msg"], rel))

    if harness_errors:
        for h in harness_errors:
            print(f"HARNESS-ERROR property={prop_id} {h}")
        if violations:
            # the oracle has confirmed violations elsewhere in the same run (each with a replay
            # file): they are reported; the machinery failure of another shard does not unsay them
            print(f"{prop_id} {tier} seed={seed}: {len(harness_errors)} shard(s) ended in a harness error; reporting the confirmed violations")
            for sig, msg, rel in violations:
                print(f"violation [{sig}]: {msg[:600]}")
                print(f"VIOLATION property={prop_id} replay={rel}")
            return 1
        return 2

    # 3. starvation: a vacuous run is a harness failure, not evidence
    starved = []
    for part in parts:
        pp = per_part.get(part.name)
        if pp is None:
            continue
        req = part.require
        if tier in req and isinstance(req[tier], dict):
            req = req[tier]
        for cls, minimum in req.items():
            if cls in ("quick", "thorough"):
                continue
            if cls == "__nontrivial__":
                got = len(pp["nontrivial"])
            else:
                got = pp["classes"].get(cls, 0)
            if got < minimum:
                starved.append(f"{part.name}:{cls} {got}<{minimum}")

    # 4. evidence
    wall = time.time() - t0
    for e in known:
        if e.get("status") == "known" and not any(
            e.get("what", "") in k for k in known_lines
        ):
            # listed finding without a replay descriptor in replays/: still announce it
            # only if the campaign actually met it
            if total.excluded_known.get(e.get("id", e.get("what", "?")), 0) > 0:
                known_lines.append(
                    f"KNOWN-FINDING: property={prop_id} {e.get('what', e.get('id'))}"
                )
    coverage = {
        "evaluations": total.evaluations + replayed,
        "distinct_nontrivial": len(total.nontrivial),
        "rule": mod.RULE,
        "samples": total.samples or [{"note": "no non-trivial case recorded"}],
        "classes": dict(sorted(total.classes.items())),
        "parts": {
            k: {
                "evaluations": v["evaluations"],
                "distinct_nontrivial": len(v["nontrivial"]),
            }
            for k, v in per_part.items()
        },
        "replayed_regression_cases": replayed,
        "enumerated_sub_evaluations": total.units,
        "excluded_known": dict(total.excluded_known),
        "new_buckets": [s for s, _, _ in violations],
        "shards": len(jobs),
        "budget_hit": total.budget_hit,
        "starved": starved,
        "code_under_test": os.path.abspath(REPO),
    }
    if exhaustive_parts:
        coverage["exhaustive_parts"] = exhaustive_parts
        if all(exhaustive_parts.values()) and len(exhaustive_parts) == len(parts):
            coverage["exhaustive"] = True
    ev = {
        "property_id": prop_id,
        "tier": tier,
        "seed": seed,
        "level": mod.LEVEL,
        "coverage": coverage,
        "assumptions": list(getattr(mod, "ASSUMPTIONS", [])),
        "wall_s": round(wall, 2),
        "violations": len(violations),
    }
    if not only_part and not os.environ.get("VERIF_NO_EVIDENCE"):
        os.makedirs(os.path.join(HERE, "evidence"), exist_ok=True)
        with open(os.path.join(HERE, "evidence", f"{prop_id}.json"), "w") as f:
            json.dump(ev, f, indent=1, sort_keys=True)

    for line in sorted(set(known_lines)):
        print(line)
    print(
        f"{prop_id} {tier} seed={seed}: evaluations={coverage['evaluations']} "
        f"distinct_nontrivial={coverage['distinct_nontrivial']} "
        f"excluded_known={sum(total.excluded_known.values())} wall={wall:.1f}s"
        + (" BUDGET-HIT(inconclusive for the remainder)" if total.budget_hit else "")
    )
    if os.environ.get("VERIF_VERBOSE"):
        for k, v in coverage["classes"].items():
            print(f"   {k}: {v}")
    if violations:
        for sig, msg, rel in violations:
            print(f"violation [{sig}]: {msg[:1500]}")
            print(f"VIOLATION property={prop_id} replay={rel}")
        return 1
    if starved:
        print(f"HARNESS-ERROR property={prop_id} generator starved: {starved}")
        return 2
    return 0


if __name__ == "__main__":
    sys.exit(main())
